"""Run Kani harnesses of /verif/kani against the real crates of /repo and turn results into obligations.

Harness metadata lives next to each harness as a structured comment:
  //@harness name=<fn name> fn=<function label> ob=<clause label> kind=complete|bounded [bound=<text>]
  //@        inputs=<name:type,...> op=<replay op> props=<Cxx,...>
`complete` = loop-free harness over full-domain symbolic scalars (a proof, no unwinding involved);
`bounded`  = stated bound; reported separately and never counted as discharged.
"""
import glob
import os
import re
import shutil
import struct
import subprocess
import time

from . import witness

ROOT = os.path.dirname(os.path.dirname(os.path.abspath(__file__)))

EXPECTED_FLOAT_CHECKS = ('NaN on ', 'arithmetic overflow on floating-point')


def parse_harnesses():
    hs = []
    for path in sorted(glob.glob(os.path.join(ROOT, 'kani', 'src', '*.rs'))):
        cur = None
        for line in open(path):
            m = re.match(r'\s*//@harness\s+(.*)$', line)
            m2 = re.match(r'\s*//@\s+(.*)$', line)
            if m:
                cur = dict(file=os.path.basename(path))
                hs.append(cur)
                text = m.group(1)
            elif m2 and cur is not None:
                text = m2.group(1)
            else:
                cur = None if not line.strip().startswith('//') else cur
                continue
            for kv in re.findall(r'(\w+)=((?:"[^"]*")|\S+)', text):
                cur[kv[0]] = kv[1].strip('"')
    for h in hs:
        h['props'] = h.get('props', '').split(',')
        h['module'] = h['file'][:-3]
    return hs


def prepare(repo, scratch):
    d = os.path.join(scratch, 'kani')
    if os.path.exists(d):
        shutil.rmtree(d)
    shutil.copytree(os.path.join(ROOT, 'kani'), d, ignore=shutil.ignore_patterns('target', 'Cargo.lock'))
    with open(os.path.join(d, 'Cargo.toml.in')) as f:
        t = f.read().replace('@REPO@', repo)
    with open(os.path.join(d, 'Cargo.toml'), 'w') as f:
        f.write(t)
    os.remove(os.path.join(d, 'Cargo.toml.in'))
    lock = os.path.join(repo, 'Cargo.lock')
    if os.path.exists(lock):
        shutil.copy(lock, os.path.join(d, 'Cargo.lock'))
    with open(os.path.join(d, 'src', 'gen_chars.rs'), 'w') as f:
        f.write(witness.gen_chars_rs())
    os.makedirs(os.path.join(d, '.cargo'), exist_ok=True)
    with open(os.path.join(d, '.cargo', 'config.toml'), 'w') as f:
        f.write('[net]\noffline = true\n')
    return d


def _env(scratch):
    env = dict(os.environ)
    env['CARGO_TARGET_DIR'] = os.path.join(scratch, 'kani-target')
    env['CARGO_NET_OFFLINE'] = 'true'
    env.pop('RUSTUP_TOOLCHAIN', None)
    env.pop('RUSTFLAGS', None)
    return env


def _parse_blocks(out):
    """Return dict harness(short name) -> dict(status, failed_checks, checks, time, covers)."""
    res = {}
    thread_h = {}
    cur = None
    for line in out.split('\n'):
        m = re.match(r'^(?:Thread (\d+): )?Checking harness (\S+?)\.\.\.', line)
        if m:
            t = m.group(1) or '-'
            name = m.group(2).split('::')[-1]
            thread_h[t] = name
            res.setdefault(name, dict(status=None, failed_checks=[], checks=0, time=0.0, covers=None, raw=[]))
            if m.group(1) is None:
                cur = name
            continue
        m = re.match(r'^Thread (\d+):\s*$', line)
        if m:
            cur = thread_h.get(m.group(1))
            continue
        if line.startswith('Manual Harness Summary') or line.startswith('Complete - '):
            cur = None
            continue
        if cur is None:
            continue
        r = res[cur]
        r['raw'].append(line)
        m = re.match(r'^\s*\*\* (\d+) of (\d+) failed', line)
        if m:
            r['checks'] = int(m.group(2))
        m = re.match(r'^\s*\*\* (\d+) of (\d+) cover properties satisfied', line)
        if m:
            r['covers'] = (int(m.group(1)), int(m.group(2)))
        m = re.match(r'^Failed Checks: (.*)$', line)
        if m:
            r['failed_checks'].append(m.group(1))
        m = re.match(r'^VERIFICATION:- (\w+)', line)
        if m:
            r['status'] = m.group(1)
        m = re.match(r'^Verification Time: ([0-9.]+)s', line)
        if m:
            r['time'] = float(m.group(1))
    return res


def _decode(inputs, vecs):
    """inputs: 'name:type,...'; vecs: list of byte lists in kani::any() order -> replay args."""
    args = {}
    names = [x for x in inputs.split(',') if x]
    for (nt, b) in zip(names, vecs):
        n, _, t = nt.partition(':')
        bs = bytes(b)
        if t == 'char':
            args[n] = str(struct.unpack('<I', bs[:4])[0])
        elif t == 'f64':
            args[n] = 'bits:%#018x' % struct.unpack('<Q', bs[:8])[0]
        elif t == 'f64n':
            args[n] = 'n:bits:%#018x' % struct.unpack('<Q', bs[:8])[0]
        elif t == 'booln':
            args[n] = 'b:true' if bs[0] else 'b:false'
        elif t == 'bool':
            args[n] = 'true' if bs[0] else 'false'
        elif t == 'usize':
            args[n] = str(struct.unpack('<Q', bs[:8])[0])
        elif t == 'u8':
            args[n] = str(bs[0])
        else:
            args[n] = repr(list(b))
    return args


def _playback(h, d, env, timeout):
    cmd = ['cargo', 'kani', '--harness', h['name'], '-Z', 'concrete-playback', '--concrete-playback=print',
           '--output-format', 'terse'] + h.get('_flags', [])
    p = subprocess.run(cmd, cwd=d, env=env, capture_output=True, text=True, timeout=timeout)
    out = p.stdout + p.stderr
    tests = []
    for m in re.finditer(r'Check for `([^`]*)`: "([^"]*)"(.*?)kani::concrete_playback_run', out, re.S):
        if m.group(1) == 'cover':
            continue
        desc = m.group(2)
        vecs = [[int(x) for x in v.split(',') if x.strip()] for v in re.findall(r'vec!\[([0-9, ]*)\],', m.group(3))]
        tests.append((desc, vecs))
    return tests, out


def run_group(pid, groups, scratch, tier, seed, repo):
    t0 = time.time()
    res = dict(obligations=[], bounded=[], undecided=[], functions=[], cmds=[], assumptions=[], solver_s=0.0,
               distinct_cases=0, rule='')
    hs = [h for h in parse_harnesses() if h['module'] in groups and pid in h['props']]
    if tier == 'quick':
        hs = [h for h in hs if h.get('tier', 'quick') == 'quick']
    if not hs:
        res['undecided'].append(f'no Kani harness found for groups {groups}')
        return res
    d = prepare(repo, scratch)
    env = _env(scratch)
    cap = 600 if tier == 'quick' else 2400
    # group by extra flags (e.g. stubbing) so one cargo kani invocation serves many harnesses
    by_flags = {}
    for h in hs:
        flags = h.get('flags', '').replace('+', ' ').split()
        h['_flags'] = flags
        by_flags.setdefault(tuple(flags), []).append(h)
    results = {}
    for flags, hl in by_flags.items():
        cmd = ['cargo', 'kani', '--output-format', 'terse', '-j', '8'] + list(flags)
        if tier == 'thorough':
            cmd += ['--solver', 'kissat']
        for h in hl:
            cmd += ['--harness', h['name']]
        res['cmds'].append('(cd kani-scratch && CARGO_NET_OFFLINE=true ' + ' '.join(cmd) + ')')
        try:
            p = subprocess.run(cmd, cwd=d, env=env, capture_output=True, text=True, timeout=cap)
        except subprocess.TimeoutExpired:
            res['undecided'].append(f'kani timeout after {cap}s on {[h["name"] for h in hl]}')
            continue
        out = p.stdout + '\n' + p.stderr
        blocks = _parse_blocks(p.stdout)
        if not blocks:
            res['undecided'].append('kani produced no harness result (compile error?): ' + out[-1500:])
            continue
        results.update(blocks)
    for h in hs:
        b = results.get(h['name'])
        oid = f'{h["fn"]}/kani:{h["ob"]}'
        base = dict(id=oid, key=h['name'], fn=h['fn'], kind='kani', label=h['ob'], expr=h.get('claim', h['ob']),
                    backend='kani 0.68.0 + cbmc 6.11 (' + ('kissat' if tier == 'thorough' else 'default SAT') + ')',
                    harness=h['name'])
        if b is None or b['status'] is None:
            res['undecided'].append(f'kani gave no verdict for harness {h["name"]}')
            continue
        real_fail = [c for c in b['failed_checks'] if not c.startswith(EXPECTED_FLOAT_CHECKS)]
        expected_float = [c for c in b['failed_checks'] if c.startswith(EXPECTED_FLOAT_CHECKS)]
        if b['checks'] == 0:
            res['undecided'].append(f'vacuity guard: harness {h["name"]} generated 0 checks')
            continue
        if b['covers'] is not None and b['covers'][0] < b['covers'][1] and not real_fail:
            res['undecided'].append(f'vacuity guard: cover! unsatisfied in harness {h["name"]} ({b["covers"]})')
            continue
        status = 'failed' if real_fail else 'discharged'
        base.update(status=status, checks=b['checks'], time_s=b['time'], detail='\n'.join(b['failed_checks']),
                    expected_float_checks=len(expected_float))
        res['solver_s'] += b['time']
        if status == 'failed':
            try:
                tests, pout = _playback(h, d, env, cap)
                chosen = None
                for (desc, vecs) in tests:
                    if not desc.startswith(EXPECTED_FLOAT_CHECKS):
                        chosen = (desc, vecs)
                        break
                if chosen and h.get('op'):
                    args = _decode(h.get('inputs', ''), chosen[1])
                    for kv in h.get('fixed', '').split(';'):
                        if '=' in kv:
                            k, _, v = kv.partition('=')
                            args[k] = v
                    exe = witness.build(repo, scratch)
                    rc, rout = witness.run_input(exe, h['op'], args)
                    obs = re.search(r'observed=(.*)', rout)
                    exp = re.search(r'expected=(.*)', rout)
                    base['counterexample'] = dict(op=h['op'], input=args, check=chosen[0],
                                                  observed=obs.group(1) if obs else None,
                                                  expected=exp.group(1) if exp else None,
                                                  replayed='kani concrete playback values run against the real code through xmlrs-replay: '
                                                           + ('reproduces' if rc == 1 else 'does NOT reproduce (rc=%d)' % rc))
                    if rc != 1:
                        base['counterexample'] = None
                        base['detail'] += f'\nkani model {args} did not reproduce through the replay binary'
            except Exception as e:
                base['detail'] += f'\n(concrete playback failed: {e!r})'
        if h.get('kind') == 'bounded':
            base['bound'] = h.get('bound', '?')
            base['id'] = oid + '[bounded]'
            res['bounded'].append(base)
        else:
            res['obligations'].append(base)
    fnset = {}
    for o in res['obligations'] + res['bounded']:
        fnset.setdefault(o['fn'], []).append(o)
    for fn, os_ in fnset.items():
        res['functions'].append(dict(function=fn, backend='kani+cbmc', harnesses=[o['harness'] for o in os_],
                                     obligations=sum(1 for o in os_ if o['kind'] == 'kani' and 'bound' not in o),
                                     discharged=sum(1 for o in os_ if o['status'] == 'discharged' and 'bound' not in o),
                                     bounded=sum(1 for o in os_ if 'bound' in o),
                                     solver_s=round(sum(o.get('time_s', 0) for o in os_), 3),
                                     status='verified' if all(o['status'] == 'discharged' for o in os_) else 'failed'))
    res['distinct_cases'] = len(hs)
    res['wall_s'] = time.time() - t0
    return res
