"""Rust-aware scanner: locate items in /repo source text and copy them verbatim.

Only lexical structure is understood (comments, string/char literals, lifetimes, raw strings, brace
nesting).  That is enough to find `fn NAME` at the top level of a file or directly inside a given
`impl ... {` / `trait ... {` block and to return its exact text span.
"""
import hashlib
import re


class ScanError(Exception):
    pass


def code_mask(text):
    """Return a bytearray m with m[i]==1 iff text[i] is code (not inside comment/string/char literal)."""
    n = len(text)
    m = bytearray(n)
    i = 0
    while i < n:
        c = text[i]
        if c == '/' and i + 1 < n and text[i + 1] == '/':
            j = text.find('\n', i)
            if j < 0:
                j = n
            i = j
            continue
        if c == '/' and i + 1 < n and text[i + 1] == '*':
            depth = 1
            j = i + 2
            while j < n and depth > 0:
                if text.startswith('/*', j):
                    depth += 1
                    j += 2
                elif text.startswith('*/', j):
                    depth -= 1
                    j += 2
                else:
                    j += 1
            i = j
            continue
        if c == 'r' and i + 1 < n and text[i + 1] in '#"' and (i == 0 or not (text[i - 1].isalnum() or text[i - 1] == '_')):
            j = i + 1
            hashes = 0
            while j < n and text[j] == '#':
                hashes += 1
                j += 1
            if j < n and text[j] == '"':
                end = text.find('"' + '#' * hashes, j + 1)
                if end < 0:
                    raise ScanError('unterminated raw string')
                i = end + 1 + hashes
                continue
        if c == '"':
            j = i + 1
            while j < n:
                if text[j] == '\\':
                    j += 2
                    continue
                if text[j] == '"':
                    break
                j += 1
            i = j + 1
            continue
        if c == "'":
            # char literal or lifetime
            if i + 2 < n and text[i + 1] == '\\':
                j = text.find("'", i + 2)
                # '\'' case
                if text[i + 2] == "'" and i + 3 < n and text[i + 3] == "'":
                    j = i + 3
                i = j + 1
                continue
            if i + 2 < n and text[i + 2] == "'":
                i = i + 3
                continue
            # lifetime: treat as code
            m[i] = 1
            i += 1
            continue
        m[i] = 1
        i += 1
    return m


def match_brace(text, mask, open_idx):
    """Given index of a code '{', return index of its matching '}'."""
    assert text[open_idx] == '{' and mask[open_idx]
    depth = 0
    for i in range(open_idx, len(text)):
        if not mask[i]:
            continue
        ch = text[i]
        if ch == '{':
            depth += 1
        elif ch == '}':
            depth -= 1
            if depth == 0:
                return i
    raise ScanError('unbalanced braces')


def _norm_ws(s):
    return re.sub(r'\s+', ' ', s).strip()


def _blocks_at_depth0(text, mask, start, end):
    """Yield (header_start, open_brace_idx, close_brace_idx) for each brace block at depth 0 in [start,end)."""
    i = start
    item_start = start
    while i < end:
        if not mask[i]:
            i += 1
            continue
        ch = text[i]
        if ch == ';':
            item_start = i + 1
        elif ch == '{':
            close = match_brace(text, mask, i)
            yield (item_start, i, close)
            item_start = close + 1
            i = close
        i += 1


def _strip_header(text, mask, hs, ob):
    """Header text (code only, attributes and doc comments removed, whitespace-normalised)."""
    chars = []
    for k in range(hs, ob):
        chars.append(text[k] if mask[k] else ' ')
    h = ''.join(chars)
    # drop attributes #[...] (balanced square brackets)
    out = []
    k = 0
    while k < len(h):
        if h[k] == '#' and k + 1 < len(h) and h[k + 1] == '[':
            depth = 0
            j = k + 1
            while j < len(h):
                if h[j] == '[':
                    depth += 1
                elif h[j] == ']':
                    depth -= 1
                    if depth == 0:
                        break
                j += 1
            k = j + 1
            continue
        out.append(h[k])
        k += 1
    return _norm_ws(''.join(out))


class Item:
    def __init__(self, file, owner, name, text, start_line, end_line, sig, body, header_offset):
        self.file = file
        self.owner = owner
        self.name = name
        self.text = text            # verbatim, from `fn`/`pub fn` to closing brace
        self.start_line = start_line
        self.end_line = end_line
        self.sig = sig              # text before the body's '{'
        self.body = body            # '{ ... }' inclusive
        self.sha256 = hashlib.sha256(text.encode()).hexdigest()

    def __repr__(self):
        return f'<Item {self.file}:{self.start_line}-{self.end_line} {self.owner or ""}::{self.name}>'


def _fn_start(text, mask, hs, ob):
    """Index of the first code char of the item (after attributes/doc comments), i.e. `pub`/`fn`/..."""
    k = hs
    while k < ob:
        if not mask[k] or text[k].isspace():
            k += 1
            continue
        if text[k] == '#' and text[k + 1] == '[':
            depth = 0
            j = k + 1
            while j < ob:
                if mask[j] and text[j] == '[':
                    depth += 1
                elif mask[j] and text[j] == ']':
                    depth -= 1
                    if depth == 0:
                        break
                j += 1
            k = j + 1
            continue
        return k
    return hs


_FN_RE = re.compile(r'^(?:pub(?:\s*\([^)]*\))?\s+)?(?:const\s+)?(?:unsafe\s+)?fn\s+([A-Za-z_][A-Za-z0-9_]*)\b')


def find_fn(src_text, file, owner, name):
    """Locate `fn name` at top level (owner=None) or directly inside the block whose header equals `owner`
    (e.g. 'impl XmlText', 'impl CharacterData for XmlText', 'pub trait CharacterDataMut: CharacterData + NodeMut').
    Returns Item. Raises ScanError if not found or ambiguous."""
    mask = code_mask(src_text)
    n = len(src_text)
    regions = []
    if owner is None:
        regions.append((0, n))
    else:
        want = _norm_ws(owner)
        for hs, ob, cb in _blocks_at_depth0(src_text, mask, 0, n):
            h = _strip_header(src_text, mask, hs, ob)
            h2 = re.sub(r'^pub(\s*\([^)]*\))?\s+', '', h)
            if h == want or h2 == want:
                regions.append((ob + 1, cb))
        if not regions:
            raise ScanError(f'lost anchor: block `{owner}` not found in {file}')
    found = []
    for (rs, re_) in regions:
        for hs, ob, cb in _blocks_at_depth0(src_text, mask, rs, re_):
            h = _strip_header(src_text, mask, hs, ob)
            mm = _FN_RE.match(h)
            if mm and mm.group(1) == name:
                fs = _fn_start(src_text, mask, hs, ob)
                found.append((fs, ob, cb))
    if not found:
        raise ScanError(f'lost anchor: fn `{name}` not found in {file} ({owner or "top level"})')
    if len(found) > 1:
        raise ScanError(f'ambiguous anchor: fn `{name}` found {len(found)} times in {file} ({owner})')
    fs, ob, cb = found[0]
    text = src_text[fs:cb + 1]
    start_line = src_text.count('\n', 0, fs) + 1
    end_line = src_text.count('\n', 0, cb) + 1
    return Item(file, owner, name, text, start_line, end_line, src_text[fs:ob], src_text[ob:cb + 1], fs)


def strip_comments(text):
    """Remove comments (keeping newlines) from a code fragment; literals are kept."""
    mask = code_mask(text)
    out = []
    i = 0
    n = len(text)
    while i < n:
        if mask[i]:
            out.append(text[i])
            i += 1
            continue
        if text[i] == '/' and i + 1 < n and text[i + 1] in '/*':
            if text[i + 1] == '/':
                j = text.find('\n', i)
                if j < 0:
                    j = n
                i = j
            else:
                depth = 1
                j = i + 2
                while j < n and depth > 0:
                    if text.startswith('/*', j):
                        depth += 1
                        j += 2
                    elif text.startswith('*/', j):
                        depth -= 1
                        j += 2
                    else:
                        if text[j] == '\n':
                            out.append('\n')
                        j += 1
                i = j
            continue
        out.append(text[i])
        i += 1
    return ''.join(out)
