"""Assemble a single-file Verus program from functions extracted out of /repo plus a contract.

A *unit* is a template (Verus text: spec functions, environment types, shims, lemmas) containing
placeholder lines `//@@ <key>`; each key names a `Fn` record that says which function of /repo to
copy there and which contract clauses to splice between its signature and its body.
"""
import difflib
import os
import re

from . import rustscan

REPO = os.environ.get('VERIF_REPO', '/repo')


class Rule:
    """One rewrite rule of table R (DESIGN §3.1). `pattern` is a regex over comment-free code."""

    def __init__(self, rid, pattern, repl, why, flags=re.S):
        self.rid = rid
        self.rx = re.compile(pattern, flags)
        self.repl = repl
        self.why = why


# The fixed global rewrite table. Order matters. Every hit is counted and reported in the evidence.
GLOBAL_RULES = [
    Rule('R1', r'([A-Za-z_][A-Za-z0-9_\.]*(?:\(\))?)\s*\.chars\(\)\s*\.collect::<Vec<char>>\(\)',
         r'shim_chars_vec(\1)', 'std iterator adapter -> contract-carrying shim whose body is the original expression'),
    Rule('R4', r'([A-Za-z_][A-Za-z0-9_\.]*)\s*\.chars\(\)\s*\.skip\(([^()]*(?:\([^()]*\))?[^()]*)\)\s*\.take\(([^()]*(?:\([^()]*\))?[^()]*)\)\s*\.collect\(\)',
         r'shim_skip_take(&\1, \2, \3)', 'std iterator adapter -> shim'),
    Rule('R5', r'([A-Za-z_][A-Za-z0-9_\.]*(?:\(\))?(?:\.unwrap_or_default\(\))?)\s*\.chars\(\)\s*\.count\(\)',
         lambda m: (f'shim_str_char_count({m.group(1)})' if re.fullmatch(r'[A-Za-z_][A-Za-z0-9_]*', m.group(1))
                    else f'shim_char_count(&{m.group(1)})'),
         'std iterator adapter -> shim (a bare identifier is a `&str` parameter, anything else a `String` place)'),
    Rule('R2', r'([A-Za-z_][A-Za-z0-9_]*)\.iter\(\)\.collect(?:::<String>)?\(\)',
         r'shim_string_of(&\1)', 'std iterator adapter -> shim'),
    Rule('R3', r'([A-Za-z_][A-Za-z0-9_]*)\.drain\(([A-Za-z_][A-Za-z0-9_]*)\.\.([A-Za-z_][A-Za-z0-9_]*)\);',
         r'shim_drain(&mut \1, \2, \3);', 'Vec::drain(a..b) -> shim carrying std\'s panic condition as a precondition'),
    Rule('R10', r'\|_\|', r'|_e|', 'Verus rejects `_` closure parameters; pure renaming'),
]


class Fn:
    def __init__(self, file, owner, name, ret='r', requires=(), ensures=(), loops=None, rules=(),
                 inject=(), sig_rules=(), decreases=None, label=None, mode=None, twin_wrap=None, props=None, safety_props=None,
                 no_twin=False, attrs=(), ensures_if_param=(), skip_global=()):
        self.file = file
        self.owner = owner
        self.name = name
        self.ret = ret
        self.requires = list(requires)   # [(label, expr)]
        self.ensures = list(ensures)     # [(label, expr)]
        self.loops = loops or {}         # ordinal -> {'invariant': [(label, expr)], 'decreases': expr}
        self.rules = list(rules)         # unit-specific Rule objects (applied after the global table)
        self.inject = list(inject)       # [(regex, ghost_text[, opts])] ghost text appended to (opts 'before': prepended to; 'after_block': appended behind the closing brace of the block this line opens) the first (opts 'all': every) line matching regex
        self.sig_rules = list(sig_rules)  # Rule objects applied to the signature
        self.decreases = decreases
        self.label = label or ((owner + '::' if owner else '') + name)
        self.mode = mode
        self.twin_wrap = twin_wrap   # e.g. 'impl DomXmlText': where the vacuity twin goes when it cannot sit next to the fn
        self.props = props
        self.safety_props = safety_props
        self.ensures_if_param = list(ensures_if_param)   # [(param name, (label, expr))]: clause added only if the signature has that parameter
        self.skip_global = set(skip_global)   # rule ids of the global table not to apply to this function
        self.attrs = list(attrs)    # verifier attributes emitted before the signature (e.g. exec_allows_no_decreases_clause: stated, counted)
        self.no_twin = no_twin      # trait-impl members cannot get a renamed twin; allowed only for functions without `requires`


class Assembled:
    def __init__(self):
        self.text = ''
        self.linemap = {}    # generated line (1-based) -> dict(key, kind, label, repo_file, repo_line)
        self.fns = {}        # key -> dict(item, hits, verbatim_ratio, gen_start, gen_end, fn)
        self.rule_hits = {}


def _apply_rules(text, rules, hits):
    for r in rules:
        def sub(m, r=r):
            hits[r.rid] = hits.get(r.rid, 0) + 1
            out = m.expand(r.repl) if isinstance(r.repl, str) else r.repl(m)
            lost = m.group(0).count('\n') - out.count('\n')
            if lost > 0:
                out = out + '\n' * lost
            elif lost < 0:
                raise rustscan.ScanError(f'rule {r.rid} adds newlines')
            return out
        text = r.rx.sub(sub, text)
    return text


_RET_RE = re.compile(r'\)\s*->\s*(.+?)\s*(where\b.*)?$', re.S)


def _named_return(sig, ret):
    """`fn f(..) -> T [where ..]` => `fn f(..) -> (r: T) [where ..]` ; unit return gets no name."""
    # find the last top-level ')' that closes the parameter list
    depth = 0
    close = None
    i = sig.index('(')
    for k in range(i, len(sig)):
        if sig[k] == '(':
            depth += 1
        elif sig[k] == ')':
            depth -= 1
            if depth == 0:
                close = k
                break
    head, tail = sig[:close + 1], sig[close + 1:]
    m = re.match(r'\s*->\s*(.+?)(\s*\bwhere\b.*)?\s*$', tail, re.S)
    if not m:
        return sig.rstrip(), False
    ty = m.group(1).strip()
    where = (m.group(2) or '')
    return f'{head} -> ({ret}: {ty}){where}', True


def assemble(template, fns, twins=False, repo=REPO):
    """twins: also emit, for every function, a renamed copy with the same requires and the single postcondition
    `false` (vacuity guard: Verus must REJECT every twin). Callers keep seeing the original contracts."""
    out = Assembled()
    lines_out = []

    def emit(line, info=None):
        lines_out.append(line)
        if info:
            out.linemap[len(lines_out)] = info

    src_cache = {}
    deferred = []
    tlines = template.split('\n')
    for tl in tlines:
        if twins and deferred and tl.strip().startswith('} // verus!'):
            for (wrap, tw) in deferred:
                emit(wrap + ' {')
                for (l, info) in tw:
                    emit(l, info)
                emit('}')
            deferred = []
        m = re.match(r'^(\s*)//@@\s*(\S+)\s*$', tl)
        if not m:
            emit(tl)
            continue
        indent, key = m.group(1), m.group(2)
        fn = fns[key]
        path = os.path.join(repo, fn.file)
        if path not in src_cache:
            with open(path) as f:
                src_cache[path] = f.read()
        item = rustscan.find_fn(src_cache[path], fn.file, fn.owner, fn.name)
        hits = {}
        sig = rustscan.strip_comments(item.sig)
        sig = re.sub(r'^pub(\s*\([^)]*\))?\s+', '', sig)
        if sig != rustscan.strip_comments(item.sig):
            hits['R12'] = hits.get('R12', 0) + 1
        sig = _apply_rules(sig, fn.sig_rules, hits)
        sig = re.sub(r'\s+', ' ', sig).strip()
        sig, _ = _named_return(sig, fn.ret)
        for (pname, clause) in fn.ensures_if_param:
            if re.search(r'\b' + re.escape(pname) + r'\s*:\s*&mut\b', sig) and clause not in fn.ensures:
                fn.ensures.append(clause)
        body = rustscan.strip_comments(item.body)
        body = _apply_rules(body, [r for r in GLOBAL_RULES if r.rid not in fn.skip_global], hits)
        body = _apply_rules(body, fn.rules, hits)
        body_lines = body.split('\n')
        # ghost injections (specification only): appended to the end of the first matching line
        for inj in fn.inject:
            rx, ghost = inj[0], inj[1]
            opts = inj[2] if len(inj) > 2 else ''
            done = False
            for bi, bl in enumerate(body_lines):
                if re.search(rx, bl):
                    g = ghost.replace('\n', ' ')
                    if 'after_block' in opts:
                        # the ghost text goes behind the closing brace of the block whose header this line is (brace
                        # counting from the first `{` at or after the match; string / comment braces are not expected here)
                        depth = 0
                        opened = False
                        end = None
                        for bj in range(bi, len(body_lines)):
                            code = body_lines[bj].split('//')[0]
                            for ch in code:
                                if ch == '{':
                                    depth += 1
                                    opened = True
                                elif ch == '}':
                                    depth -= 1
                            if opened and depth <= 0:
                                end = bj
                                break
                        if end is None:
                            raise rustscan.ScanError(f'lost anchor: block opened at /{rx}/ does not close in {fn.label}')
                        body_lines[end] = body_lines[end] + ' ' + g
                        done = True
                        if 'all' not in opts:
                            break
                        continue
                    if 'before' in opts:
                        ind = re.match(r'\s*', bl).group(0)
                        body_lines[bi] = ind + g + ' ' + bl.lstrip()
                    else:
                        body_lines[bi] = bl + ' ' + g
                    done = True
                    if 'all' not in opts:
                        break
            if not done and 'optional' not in opts:
                raise rustscan.ScanError(f'lost anchor: injection point /{rx}/ not found in {fn.label}')
        # loop contracts by ordinal
        loop_parts = {}
        if fn.loops:
            ordinal = 0
            for bi, bl in enumerate(body_lines):
                if re.search(r'^\s*(while\b|for\b|loop\b)', bl):  # `while let` included
                    if ordinal in fn.loops:
                        spec = fn.loops[ordinal]
                        # header prefix | one generated line per invariant clause (so a failing span names its clause) | rest
                        if '/*@loop*/' in bl:
                            # a rewrite rule moved text behind the header's `{`: the rule marks where the clauses go
                            pre, post = bl.split('/*@loop*/', 1)
                        else:
                            # the loop header must end with '{' on this line
                            if not bl.rstrip().endswith('{'):
                                raise rustscan.ScanError(f'unsupported loop header layout in {fn.label}')
                            pre, post = bl.rstrip()[:-1], '{'
                        parts = [(pre, None)]
                        if spec.get('invariant'):
                            parts.append(('        invariant', None))
                            for (lab, e) in spec['invariant']:
                                parts.append(('            ' + e + ',', dict(kind='loopinv', label=lab)))
                        if spec.get('ensures'):
                            # what holds when the loop is left (needed for `while let`, which leaves through a break)
                            parts.append(('        ensures', None))
                            for (lab, e) in spec['ensures']:
                                parts.append(('            ' + e + ',', dict(kind='loopinv', label=lab)))
                        if spec.get('decreases'):
                            parts.append(('        decreases ' + spec['decreases'] + ',', None))
                        parts.append((post, None))
                        loop_parts[bi] = parts
                    ordinal += 1
            if ordinal < len(fn.loops):
                raise rustscan.ScanError(f'lost anchor: loop ordinal missing in {fn.label}')
        gen_start = len(lines_out) + 1
        for a in fn.attrs:
            emit(indent + a)
        emit(indent + sig, dict(key=key, kind='sig', label='sig', repo_file=fn.file, repo_line=item.start_line))
        if fn.requires:
            emit(indent + '    requires')
            for (lab, e) in fn.requires:
                emit(indent + '        ' + e + ',', dict(key=key, kind='requires', label=lab))
        ens = list(fn.ensures)
        if ens:
            emit(indent + '    ensures')
            for (lab, e) in ens:
                emit(indent + '        ' + e + ',', dict(key=key, kind='ensures', label=lab))
        if fn.decreases:
            emit(indent + '    decreases ' + fn.decreases + ',')
        # body: line k of the body corresponds to repo line (line of '{') + k
        body_repo_line0 = item.start_line + item.sig.count('\n')
        for bi, bl in enumerate(body_lines):
            if bi in loop_parts:
                for (ptxt, pinfo) in loop_parts[bi]:
                    info = dict(key=key, kind='body', label='body', repo_file=fn.file, repo_line=body_repo_line0 + bi)
                    if pinfo:
                        info.update(pinfo)
                    emit(ptxt, info)
                continue
            emit(bl if bi else indent + bl,
                 dict(key=key, kind='body', label='body', repo_file=fn.file, repo_line=body_repo_line0 + bi))
        gen_end = len(lines_out)
        if twins and fn.no_twin and fn.requires:
            raise rustscan.ScanError(f'{fn.label}: no_twin is only allowed without preconditions')
        if twins and not fn.no_twin:
            tw = []
            tsig = re.sub(r'\bfn\s+' + re.escape(fn.name) + r'\b', 'fn ' + fn.name + '__vacuity', sig, count=1)
            for a in fn.attrs:
                tw.append((indent + a, None))
            tw.append((indent + tsig, None))
            if fn.requires:
                tw.append((indent + '    requires', None))
                for (lab, e) in fn.requires:
                    tw.append((indent + '        ' + e + ',', None))
            tw.append((indent + '    ensures', None))
            tw.append((indent + '        false,', dict(key=key, kind='ensures', label='vacuity')))
            if fn.decreases:
                tw.append((indent + '    decreases ' + fn.decreases + ',', None))
            for bi, bl in enumerate(body_lines):
                if bi in loop_parts:
                    for (ptxt, pinfo) in loop_parts[bi]:
                        tw.append((ptxt, None))
                    continue
                tw.append((bl if bi else indent + bl, None))
            if fn.twin_wrap:
                deferred.append((fn.twin_wrap, tw))
            else:
                for (l, info) in tw:
                    emit(l, info)
        orig = re.sub(r'\s+', ' ', item.text)
        new = re.sub(r'\s+', ' ', sig + ' ' + '\n'.join(body_lines))
        ratio = difflib.SequenceMatcher(None, orig, new, autojunk=False).ratio()
        out.fns[key] = dict(item=item, hits=hits, verbatim_ratio=round(ratio, 4), gen_start=gen_start,
                            gen_end=gen_end, fn=fn)
        for k, v in hits.items():
            out.rule_hits[k] = out.rule_hits.get(k, 0) + v
    out.text = '\n'.join(lines_out) + '\n'
    return out
