"""Run Verus on an assembled unit and turn its diagnostics into named obligations."""
import json
import os
import re
import shutil
import subprocess
import time

from . import unit as unit_mod
from . import rustscan

VERUS = shutil.which('verus') or '/usr/local/bin/verus'

PROOF_FAIL_MESSAGES = (
    'postcondition not satisfied',
    'precondition not satisfied',
    'possible arithmetic underflow/overflow',
    'possible division by zero',
    'assertion failed',
    'invariant not satisfied',
    'loop invariant not satisfied',
    'decreases not satisfied',
    'unable to prove',
    'cannot show invariant holds',
    'possible bit shift underflow/overflow',
    'recommendation not met',
    'could not prove termination',
)


class UnitResult:
    def __init__(self, name):
        self.name = name
        self.status = 'ok'          # ok | failed | undecided
        self.reason = ''
        self.obligations = []       # dicts: id, fn, kind, label, status ('discharged'|'failed'), detail
        self.functions = []         # dicts per function under contract
        self.wall_s = 0.0
        self.smt_ms = 0
        self.cmd = ''
        self.raw_errors = []        # rendered verifier messages for failed obligations
        self.rule_hits = {}
        self.assumption_scan = []
        self.vacuity = None
        self.gen_path = ''
        self.auto_extracted = []    # helper fns of the same file pulled in because an extracted body calls them


def scan_assumptions(text):
    """Mechanical scan of a generated Verus file for everything that is assumed, not proved."""
    found = []
    lines = text.split('\n')
    for i, l in enumerate(lines):
        s = l.strip()
        if s.startswith('//'):
            continue
        for kw in ('assume_specification', 'external_body', 'admit(', 'assume(', '#[verifier::external]',
                   'external_fn_specification', 'external_type_specification', 'verifier::axiom', 'broadcast use',
                   'uninterp spec fn', 'uninterp'):
            if kw in s:
                if kw == 'broadcast use' and '::' not in s:
                    continue   # a lemma proved in this very file, switched on for the module: not an assumption
                # name: the next fn / the bracketed path
                name = ''
                m = re.search(r'assume_specification\s*(?:<[^>]*>)?\s*\[([^\]]+)\]', s)
                if m:
                    name = m.group(1).strip()
                else:
                    for j in range(i, min(i + 6, len(lines))):
                        m2 = re.search(r'\bfn\s+([A-Za-z_0-9]+)', lines[j])
                        if m2:
                            name = m2.group(1)
                            break
                        m3 = re.search(r'\bstruct\s+([A-Za-z_0-9]+)', lines[j])
                        if m3:
                            name = 'struct ' + m3.group(1)
                            break
                found.append(f'{kw.strip("(#[]")}: {name}'.strip())
                break
    # de-duplicate, keep order
    seen = set()
    out = []
    for f in found:
        if f not in seen:
            seen.add(f)
            out.append(f)
    return out


def _run_verus(path, rlimit, seed=None, extra=()):
    cmd = [VERUS, os.path.basename(path), '--error-format=json', '--multiple-errors', '64', '--output-json', '--time',
           '--rlimit', str(rlimit)]
    if seed is not None:
        cmd += ['--smt-option', f'smt.random_seed={int(seed) % 100000}']
    cmd += list(extra)
    t0 = time.time()
    p = subprocess.run(cmd, cwd=os.path.dirname(path), capture_output=True, text=True, timeout=1800)
    wall = time.time() - t0
    diags = []
    for l in p.stderr.split('\n'):
        l = l.strip()
        if l.startswith('{'):
            try:
                diags.append(json.loads(l))
            except Exception:
                pass
    summary = None
    try:
        summary = json.loads(p.stdout)
    except Exception:
        summary = None
    return cmd, p.returncode, diags, summary, wall, p.stderr


def _classify(diags, asm):
    """Map error diagnostics to (key, obligation id, detail). Returns (failed, undecided_reasons)."""
    failed = []
    undecided = []
    for d in diags:
        if d.get('level') != 'error':
            continue
        msg = d.get('message', '')
        if msg.startswith('aborting due to'):
            continue
        spans = d.get('spans', [])
        if 'rlimit' in msg.lower() or 'resource limit' in msg.lower():
            undecided.append('resource limit: ' + msg)
            continue
        if not any(msg.startswith(p) or p in msg for p in PROOF_FAIL_MESSAGES):
            undecided.append('verus front-end / unsupported construct: ' + d.get('rendered', msg)[:600])
            continue
        # spans in generated file
        infos = []
        for s in spans:
            # only spans inside the generated unit file map to extracted code (a span in vstd has its own line numbers)
            fname = s.get('file_name', '')
            in_unit = (not fname) or fname.endswith('.rs') and ('/' not in fname or os.path.basename(fname) == os.path.basename(getattr(asm, 'file_name', fname))) and not fname.startswith('std_specs') and 'vstd' not in fname
            info = asm.linemap.get(s.get('line_start')) if in_unit else None
            infos.append((s, info))
        key = None
        for s, info in infos:
            if info:
                key = info['key']
                break
        if key is None:
            # failure in template text (lemma / spec): the unit's own proof script is broken -> undecided
            undecided.append('failure outside extracted functions: ' + d.get('rendered', msg)[:600])
            continue
        fnlabel = asm.fns[key]['fn'].label
        oid = None
        scaffold = False
        detail = d.get('rendered', msg)
        if msg.startswith('postcondition not satisfied'):
            for s, info in infos:
                if info and info['kind'] == 'ensures' and (s.get('label') or '').startswith('failed this postcondition'):
                    oid = f'{fnlabel}/post:{info["label"]}'
                    key = info['key']
            if oid is None:
                oid = f'{fnlabel}/post:?'
        elif msg.startswith('precondition not satisfied'):
            site = None
            callee = None
            for s, info in infos:
                if info and info['kind'] == 'body' and site is None:
                    site = info
                    key = info['key']
                if info and info['kind'] == 'requires':
                    callee = (asm.fns[info['key']]['fn'].label, info['label'])
            calltxt = ''
            for s, info in infos:
                if s.get('is_primary') or (info and info['kind'] == 'body'):
                    if s.get('text'):
                        calltxt = s['text'][0]['text'].strip()
                        break
            fnlabel = asm.fns[key]['fn'].label
            if callee:
                oid = f'{fnlabel}/callpre:{callee[0]}.{callee[1]}'
            else:
                # callee is an environment function (shim / assumed callee): name it from the failed requires text
                req = ''
                for s, info in infos:
                    if (s.get('label') or '').startswith('failed precondition') and s.get('text'):
                        req = s['text'][0]['text'].strip().rstrip(',')
                oid = f'{fnlabel}/callpre:{req or "?"}'
            if site:
                oid += f'@{site["repo_file"]}:{site["repo_line"]}'
            # a call of a `proof fn` (a lemma the unit's own proof script invokes) is scaffolding, not the code's own precondition
            if not callee:
                text_lines = asm.text.split('\n')
                for s, info in infos:
                    if (s.get('label') or '').startswith('failed precondition') and s.get('line_start'):
                        for j in range(min(s['line_start'], len(text_lines)) - 1, -1, -1):
                            m = re.search(r'\bfn\s+\w+', text_lines[j])
                            if m:
                                scaffold = 'proof fn' in text_lines[j]
                                break
        elif 'arithmetic underflow/overflow' in msg or 'division by zero' in msg or 'bit shift' in msg:
            site = None
            for s, info in infos:
                if info and info['kind'] == 'body':
                    site = info
                    key = info['key']
                    break
            fnlabel = asm.fns[key]['fn'].label
            oid = f'{fnlabel}/arith' + (f'@{site["repo_file"]}:{site["repo_line"]}' if site else '')
        elif 'invariant' in msg or 'loop ensures' in msg:
            lab = None
            for s, info in infos:
                if info and info['kind'] == 'loopinv':
                    lab = info['label']
                    key = info['key']
            fnlabel = asm.fns[key]['fn'].label
            oid = f'{fnlabel}/loopinv:{lab}' if lab else f'{fnlabel}/loopinv'
        elif 'decreases' in msg or 'termination' in msg:
            oid = f'{fnlabel}/termination'
        elif msg.startswith('assertion failed'):
            oid = f'{fnlabel}/ghost-assert'
            scaffold = True   # (Verus `assert` is ghost: only the unit's own injected proof text has any)
        else:
            oid = f'{fnlabel}/other:{msg[:40]}'
        failed.append(dict(key=key, id=oid, detail=detail, message=msg, scaffold=scaffold))
    return failed, undecided


def enumerate_obligations(asm):
    """The obligations Verus generates for the unit, as this framework names them:
    one per ensures clause, one `safety` per function (overflow, callee preconditions incl. shims' panic
    conditions, unwrap, termination), one per loop invariant clause."""
    obs = []
    for key, rec in asm.fns.items():
        fn = rec['fn']
        for (lab, e) in fn.ensures:
            obs.append(dict(id=f'{fn.label}/post:{lab}', key=key, fn=fn.label, kind='post', label=lab, expr=e))
        obs.append(dict(id=f'{fn.label}/safety', key=key, fn=fn.label, kind='safety', label='safety',
                        expr='no overflow/underflow, every callee precondition (incl. std panic conditions carried by shims), termination'))
        if fn.decreases:
            # a recursive function under contract: its termination measure is an obligation of its own
            obs.append(dict(id=f'{fn.label}/termination', key=key, fn=fn.label, kind='termination', label='termination',
                            expr=f'the recursion terminates: `{fn.decreases}` decreases at every recursive call'))
        for ordn, spec in fn.loops.items():
            for (lab, e) in list(spec.get('invariant', [])) + list(spec.get('ensures', [])):
                obs.append(dict(id=f'{fn.label}/loopinv:{lab}', key=key, fn=fn.label, kind='loopinv', label=lab, expr=e))
    return obs


def verify_unit(unit, scratch, tier='quick', seed=0, repo=None, vacuity=True):
    """unit: dict(name, template, fns). Returns UnitResult."""
    res = UnitResult(unit['name'])
    os.makedirs(scratch, exist_ok=True)
    t0 = time.time()
    try:
        # a unit whose shape depends on the tree it is pointed at (c12_idmap, c03_entity) is built per run; `precheck`
        # compares what the environment mirrors (e.g. the variants of an enum) with the source: a difference is a lost anchor
        if unit.get('build'):
            unit = dict(unit)
            unit['template'], unit['fns'] = unit['build'](repo or unit_mod.REPO)
            res.unit = unit
        if unit.get('precheck'):
            unit['precheck'](repo or unit_mod.REPO)
        asm = unit_mod.assemble(unit['template'], unit['fns'], repo=repo or unit_mod.REPO)
    except rustscan.ScanError as e:
        res.status = 'undecided'
        res.reason = str(e)
        res.wall_s = time.time() - t0
        return res
    # Helper functions the unit does not know about (a refactoring moved code into a new private fn of the same
    # file): extract them too, under the unit's default contract, instead of giving up on the whole unit.
    auto = unit.get('auto_extract')
    if auto:
        unit = dict(unit)
        unit['fns'] = dict(unit['fns'])
        for _round in range(4):
            path0 = os.path.join(scratch, unit['name'] + '__probe.rs')
            with open(path0, 'w') as f:
                f.write(asm.text)
            cmd, rc, diags, summary, wall, stderr = _run_verus(path0, 1, None, extra=['--no-verify'])
            missing = []
            for d in diags:
                m = re.match(r'cannot find function `(\w+)` in this scope', d.get('message', ''))
                if d.get('level') == 'error' and m and m.group(1) not in missing:
                    missing.append(m.group(1))
            if not missing:
                break
            added = False
            for name in missing:
                key = 'auto_' + name
                if key in unit['fns']:
                    continue
                try:
                    src = open(os.path.join(repo or unit_mod.REPO, auto['file'])).read()
                    rustscan.find_fn(src, auto['file'], None, name)
                except Exception:
                    continue
                unit['fns'][key] = auto['make'](name)
                unit['template'] = unit['template'].replace('} // verus!', f'//@@ {key}\n\n}} // verus!', 1)
                res.auto_extracted.append(name)
                added = True
            if not added:
                break
            try:
                asm = unit_mod.assemble(unit['template'], unit['fns'], repo=repo or unit_mod.REPO)
            except rustscan.ScanError as e:
                res.status = 'undecided'
                res.reason = str(e)
                res.wall_s = time.time() - t0
                return res
    res.unit = unit
    res.rule_hits = asm.rule_hits
    path = os.path.join(scratch, unit['name'] + '.rs')
    with open(path, 'w') as f:
        f.write(asm.text)
    res.gen_path = path
    res.assumption_scan = scan_assumptions(asm.text)
    rlimit = 10 if tier == 'quick' else 50
    seeds = [None] if tier == 'quick' else [seed, seed + 1, seed + 2]
    all_failed = None
    per_fn_ms = {}
    for sd in seeds:
        cmd, rc, diags, summary, wall, stderr = _run_verus(path, rlimit, sd)
        res.cmd = ' '.join(cmd)
        failed, undecided = _classify(diags, asm)
        if summary is None and not diags:
            undecided.append('verus produced no parsable output: ' + stderr[:500])
        if summary:
            vr = summary.get('verification-results', {})
            if vr.get('encountered-vir-error'):
                undecided.append('verus VIR error')
            if not vr.get('success') and not failed and not undecided:
                undecided.append('verus reported failure without a classifiable diagnostic: ' + stderr[:800])
            try:
                for mt in summary['times-ms']['smt']['smt-run-module-times']:
                    for fb in mt.get('function-breakdown', []):
                        nm = fb['function'].split('::', 1)[-1]
                        per_fn_ms[nm] = per_fn_ms.get(nm, 0) + fb.get('time-micros', 0) / 1000.0
                res.smt_ms += summary['times-ms']['smt']['total']
            except Exception:
                pass
        if undecided:
            res.status = 'undecided'
            res.reason = '; '.join(undecided)[:3000]
            res.wall_s = time.time() - t0
            return res
        ids = sorted(set(f['id'] for f in failed))
        if all_failed is None:
            all_failed = failed
            first_ids = ids
        elif ids != first_ids:
            res.status = 'undecided'
            res.reason = f'unstable proof: seed {sd} fails {ids}, first run failed {first_ids}'
            res.wall_s = time.time() - t0
            return res
    failed = all_failed or []
    obs = enumerate_obligations(asm)
    failed_by_fn = {}
    for f in failed:
        failed_by_fn.setdefault(f['key'], []).append(f)
    for o in obs:
        o['status'] = 'discharged'
        o['detail'] = ''
        fl = failed_by_fn.get(o['key'], [])
        if o['kind'] == 'post':
            hit = [f for f in fl if f['id'] == o['id'] or f['id'].endswith('/post:?')]
            if hit:
                o['status'] = 'failed'
                o['detail'] = hit[0]['detail']
        elif o['kind'] == 'termination':
            hit = [f for f in fl if f['id'].endswith('/termination')]
            if hit:
                o['status'] = 'failed'
                o['detail'] = hit[0]['detail']
        elif o['kind'] == 'safety':
            own_term = bool(asm.fns[o['key']]['fn'].decreases)
            hit = [f for f in fl if '/post:' not in f['id'] and '/loopinv' not in f['id'] and not (own_term and f['id'].endswith('/termination'))]
            if hit:
                o['status'] = 'failed'
                o['sites'] = sorted(set(f['id'] for f in hit))
                o['scaffold_only'] = all(f.get('scaffold') for f in hit)
                o['detail'] = '\n'.join(f['detail'] for f in hit)
        elif o['kind'] == 'loopinv':
            hit = [f for f in fl if f['id'] == o['id'] or f['id'].endswith('/loopinv')]
            if hit:
                o['status'] = 'failed'
                o['detail'] = hit[0]['detail']
    res.obligations = obs
    res.failed_raw = failed
    for key, rec in asm.fns.items():
        it = rec['item']
        fn = rec['fn']
        ms = None
        for nm, v in per_fn_ms.items():
            if nm.endswith(fn.name) or nm.endswith('::' + fn.name):
                ms = round(v, 2)
        fo = [o for o in obs if o['key'] == key]
        res.functions.append(dict(
            function=fn.label, file=it.file, lines=[it.start_line, it.end_line], sha256=it.sha256[:16],
            rewrite_hits=rec['hits'], verbatim_ratio=rec['verbatim_ratio'], backend='verus+z3',
            smt_ms=ms, obligations=len(fo), discharged=sum(1 for o in fo if o['status'] == 'discharged'),
            status='verified' if all(o['status'] == 'discharged' for o in fo) else 'failed'))
    if any(o['status'] == 'failed' for o in obs):
        res.status = 'failed'
    # vacuity twins: every function must FAIL an added `ensures false`
    if vacuity:
        asm2 = unit_mod.assemble(unit['template'], unit['fns'], twins=True, repo=repo or unit_mod.REPO)
        p2 = os.path.join(scratch, unit['name'] + '__vacuity.rs')
        with open(p2, 'w') as f:
            f.write(asm2.text)
        cmd, rc, diags, summary, wall, stderr = _run_verus(p2, rlimit)
        refuted = set()
        for d in diags:
            if d.get('level') == 'error' and d.get('message', '').startswith('postcondition not satisfied'):
                for sp in d.get('spans', []):
                    info = asm2.linemap.get(sp.get('line_start'))
                    if info and info.get('label') == 'vacuity':
                        refuted.add(info['key'])
        missing = [k for k in asm2.fns if k not in refuted and not asm2.fns[k]['fn'].no_twin]
        res.vacuity = dict(functions=len(asm2.fns), refuted=len(refuted), not_refuted=missing)
        if missing and res.status != 'undecided':
            res.status = 'undecided'
            res.reason = f'vacuity guard: `ensures false` was NOT refuted for {missing} (contradictory preconditions or diverging body)'
    res.wall_s = time.time() - t0
    return res
