"""Property-level driver: run the units/harnesses of one property, decide, write evidence and replay files."""
import importlib
import json
import os
import re
import shutil
import sys
import time

from . import verus as verus_mod

ROOT = os.path.dirname(os.path.dirname(os.path.abspath(__file__)))
REPO = os.environ.get('VERIF_REPO', '/repo')
OUT = os.path.join(ROOT, 'out')
# evidence of runs against a scratch copy (VERIF_REPO != /repo: self-tests with deliberately broken code) must never
# overwrite the record of the real tree
EVIDENCE_DIR = os.environ.get('VERIF_EVIDENCE_DIR') or (
    os.path.join(ROOT, 'evidence') if os.path.realpath(REPO) == '/repo' else os.path.join(OUT, 'evidence-scratch'))


def load_known():
    p = os.path.join(ROOT, 'known_findings.jsonl')
    ks = []
    if os.path.exists(p):
        for l in open(p):
            l = l.strip()
            if l and not l.startswith('#'):
                ks.append(json.loads(l))
    return ks


def prop_of_label(label, default):
    m = re.match(r'^(C\d+(?:\+C\d+)*):', label)
    if m:
        return m.group(1).split('+')
    return list(default)


def owning_props(ob, unit):
    """Which properties an obligation belongs to: the label prefix `Cxx:`/`Cxx+Cyy:`; safety obligations and
    untagged clauses belong to the function's (or the unit's) default properties."""
    fn = unit['fns'][ob['key']]
    default = getattr(fn, 'props', None) or unit.get('props', [])
    if ob['kind'] == 'safety':
        ps = list(getattr(fn, 'safety_props', None) or default)
        # a failed call-site precondition belongs (also) to the property its label names: callpre:<fn>.<Cxx:label>@site
        for site in ob.get('sites') or []:
            m = re.search(r'/callpre:[^@]*?\.(C\d+(?:\+C\d+)*):', site)
            if m:
                for p_ in m.group(1).split('+'):
                    if p_ not in ps:
                        ps.append(p_)
        return ps
    return prop_of_label(ob['label'], default)


def run_property(pid, tier, seed, cfg):
    t0 = time.time()
    scratch = os.path.join(ROOT, '.scratch', f'{pid}-{os.getpid()}')
    if os.path.exists(scratch):
        shutil.rmtree(scratch)
    os.makedirs(scratch)
    os.makedirs(os.path.join(OUT, 'replays'), exist_ok=True)
    report = dict(pid=pid, tier=tier, seed=seed, units=[], kani=[], obligations=[], undecided=[], bounded=[],
                  functions=[], assumptions=[], cmds=[], smt_ms=0, rule_hits={}, witness=[], vacuity=[])
    all_obl, links = {}, {}
    try:
        # ---- Verus units
        for uname in cfg.get('verus_units', []):
            mod = importlib.import_module('units.' + uname)
            unit = mod.UNIT
            r = verus_mod.verify_unit(unit, scratch, tier=tier, seed=seed, repo=REPO)
            report['units'].append(r)
            report['cmds'].append(r.cmd)
            report['smt_ms'] += r.smt_ms
            for k, v in r.rule_hits.items():
                report['rule_hits'][k] = report['rule_hits'].get(k, 0) + v
            if r.status == 'undecided':
                report['undecided'].append(f'unit {uname}: {r.reason}')
                continue
            unit = getattr(r, 'unit', unit)
            if getattr(r, 'auto_extracted', None):
                report.setdefault('auto_extracted', []).extend(r.auto_extracted)
            helpers = set(n + ' (auto-extracted helper)' for n in getattr(r, 'auto_extracted', []) or [])
            for o in r.obligations:
                # a helper pulled in without a hand-written contract tells its callers nothing about its result: a caller's
                # obligation that fails in such a run may fail for that reason alone, so it is UNDECIDED, never an alarm
                # (the helper's own obligations -- no panic, context restored -- still count)
                if helpers and o['status'] == 'failed' and o['fn'] not in helpers and pid in owning_props(o, unit):
                    report['undecided'].append(f'unit {uname}: {o["id"]} failed in a run with auto-extracted helper(s) {sorted(helpers)}; the helper has no functional contract, so this is undecided')
                    continue
                if pid in owning_props(o, unit):
                    o2 = dict(o)
                    o2['unit'] = uname
                    o2['backend'] = 'verus 0.2026.09.13 + z3'
                    report['obligations'].append(o2)
            mine = set(o['fn'] for o in report['obligations'] if o.get('unit') == uname)
            for f in r.functions:
                if f['function'] in mine:
                    # per-function counts restricted to this property
                    fo = [o for o in report['obligations'] if o.get('unit') == uname and o['fn'] == f['function']]
                    f2 = dict(f)
                    f2['obligations'] = len(fo)
                    f2['discharged'] = sum(1 for o in fo if o['status'] == 'discharged')
                    f2['status'] = 'verified' if f2['obligations'] == f2['discharged'] else 'failed'
                    report['functions'].append(f2)
            all_obl[uname] = {o['id']: o['status'] for o in r.obligations}
            links.update({(uname, k): v for k, v in (unit.get('callee_links') or {}).items()})
            for a in r.assumption_scan:
                s = f'[{uname}] {a}'
                if s not in report['assumptions']:
                    report['assumptions'].append(s)
            if r.vacuity:
                report['vacuity'].append(dict(unit=uname, **r.vacuity))
        # ---- assumed callee contracts whose clauses are obligations of another unit: say so, and say whether those were
        # discharged in THIS run (an annotation of the assumption list; it decides nothing)
        for (uname, callee), targets in links.items():
            line = f'[{uname}] external_body: {callee}'
            if line in report['assumptions']:
                miss = [f'[{tu}] {oid}' for (tu, oid) in targets if all_obl.get(tu, {}).get(oid) != 'discharged']
                note = (f' -- clause for clause the contract proved elsewhere: {len(targets)} obligations of ' + ', '.join(sorted(set(tu for tu, _ in targets)))
                        + (' discharged in this run' if not miss else f'; NOT confirmed in this run: {miss}'))
                report['assumptions'][report['assumptions'].index(line)] = line + note
        # ---- Kani harness groups
        if cfg.get('kani'):
            from . import kani as kani_mod
            kr = kani_mod.run_group(pid, cfg['kani'], scratch, tier, seed, REPO)
            report['kani'] = kr
            report['cmds'] += kr.get('cmds', [])
            for u in kr.get('undecided', []):
                report['undecided'].append(u)
            for o in kr.get('obligations', []):
                report['obligations'].append(o)
            for b in kr.get('bounded', []):
                report['bounded'].append(b)
            for f in kr.get('functions', []):
                report['functions'].append(f)
            for a in kr.get('assumptions', []):
                if a not in report['assumptions']:
                    report['assumptions'].append(a)
        report['wall_s'] = time.time() - t0
        return report, scratch
    except Exception:
        shutil.rmtree(scratch, ignore_errors=True)
        raise


def _short(t, n=400):
    return t if len(t) <= n else t[:n] + f'... ({len(t)} chars, complete in the replay file)'


def decide_and_report(pid, tier, seed, cfg, report, scratch):
    from . import witness as witness_mod
    known = [k for k in load_known() if k.get('property') == pid and k.get('status', 'open') == 'open']
    failed = [o for o in report['obligations'] if o['status'] == 'failed']
    bfailed = [b for b in report['bounded'] if b['status'] == 'failed']
    lines = []
    violations = []
    known_hit = []
    for o in failed + bfailed:
        k = next((k for k in known if k.get('obligation') == o['id']), None)
        if k is not None:
            known_hit.append((o, k))
        else:
            violations.append(o)
    # known findings that are listed but no longer fail are simply not echoed
    for (o, k) in known_hit:
        lines.append(f'KNOWN-FINDING: property={pid} {o["id"]} {k.get("witness", "")} -- {k.get("what", "")}')
    # carve-outs: a known finding may name a companion obligation that must stay green (checked like any other)
    exit_code = 0
    replays = []
    standin_v = []
    if report['undecided'] and not violations:
        for u in report['undecided']:
            lines.append(f'UNDECIDED property={pid} {u[:1500]}')
        exit_code = 2
        # a unit that cannot be decided (construct outside the verifier's dialect, lost anchor): a BOUNDED stand-in -- the
        # replay grid of the property's operations on the real code -- may still refute the property; it never proves it
        ops = cfg.get('standin_ops', [])
        if ops:
            grid_known = []
            try:
                w, cases = witness_mod.standin(pid, ops, REPO, scratch, known=known, known_hits=grid_known)
            except Exception as e:
                w, cases = None, 0
                lines.append(f'  (bounded stand-in could not run: {e!r})')
            for kw in grid_known:
                lines.append(f'KNOWN-FINDING: property={pid} grid {kw["op"]} {kw["known"].get("witness", "")} observed={kw.get("observed")} -- {kw["known"].get("what", "")}')
            report['bounded'].append(dict(id=f'standin[{pid}]', bound=f'replay grid of {len(ops)} operations, {cases} cases', status='failed' if w else 'no disagreement',
                                          kind='bounded', fn='bounded stand-in'))
            if w:
                rp = os.path.join(OUT, 'replays', f'{pid}-standin.json')
                with open(rp, 'w') as f:
                    json.dump(dict(property=pid, obligation=f'bounded stand-in (unit undecided): {w["op"]}', counterexample=w, replayed=w.get('replayed'),
                                   verifier_output='; '.join(report['undecided'])[:3000], repo=REPO, bounded=True), f, indent=1)
                lines.append(f'VIOLATION property={pid} replay={rp}')
                lines.append(f'  bounded stand-in (the deductive unit is undecided): op {w["op"]} witness={_short(json.dumps(w.get("input")))} observed={w.get("observed")} expected={w.get("expected")}')
                standin_v.append(dict(id=f'standin[{pid}]:{w["op"]}', status='failed'))
                exit_code = 1
            else:
                lines.append(f'  bounded stand-in: {cases} grid cases of {len(ops)} operations agree with the specification (proves nothing; still undecided)')
    deferred = []
    for idx, o in enumerate(violations):
        rp = os.path.join(OUT, 'replays', f'{pid}-{idx}.json')
        rec = dict(property=pid, obligation=o['id'], function=o.get('fn'), clause=o.get('expr'), backend=o.get('backend'),
                   verifier_output=o.get('detail', ''), sites=o.get('sites'), repo=REPO)
        cex = o.get('counterexample')
        if cex is None:
            try:
                cex = witness_mod.search(pid, o, REPO, scratch)
            except Exception as e:  # witness search decides nothing; its failure must not hide the verdict
                cex = None
                rec['witness_search_error'] = repr(e)
        suffix = ''
        if cex:
            rec['counterexample'] = cex
            rec['replayed'] = cex.get('replayed')
        elif o.get('kind') == 'loopinv' or (o.get('kind') == 'safety' and o.get('scaffold_only')):
            # a loop invariant is proof scaffolding spliced onto a loop by its position; when it stops holding and no input makes the
            # real code fail, nothing says the PROPERTY is violated (the loop may have been restructured): like a lost anchor this is
            # undecided, never an alarm.  The property's grids still run below and alarm with a failing input if there is one; a
            # failed POSTCONDITION (the property clause itself) is reported as a violation with or without an input.
            deferred.append(o)
            continue
        else:
            rec['counterexample'] = None
            suffix = ' no-failing-input-found'
        with open(rp, 'w') as f:
            json.dump(rec, f, indent=1)
        replays.append(rp)
        lines.append(f'VIOLATION property={pid} replay={rp}{suffix}')
        lines.append(f'  obligation {o["id"]} failed ({o.get("backend")})' + (f' witness={_short(json.dumps(cex.get("input")))} observed={cex.get("observed")} expected={cex.get("expected")}' if cex else ''))
        exit_code = 1
    # thorough tier: the replay grids of the property's operations are ALSO run on the real code (bounded exploration next
    # to the proofs: it cross-checks the executable mirror of the specification against the code the proofs are about)
    # quick tier: only the grids a property names as cheap enough for every change (`quick_grids`)
    grid_ops = cfg.get('standin_ops') if tier == 'thorough' else cfg.get('quick_grids')
    if exit_code == 0 and grid_ops:
        grid_known = []
        grids_ran = True
        try:
            w, cases = witness_mod.standin(pid, grid_ops, REPO, scratch, known=known, known_hits=grid_known)
            if cases == 0:
                raise RuntimeError('the replay grids reported no cases at all')
        except Exception as e:
            w, cases = None, 0
            grids_ran = False
            lines.append(f'UNDECIDED property={pid} the replay grids of the {tier} tier could not run: {str(e)[:1500]}')
            exit_code = 2
        for kw in grid_known:
            lines.append(f'KNOWN-FINDING: property={pid} grid {kw["op"]} {kw["known"].get("witness", "")} observed={kw.get("observed")} -- {kw["known"].get("what", "")}')
        report['grid_known'] = [dict(op=kw['op'], input_digest=witness_mod.input_digest(kw['op'], kw['input']), observed=kw.get('observed'), witness=kw['known'].get('witness', '')) for kw in grid_known]
        report['bounded'].append(dict(id=f'grids[{pid}]', bound=f'replay grids of {len(grid_ops)} operations, {cases} cases', status='failed' if w else ('could not run' if not grids_ran else ('agree apart from recorded open findings' if grid_known else 'agree')),
                                      kind='bounded', fn=f'replay grids ({tier} tier)'))
        if w:
            rp = os.path.join(OUT, 'replays', f'{pid}-grid.json')
            with open(rp, 'w') as f:
                json.dump(dict(property=pid, obligation=f'replay grid ({tier} tier, bounded): {w["op"]}', counterexample=w, replayed=w.get('replayed'), repo=REPO, bounded=True), f, indent=1)
            lines.append(f'VIOLATION property={pid} replay={rp}')
            lines.append(f'  replay grid (bounded): op {w["op"]} witness={_short(json.dumps(w.get("input")))} observed={w.get("observed")} expected={w.get("expected")}')
            standin_v.append(dict(id=f'grid[{pid}]:{w["op"]}', status='failed'))
            exit_code = 1
        elif grids_ran:
            lines.append(f'  replay grids (bounded, {tier} tier): {cases} cases of {len(grid_ops)} operations agree with the specification' + (f' apart from {len(grid_known)} recorded open finding(s)' if grid_known else ''))
    if deferred:
        violations = [v for v in violations if v not in deferred]
        for o in deferred:
            what = f'loop invariant {o["id"]} no longer holds' if o.get('kind') == 'loopinv' else f'the proof script of {o.get("fn")} no longer goes through ({", ".join(o.get("sites") or [])}: a lemma precondition / ghost assertion of the unit, not of the code)'
            u = f'unit {o.get("unit")}: {what} ({o.get("backend")}) and no input of the bounded grids makes the real code fail: proof scaffolding, undecided'
            report['undecided'].append(u)
            if exit_code != 1:
                lines.append(f'UNDECIDED property={pid} {u}')
            else:
                lines.append(f'  (also: {what})')
        if exit_code == 0:
            exit_code = 2
    if tier != 'thorough':
        # open findings of the bounded grids are only re-run by the thorough tier; the quick tier still lists them
        for k in known:
            if k.get('grid_op') and not any(k.get('witness', '') in l for l in lines):
                lines.append(f'KNOWN-FINDING: property={pid} grid {k["grid_op"]} {k.get("witness", "")} (bounded grid input, re-run by the thorough tier only) -- {k.get("what", "")}')
    write_evidence(pid, tier, seed, cfg, report, violations + standin_v, known_hit)
    return exit_code, lines


def write_evidence(pid, tier, seed, cfg, report, violations, known_hit):
    # obligations that are recorded OPEN findings are reported on their own (known_open_findings) and are not part of
    # what this run claims as proved: `obligations` counts the rest, `discharged` how many of those the verifier accepted
    known_ids = set(o['id'] for (o, k) in known_hit)
    obs_all = report['obligations']
    obs = [o for o in obs_all if o['id'] not in known_ids]
    n = len(obs)
    d = sum(1 for o in obs if o['status'] == 'discharged')
    level = cfg.get('level', 'proof')
    samples = []
    for o in obs[:6]:
        samples.append(dict(obligation=o['id'], clause=o.get('expr'), status=o['status'], backend=o.get('backend')))
    for b in report['bounded'][:3]:
        samples.append(dict(bounded_harness=b['id'], bound=b.get('bound'), status=b['status']))
    cov = dict(
        obligations=n, discharged=d,
        checker_cmd=' ; '.join(c for c in report['cmds'] if c)[:4000] or 'none',
        trusted_base=cfg.get('trusted_base', []),
        samples=samples,
        obligation_list=[dict(id=o['id'], status=o['status'], backend=o.get('backend'), kind=o['kind']) for o in obs],
        functions_under_contract=report['functions'],
        bounded_standins=[dict(id=b['id'], bound=b.get('bound'), status=b['status'], note='bounded; NOT counted in obligations/discharged') for b in report['bounded']],
        rewrite_rule_hits=report['rule_hits'],
        solver_ms=dict(z3_via_verus=report['smt_ms'], kani=(report['kani'] or {}).get('solver_s') if isinstance(report['kani'], dict) else None),
        vacuity_guard=report['vacuity'],
        undecided=report['undecided'],
        known_findings_echoed=[o['id'] for (o, k) in known_hit],
        known_open_findings=[dict(id=o['id'], status=o['status'], witness=k.get('witness', ''), note='recorded open finding: fails on the unchanged tree, echoed as KNOWN-FINDING, NOT counted in obligations/discharged') for (o, k) in known_hit],
        known_open_grid_findings=[dict(g, note='recorded open finding of the bounded replay grid: this one input still fails on the real code, echoed as KNOWN-FINDING; bounded, no obligation stands for it') for g in report.get('grid_known', [])],
        not_decided=cfg.get('not_decided', ''),
        exhaustive=False,
        explanation=cfg.get('explanation', ''),
    )
    if level == 'model_checking':
        kr = report['kani'] if isinstance(report['kani'], dict) else {}
        cov['evaluations'] = max(1, len(report['bounded']))
        cov['distinct_nontrivial'] = max(2, kr.get('distinct_cases', 2))
        cov['rule'] = kr.get('rule', '')
    ev = dict(property_id=pid, tier=tier, seed=int(seed), level=level, coverage=cov,
              assumptions=cfg.get('assumptions', []) + ['mechanical scan of generated Verus text: ' + a for a in report['assumptions']],
              wall_s=round(report.get('wall_s', 0.0), 2), violations=len(violations))
    os.makedirs(EVIDENCE_DIR, exist_ok=True)
    with open(os.path.join(EVIDENCE_DIR, f'{pid}.json'), 'w') as f:
        json.dump(ev, f, indent=1)


def main(argv):
    import argparse
    ap = argparse.ArgumentParser()
    ap.add_argument('pid')
    ap.add_argument('--tier', default=os.environ.get('VERIF_TIER', 'quick'))
    ap.add_argument('--replay')
    ap.add_argument('--keep', action='store_true')
    a = ap.parse_args(argv)
    seed = int(os.environ.get('VERIF_SEED', '0') or 0)
    sys.path.insert(0, ROOT)
    from props import PROPS
    if a.pid not in PROPS:
        print(f'unknown or not-applicable property {a.pid}')
        return 2
    cfg = PROPS[a.pid]
    if a.replay:
        from . import witness as witness_mod
        return witness_mod.replay_file(a.replay, REPO)
    tier = a.tier if a.tier in ('quick', 'thorough') else 'quick'
    report, scratch = run_property(a.pid, tier, seed, cfg)
    try:
        code, lines = decide_and_report(a.pid, tier, seed, cfg, report, scratch)
    finally:
        if not a.keep:
            shutil.rmtree(scratch, ignore_errors=True)
    obs = report['obligations']
    print(f'property={a.pid} tier={tier} obligations={len(obs)} discharged={sum(1 for o in obs if o["status"] == "discharged")} '
          f'bounded={len(report["bounded"])} functions={len(report["functions"])} wall_s={report.get("wall_s", 0):.1f}')
    for l in lines:
        print(l)
    if code == 0:
        print(f'OK property={a.pid}')
    return code
