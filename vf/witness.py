"""Witness search and replay against the REAL code (decides nothing; the verdict is the verifier's).

Builds /verif/replay (plain cargo, path deps on /repo with feature `verif`) in a scratch directory and
runs its deterministic boundary grid for the function whose obligation failed, or replays one input.
"""
import json
import os
import re
import shutil
import subprocess

ROOT = os.path.dirname(os.path.dirname(os.path.abspath(__file__)))

_built = {}


def gen_chars_rs():
    spec = json.load(open(os.path.join(ROOT, 'spec', 'xml_chars.json')))

    def fn(name, ranges):
        terms = []
        for a, b in ranges:
            terms.append(f'c == {a:#x}' if a == b else f'({a:#x}..={b:#x}).contains(&c)')
        return f'pub fn {name}(c: u32) -> bool {{\n    ' + '\n        || '.join(terms) + '\n}\n\n'
    s = '// generated from /verif/spec/xml_chars.json on every build; do not edit\n#![allow(dead_code)]\n\n'
    s += fn('p2_char', spec['p2_char'])
    s += fn('p4_name_start_char', spec['p4_name_start_char'])
    s += fn('p4a_extra', spec['p4a_name_char_extra'])
    s += 'pub fn p4a_name_char(c: u32) -> bool {\n    p4_name_start_char(c) || p4a_extra(c)\n}\n\n'
    s += fn('p13_pubid_char', spec['p13_pubid_char'])
    s += fn('p81_enc_name_tail', spec['p81_enc_name_tail'])
    return s


def build(repo, scratch):
    key = (repo, scratch)
    if key in _built:
        return _built[key]
    d = os.path.join(scratch, 'replay')
    if os.path.exists(d):
        shutil.rmtree(d)
    shutil.copytree(os.path.join(ROOT, 'replay'), d, ignore=shutil.ignore_patterns('target', 'Cargo.lock'))
    with open(os.path.join(d, 'Cargo.toml.in')) as f:
        t = f.read().replace('@REPO@', repo)
    with open(os.path.join(d, 'Cargo.toml'), 'w') as f:
        f.write(t)
    os.remove(os.path.join(d, 'Cargo.toml.in'))
    lock = os.path.join(repo, 'Cargo.lock')
    if os.path.exists(lock):
        shutil.copy(lock, os.path.join(d, 'Cargo.lock'))
    with open(os.path.join(d, 'src', 'gen_chars.rs'), 'w') as f:
        f.write(gen_chars_rs())
    env = dict(os.environ)
    env['CARGO_TARGET_DIR'] = os.path.join(scratch, 'replay-target')
    env['CARGO_NET_OFFLINE'] = 'true'
    env.pop('RUSTUP_TOOLCHAIN', None)
    p = subprocess.run(['cargo', 'build', '--offline', '-q'], cwd=d, env=env, capture_output=True, text=True, timeout=1200)
    if p.returncode != 0:
        raise RuntimeError('replay crate failed to build against ' + repo + ':\n' + p.stderr[-3000:])
    exe = os.path.join(scratch, 'replay-target', 'debug', 'xmlrs-replay')
    _built[key] = exe
    return exe


# function label (as used in obligation ids) -> replay ops whose grid exercises it
def ops_for(fnlabel):
    m = {
        'is_char': ['xmlchar.is_char'], 'is_name_start_char': ['xmlchar.is_name_start_char'],
        'is_name_char': ['xmlchar.is_name_char'], 'is_pubid_char': ['xmlchar.is_pubid_char'],
        'is_enc_name': ['xmlchar.is_enc_name'], 'is_char_except': ['xmlchar.is_char_except'],
        'is_name_char_except': ['xmlchar.is_name_char_except'], 'is_pubid_char_except': ['xmlchar.is_pubid_char_except'],
        'delete_char_range': ['info.delete_char_range'], 'insert_char_at': ['info.insert_char_at'],
        'char_from_char10': ['info.char_from_char10'], 'char_from_char16': ['info.char_from_char16'],
        'normalize_ws': ['info.normalize_ws'], 'escape': ['info.escape'], 'equal_qname': ['info.equal_qname'],
    }
    if fnlabel in m:
        return m[fnlabel]
    if fnlabel.startswith('xpath::model::'):
        return ['xpath.query.numbers']
    if fnlabel == 'xpath::axis::namespace':
        return ['xpath.query.no_panic']
    if fnlabel.startswith('xpath::axis::'):
        return ['xpath.query.axes', 'xpath.corpus_paths']
    if fnlabel in ('xpath::func::lang', 'xpath::func::name', 'xpath::func::local_name', 'xpath::func::namespace_uri', 'xpath::func::count', 'xpath::func::sum'):
        return ['xpath.corpus_paths', 'xpath.corpus_scalars', 'xpath.corpus_names']
    if fnlabel in ('eval_node_test', 'eval_axis_node_test', 'eval_step_expr', 'eval_predicate', 'eval_filter_expr', 'eval_union_expr', 'eval_path_expr'):
        return ['xpath.corpus_paths', 'xpath.corpus_names']
    if fnlabel in ('dom::XmlElement::insert_before', 'dom::XmlElement::remove_child'):
        return ['dom.seq1_atomic']
    if fnlabel in ('dom::XmlElement::set_attribute_node', 'dom::XmlElement::remove_attribute_node', 'dom::XmlElement::set_attribute', 'dom::XmlElement::remove_attribute'):
        return ['dom.attr_seq1', 'dom.attr_seq']
    if fnlabel.startswith('dom::XmlAttr::as_expanded_name') or fnlabel.startswith('dom::XmlElement::'):
        return ['xpath.query.names']
    if fnlabel in ('XmlElement::namespaces', 'XmlElement::in_scope_namespace', 'XmlElement::find_nameapce_uri', 'XmlElement::namespace_name', 'XmlAttribute::namespace_name'):
        return ['info.namespace_names']
    if fnlabel == 'XmlElement::attributes':
        return ['info.attr_defaults']
    if fnlabel == 'XmlAttribute::normalized_value':
        return ['info.attr_norm']
    if fnlabel.startswith('info::attr_value_from_name'):
        return ['info.attr_value']
    if fnlabel == 'XmlDocumentTypeDeclaration::node':
        return ['info.build_print']
    if fnlabel.startswith('HasChildren::') or fnlabel.endswith('::insert_by_id'):
        return ['dom.tree_atomic']
    if fnlabel == 'dom::XmlNode::order':
        return ['dom.order_keys']
    if fnlabel.startswith('DocumentOrder::') or fnlabel.startswith('HasContext::'):
        return ['order.script']
    mm = re.match(r'^(info|dom)::(\w+)::(\w+)', fnlabel)
    if mm:
        layer, ty, fn = mm.groups()
        k = {'XmlText': 'text', 'XmlComment': 'comment', 'XmlCData': 'cdata', 'XmlCDataSection': 'cdata'}.get(ty)
        if k and layer == 'info' and fn in ('len', 'substring', 'delete', 'insert'):
            return [f'info.{k}.{fn}']
        if k and layer == 'dom':
            return [f'dom.{k}.{fn}']
    kinds = {'XmlText': 'text', 'XmlComment': 'comment', 'XmlCData': 'cdata', 'XmlCDataSection': 'cdata'}
    mm = re.match(r'^impl (?:(\w+) for )?(\w+)::(\w+)$', fnlabel)
    if mm:
        tr, ty, fn = mm.groups()
        if ty in kinds:
            k = kinds[ty]
            if tr is None:   # info layer inherent impl
                if fn in ('len', 'substring', 'delete', 'insert'):
                    return [f'info.{k}.{fn}']
                if fn == 'split_at':
                    return [f'dom.{k}.split_text']
            else:
                if fn in ('length', 'substring_data', 'insert_data', 'delete_data', 'split_text'):
                    return [f'dom.{k}.{fn}']
        if ty == 'DocumentOrder':
            return ['order.script']
        if ty == 'Context':
            return ['ctx.script']
    mm = re.match(r'^pub trait CharacterDataMut.*::(\w+)$', fnlabel)
    if mm:
        return [f'dom.{k}.{mm.group(1)}' for k in ('text', 'comment', 'cdata')]
    mm = re.match(r'^xpath::(func|cmp|op|conv)::(\w+)$', fnlabel)
    if mm:
        return [f'xpath.{mm.group(1)}.{mm.group(2)}']
    return []


def input_digest(op, args):
    """How a recorded finding names one grid input: sha256 over the op and its arguments (documents can be tens of kB)."""
    import hashlib
    return hashlib.sha256(json.dumps([op, sorted(args.items())]).encode()).hexdigest()[:16]


def _parse_witness(out, want_note=None, skip=None, skipped=None):
    """Parse the first WITNESS block of `replay grid` output (the first whose note mentions one of `want_note`, if given)."""
    lines = out.split('\n')
    for i, l in enumerate(lines):
        if l.startswith('WITNESS '):
            if want_note:
                blk = []
                j = i + 1
                while j < len(lines) and lines[j].startswith('  '):
                    blk.append(lines[j])
                    j += 1
                if not any(w in b for b in blk if b.strip().startswith(('note=', 'arg query=', 'arg scenario=')) for w in want_note):
                    continue
            op = re.search(r'op=(\S+)', l).group(1)
            args = {}
            obs = exp = None
            j = i + 1
            while j < len(lines) and lines[j].startswith('  '):
                s = lines[j][2:] if lines[j].startswith('  arg ') else lines[j].strip()
                if s.startswith('arg '):
                    k, _, v = s[4:].partition('=')
                    args[k] = v
                elif s.startswith('observed='):
                    obs = s[len('observed='):]
                elif s.startswith('expected='):
                    exp = s[len('expected='):]
                elif s.startswith('note=') and 'panicked at' in s:
                    obs = (obs or '') + ' [' + s[len('note='):] + ']'
                j += 1
            w = dict(op=op, input=args, observed=obs, expected=exp)
            if skip is not None and skip(w):
                if skipped is not None:
                    skipped.append(w)
                continue
            return w
    return None


def search(pid, ob, repo, scratch):
    ops = ops_for(ob.get('fn', ''))
    fn = ob.get('fn', '')
    if pid == 'C14' and ob.get('unit') == 'c13_tree':
        ops = ['dom.preorder_after_edits']
    if pid == 'C11' and fn.startswith('info::attr_value_from_name'):
        ops = ['info.attr_norm']
    if fn.startswith('dom::XmlDocument::create_'):
        ops = ['dom.factory']
    if fn.startswith('dom::TryFrom<XmlNode>') or fn.startswith('dom::From<Rc<XmlItem>>'):
        ops = ['dom.attr_owner']
    if pid in ('C12', 'C13') and fn.startswith('XmlElement::append_attribute'):
        ops = ['dom.attr_owner']
    if pid == 'C12' and fn.startswith('dom::XmlNode::'):
        ops = ['dom.views_after_edits']
    if pid == 'C12' and fn.startswith('XmlItem::remove_from_parent'):
        ops = ['dom.views_after_edits', 'dom.tree_atomic']
    if fn.startswith('XmlItem::') and pid == 'C14':
        ops = ['dom.keys_after_edits', 'dom.preorder_after_edits']
    if pid == 'C12' and fn.startswith('Context::'):
        ops = ['dom.views_after_edits']
    if pid == 'C12' and (fn.startswith('HasChildren::') or fn.endswith('::insert_by_id') or fn.endswith('::delete_by_id')):
        ops = ['dom.views_after_edits', 'dom.tree_atomic']
    if ob.get('unit') == 'eval_ctx' or fn.startswith('eval_') or fn.startswith('model::Context::') or (pid == 'C06' and fn.startswith('xpath::func::')):
        # evaluator skeleton: the witness is a whole query through xml_xpath::query on a real parsed document
        ops = {'C19': ['xpath.query.ctx_reuse'], 'C07': ['xpath.query.order'], 'C06': ['xpath.query.no_panic'], 'C05': ['xpath.query.node_test']}.get(pid, [])
        if pid == 'C05' and (fn.startswith('eval_predicate') or fn.startswith('eval_axis_node_test') or fn.startswith('eval_filter_expr')):
            ops = ['xpath.query.predicates', 'xpath.query.axes', 'xpath.query.node_test']
    if not ops:
        return None
    exe = build(repo, scratch)
    for op in ops:
        env = dict(os.environ)
        env['REPLAY_POLICY'] = 'whole' if pid == 'C15' else 'fragment'
        # a safety obligation names its failing sites (file:line): prefer a witness that panics exactly there
        sites = [m.group(1) for s in (ob.get('sites') or []) for m in [re.search(r'@([\w/\.]+:\d+)$', s)] if m]
        if ob.get('kind') == 'termination':
            sites = ['recursion exhausted the stack', 'HANG']
        # edit-history grids: prefer the scenario that exercises the function whose obligation failed
        prefer = {'HasChildren::append': 'append_new_after_child_with_descendants', 'HasChildren::insert_before': 'move_within_parent_before',
                  'XmlElement::last_child_or_self_id': 'append_new_after_child_with_descendants', 'XmlDocument::last_child_or_self_id': 'append_new_after_child_with_descendants',
                  'XmlElement::append_attribute': 'set_attribute_on_element_with_children', 'Context::node': 'move_out_of_detached_parent', 'XmlItem::remove_from_parent': 'move_out_of_detached_parent', 'dom::XmlNode::': 'views_inside_detached_fragment',
                  'XmlItem::last_descendant_or_self_id': 'append_after_last_descendant_with_late_namespace_declaration', 'XmlItem::sub_items': 'append_after_last_descendant_with_late_namespace_declaration'}
        for k, v in prefer.items():
            if fn.startswith(k) and op.endswith('_after_edits'):
                sites = [v]
        if op == 'xpath.query.axes' and fn.startswith('xpath::axis::'):
            sites = ['/' + fn.split('::')[-1].replace('_and_self', '-or-self').replace('_', '-') + '::']
        p = subprocess.run([exe, 'grid', op, '40' if sites else '3'], capture_output=True, text=True, timeout=900, env=env)
        w = _parse_witness(p.stdout, sites) if sites else None
        if w is None:
            w = _parse_witness(p.stdout)
        if w:
            w['replayed'] = f'real code of {repo} called through xmlrs-replay grid; first disagreement with the executable mirror of the specification'
            w['grid_summary'] = p.stdout.split('\n')[0]
            return w
    return None


def standin(pid, ops, repo, scratch, known=(), known_hits=None):
    """Bounded stand-in used ONLY when a unit is undecided (a construct outside the verifier's dialect): run the replay
    grid of each op against the real code. Returns the first disagreement (a witness dict) or None. Decides nothing when
    it finds nothing: the check then stays undecided (exit 2).
    `known`: recorded OPEN findings that name one grid input (grid_op + input_digest); such a disagreement is collected
    in `known_hits` and is not returned -- any other disagreement of the same grid still is."""
    exe = build(repo, scratch)
    cases = 0
    digests = {(k.get('grid_op'), k.get('input_digest')): k for k in known if k.get('grid_op')}

    def skip(w):
        k = digests.get((w['op'], input_digest(w['op'], w['input'])))
        if k is not None:
            w['known'] = k
        return k is not None
    for op in ops:
        env = dict(os.environ)
        env['REPLAY_POLICY'] = 'whole' if pid == 'C15' else 'fragment'
        p = subprocess.run([exe, 'grid', op, '3' if not digests else '40'], capture_output=True, text=True, timeout=1800, env=env)
        if p.returncode < 0 or (p.returncode not in (0, 1) and 'cases=' not in p.stdout):
            # the grid process itself died (stack overflow, abort): run every case in a process of its own to learn which input does it
            env['REPLAY_ISOLATE'] = '1'
            p = subprocess.run([exe, 'grid', op, '3' if not digests else '40'], capture_output=True, text=True, timeout=3600, env=env)
        m = re.search(r'cases=(\d+)', p.stdout)
        cases += int(m.group(1)) if m else 0
        w = _parse_witness(p.stdout, skip=skip, skipped=known_hits)
        if w:
            w['replayed'] = f'bounded stand-in: real code of {repo} on the replay grid of {op}; first disagreement with the executable mirror of the specification'
            w['grid_summary'] = p.stdout.split('\n')[0]
            w['cases'] = cases
            return w, cases
    return None, cases


def run_input(exe, op, args):
    cmd = [exe, 'run', op] + [f'{k}={v}' for k, v in args.items()]
    p = subprocess.run(cmd, capture_output=True, text=True, timeout=120)
    return p.returncode, p.stdout + p.stderr


def replay_file(path, repo):
    rec = json.load(open(path))
    print(f'replay of {path}: property={rec.get("property")} obligation={rec.get("obligation")}')
    cex = rec.get('counterexample')
    if not cex:
        print('no failing input was recorded (no-failing-input-found); verifier output follows')
        print(rec.get('verifier_output', ''))
        return 1
    scratch = os.path.join(ROOT, '.scratch', f'replay-{os.getpid()}')
    os.makedirs(scratch, exist_ok=True)
    try:
        exe = build(repo, scratch)
        rc, out = run_input(exe, cex['op'], cex['input'])
        print(f'op={cex["op"]} input={json.dumps(cex["input"])}')
        print(out)
        print('violation reproduces on the real code' if rc == 1 else 'input no longer fails on this tree')
        return 1 if rc == 1 else 0
    finally:
        shutil.rmtree(scratch, ignore_errors=True)
