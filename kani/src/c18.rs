//! C18: character classes, every `char` (21-bit domain, loop-free => complete proof, no unwinding).
use crate::gen_chars::*;
use xml_nom::xmlchar;

//@harness name=c18_is_char fn=is_char ob=matches_production_2 kind=complete inputs=c:char op=xmlchar.is_char props=C18
//@        claim="for every char c: is_char(c) == p2_char(c as u32)"
#[kani::proof]
fn c18_is_char() {
    let c: char = kani::any();
    kani::cover!(c as u32 > 0x10000);
    assert!(xmlchar::is_char(c) == p2_char(c as u32));
}

//@harness name=c18_is_name_start_char fn=is_name_start_char ob=matches_production_4 kind=complete inputs=c:char op=xmlchar.is_name_start_char props=C18
//@        claim="for every char c: is_name_start_char(c) == p4_name_start_char(c as u32)"
#[kani::proof]
fn c18_is_name_start_char() {
    let c: char = kani::any();
    kani::cover!(c as u32 > 0x10000);
    assert!(xmlchar::is_name_start_char(c) == p4_name_start_char(c as u32));
}

//@harness name=c18_is_name_char fn=is_name_char ob=matches_production_4a kind=complete inputs=c:char op=xmlchar.is_name_char props=C18
//@        claim="for every char c: is_name_char(c) == p4a_name_char(c as u32)"
#[kani::proof]
fn c18_is_name_char() {
    let c: char = kani::any();
    kani::cover!(c as u32 > 0x10000);
    assert!(xmlchar::is_name_char(c) == p4a_name_char(c as u32));
}

//@harness name=c18_is_pubid_char fn=is_pubid_char ob=matches_production_13 kind=complete inputs=c:char op=xmlchar.is_pubid_char props=C18
//@        claim="for every char c: is_pubid_char(c) == p13_pubid_char(c as u32)"
#[kani::proof]
fn c18_is_pubid_char() {
    let c: char = kani::any();
    kani::cover!(c as u32 > 0x10000);
    assert!(xmlchar::is_pubid_char(c) == p13_pubid_char(c as u32));
}

//@harness name=c18_is_enc_name fn=is_enc_name ob=matches_production_81_tail kind=complete inputs=c:char op=xmlchar.is_enc_name props=C18
//@        claim="for every char c: is_enc_name(c) == p81_enc_name_tail(c as u32)"
#[kani::proof]
fn c18_is_enc_name() {
    let c: char = kani::any();
    kani::cover!(c as u32 > 0x10000);
    assert!(xmlchar::is_enc_name(c) == p81_enc_name_tail(c as u32));
}
