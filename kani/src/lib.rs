//! Kani harnesses on the REAL crates of /repo (path dependencies, feature `verif`).
//! Loop-free harnesses over full-domain symbolic scalars are complete proofs; anything with a bound says so.
#![allow(dead_code)]
pub mod gen_chars;

#[cfg(kani)]
mod c18;
#[cfg(kani)]
mod c09;
