//! C09 (rounding functions): floor, ceiling, round of the REAL xml-xpath crate for every f64 (loop-free harnesses
//! over kani::any::<f64>() => complete proofs, no unwinding involved). Reference semantics are written
//! declaratively from XPath 1.0 section 4.4.
//! Harnesses over a symbolic Boolean|Number operand (boolean, number, arithmetic, comparisons) were written and
//! dropped: Kani did not finish them within 15 minutes on this image (DESIGN section 8).
use std::cell::RefCell;
use std::mem::MaybeUninit;
use std::rc::Rc;
use xml_xpath::eval::func::verif_hooks as fh;
use xml_xpath::eval::model::{Context, Value};

/// The func.rs functions take a `dom::XmlNode` they never look at when given their full argument list (A7):
/// an Rc over zeroed memory whose strong count is pinned (one clone leaked), so the callee's drop only decrements.
fn inert_node() -> xml_dom::XmlNode {
    let rc: Rc<RefCell<xml_info::XmlText>> =
        unsafe { Rc::new(MaybeUninit::<RefCell<xml_info::XmlText>>::zeroed().assume_init()) };
    std::mem::forget(rc.clone());
    xml_dom::XmlNode::Text(xml_dom::XmlText::from(rc))
}

fn number_of(r: Result<Value, xml_xpath::eval::error::Error>) -> f64 {
    match r {
        Ok(Value::Number(v)) => v,
        _ => panic!("not a number result"),
    }
}

//@harness name=c09_floor fn=xpath::func::floor ob=largest_integer_not_greater kind=complete inputs=x:f64n op=xpath.func.floor props=C09
//@        claim="for every f64 x: floor(x) is NaN/inf/zero-preserving, integral, r <= x < r + 1"
#[kani::proof]
fn c09_floor() {
    let x: f64 = kani::any();
    kani::cover!(x > 1.5 && x < 1.0e10);
    let mut c = Context::default();
    let r = number_of(fh::floor(vec![Value::Number(x)], inert_node(), &mut c));
    if x.is_nan() {
        assert!(r.is_nan());
    } else if x.is_infinite() || x == 0.0 {
        assert!(r.to_bits() == x.to_bits());
    } else {
        assert!(r <= x && (r == x || r + 1.0 > x) && r == r.trunc());
    }
}

//@harness name=c09_ceiling fn=xpath::func::ceiling ob=smallest_integer_not_less kind=complete inputs=x:f64n op=xpath.func.ceiling props=C09
//@        claim="for every f64 x: ceiling(x) is NaN/inf/zero-preserving, integral, r - 1 < x <= r"
#[kani::proof]
fn c09_ceiling() {
    let x: f64 = kani::any();
    kani::cover!(x > 1.5 && x < 1.0e10);
    let mut c = Context::default();
    let r = number_of(fh::ceiling(vec![Value::Number(x)], inert_node(), &mut c));
    if x.is_nan() {
        assert!(r.is_nan());
    } else if x.is_infinite() || x == 0.0 {
        assert!(r.to_bits() == x.to_bits());
    } else {
        assert!(r >= x && (r == x || r - 1.0 < x) && r == r.trunc());
    }
}

//@harness name=c09_round fn=xpath::func::round ob=closest_integer_ties_to_positive_infinity kind=complete inputs=x:f64n op=xpath.func.round props=C09
//@        claim="for every f64 x: round(x) is the closest integer, ties towards +infinity; NaN, +-inf, +-0 unchanged; [-0.5, 0) gives -0"
#[kani::proof]
fn c09_round() {
    let x: f64 = kani::any();
    kani::cover!(x < -1.0 && x > -1.0e10);
    let mut c = Context::default();
    let r = number_of(fh::round(vec![Value::Number(x)], inert_node(), &mut c));
    if x.is_nan() {
        assert!(r.is_nan());
    } else if x.is_infinite() || x == 0.0 {
        assert!(r.to_bits() == x.to_bits());
    } else if x < 0.0 && x >= -0.5 {
        assert!(r == 0.0 && r.is_sign_negative());
    } else {
        let d = r - x;
        assert!(r == r.trunc());
        assert!(d <= 0.5 && d > -0.5);
    }
}
