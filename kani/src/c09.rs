//! C09 (rounding functions): floor, ceiling, round of the REAL xml-xpath crate for every f64 (loop-free harnesses
//! over kani::any::<f64>() => complete proofs, no unwinding involved). Reference semantics are written
//! declaratively from XPath 1.0 section 4.4.
//! Harnesses over a symbolic Boolean|Number operand (boolean, number, arithmetic, comparisons) were written and
//! dropped: Kani did not finish them within 15 minutes on this image (DESIGN section 8).
use std::cell::RefCell;
use std::mem::MaybeUninit;
use std::rc::Rc;
use xml_xpath::eval::func::verif_hooks as fh;
use xml_xpath::eval::model::{Context, Value};

/// The func.rs functions take a `dom::XmlNode` they never look at when given their full argument list (A7):
/// an Rc over zeroed memory whose strong count is pinned (one clone leaked), so the callee's drop only decrements.
fn inert_node() -> xml_dom::XmlNode {
    let rc: Rc<RefCell<xml_info::XmlText>> =
        unsafe { Rc::new(MaybeUninit::<RefCell<xml_info::XmlText>>::zeroed().assume_init()) };
    std::mem::forget(rc.clone());
    xml_dom::XmlNode::Text(xml_dom::XmlText::from(rc))
}

fn number_of(r: Result<Value, xml_xpath::eval::error::Error>) -> f64 {
    match r {
        Ok(Value::Number(v)) => v,
        _ => panic!("not a number result"),
    }
}

//@harness name=c09_floor fn=xpath::func::floor ob=largest_integer_not_greater kind=complete inputs=a0:f64n op=xpath.func.floor props=C09
//@        claim="for every f64 x: floor(x) is NaN/inf/zero-preserving, integral, r <= x < r + 1"
#[kani::proof]
fn c09_floor() {
    let x: f64 = kani::any();
    kani::cover!(x > 1.5 && x < 1.0e10);
    let mut c = Context::default();
    let r = number_of(fh::floor(vec![Value::Number(x)], inert_node(), &mut c));
    if x.is_nan() {
        assert!(r.is_nan());
    } else if x.is_infinite() || x == 0.0 {
        assert!(r.to_bits() == x.to_bits());
    } else {
        assert!(r <= x && (r == x || r + 1.0 > x) && r == r.trunc());
    }
}

//@harness name=c09_ceiling fn=xpath::func::ceiling ob=smallest_integer_not_less kind=complete inputs=a0:f64n op=xpath.func.ceiling props=C09
//@        claim="for every f64 x: ceiling(x) is NaN/inf/zero-preserving, integral, r - 1 < x <= r"
#[kani::proof]
fn c09_ceiling() {
    let x: f64 = kani::any();
    kani::cover!(x > 1.5 && x < 1.0e10);
    let mut c = Context::default();
    let r = number_of(fh::ceiling(vec![Value::Number(x)], inert_node(), &mut c));
    if x.is_nan() {
        assert!(r.is_nan());
    } else if x.is_infinite() || x == 0.0 {
        assert!(r.to_bits() == x.to_bits());
    } else {
        assert!(r >= x && (r == x || r - 1.0 < x) && r == r.trunc());
    }
}

//@harness name=c09_round fn=xpath::func::round ob=closest_integer_ties_to_positive_infinity kind=complete inputs=a0:f64n op=xpath.func.round props=C09
//@        claim="for every f64 x: round(x) is the closest integer, ties towards +infinity; NaN, +-inf, +-0 unchanged; [-0.5, 0) gives -0"
#[kani::proof]
fn c09_round() {
    let x: f64 = kani::any();
    kani::cover!(x < -1.0 && x > -1.0e10);
    let mut c = Context::default();
    let r = number_of(fh::round(vec![Value::Number(x)], inert_node(), &mut c));
    if x.is_nan() {
        assert!(r.is_nan());
    } else if x.is_infinite() || x == 0.0 {
        assert!(r.to_bits() == x.to_bits());
    } else if x < 0.0 && x >= -0.5 {
        assert!(r == 0.0 && r.is_sign_negative());
    } else {
        let d = r - x;
        assert!(r == r.trunc());
        assert!(d <= 0.5 && d > -0.5);
    }
}

// ---------------------------------------------------------------------------------------------------------------
// Coercions, operators and comparisons on scalar operands. One harness per CONCRETE operand kind (a symbolic
// Boolean|Number tag through Vec<Value> did not finish under Kani, DESIGN section 8.4); within a kind the payload is
// fully symbolic (every f64 / both bools), loop-free => complete.

fn bool_of(r: Result<Value, xml_xpath::eval::error::Error>) -> bool {
    match r {
        Ok(Value::Boolean(v)) => v,
        _ => panic!("not a boolean result"),
    }
}

/// XPath 1.0 section 4.3: a number is true iff it is neither zero (positive or negative) nor NaN
fn spec_boolean_of_number(x: f64) -> bool {
    !(x == 0.0 || x.is_nan())
}

//@harness name=c09_boolean_number fn=xpath::func::boolean ob=number_is_true_iff_nonzero_and_not_nan kind=complete inputs=a0:f64n op=xpath.func.boolean props=C09
//@        claim="for every f64 x: boolean(x) and not(x) follow XPath 4.3 (zero, negative zero and NaN are false)"
#[kani::proof]
fn c09_boolean_number() {
    let x: f64 = kani::any();
    kani::cover!(x.is_nan());
    let mut c = Context::default();
    let b = bool_of(fh::boolean(vec![Value::Number(x)], inert_node(), &mut c));
    assert!(b == spec_boolean_of_number(x));
    let n = bool_of(fh::not(vec![Value::Number(x)], inert_node(), &mut c));
    assert!(n == !spec_boolean_of_number(x));
}

//@harness name=c09_boolean_boolean fn=xpath::func::boolean ob=boolean_is_identity kind=complete inputs=a0:booln op=xpath.func.boolean props=C09
//@        claim="boolean(b) = b, not(b) = !b, true() and false() are the constants"
#[kani::proof]
fn c09_boolean_boolean() {
    let x: bool = kani::any();
    kani::cover!(x);
    let mut c = Context::default();
    assert!(bool_of(fh::boolean(vec![Value::Boolean(x)], inert_node(), &mut c)) == x);
    assert!(bool_of(fh::not(vec![Value::Boolean(x)], inert_node(), &mut c)) == !x);
    assert!(bool_of(fh::ftrue(vec![], inert_node(), &mut c)));
    assert!(!bool_of(fh::ffalse(vec![], inert_node(), &mut c)));
}

//@harness name=c09_number_number fn=xpath::func::number ob=number_of_number_is_identity kind=complete inputs=a0:f64n op=xpath.func.number props=C09
//@        claim="for every f64 x: number(x) is x bit for bit (NaN stays NaN)"
#[kani::proof]
fn c09_number_number() {
    let x: f64 = kani::any();
    kani::cover!(x < 0.0);
    let mut c = Context::default();
    let r = number_of(fh::number(vec![Value::Number(x)], inert_node(), &mut c));
    assert!(if x.is_nan() { r.is_nan() } else { r.to_bits() == x.to_bits() });
}

//@harness name=c09_number_boolean fn=xpath::func::number ob=true_is_one_false_is_zero kind=complete inputs=a0:booln op=xpath.func.number props=C09
//@        claim="number(true) = 1, number(false) = +0"
#[kani::proof]
fn c09_number_boolean() {
    let x: bool = kani::any();
    kani::cover!(x);
    let mut c = Context::default();
    let r = number_of(fh::number(vec![Value::Boolean(x)], inert_node(), &mut c));
    assert!(r.to_bits() == (if x { 1.0f64 } else { 0.0f64 }).to_bits());
}

fn num_val(v: Value) -> f64 {
    match v {
        Value::Number(x) => x,
        _ => panic!("not a number"),
    }
}

fn same_f64(a: f64, b: f64) -> bool {
    (a.is_nan() && b.is_nan()) || a.to_bits() == b.to_bits()
}

//@harness name=c09_arith_add_sub fn=xpath::op::add_sub ob=ieee754_addition_subtraction kind=complete inputs=a0:f64n,a1:f64n op=xpath.op.add props=C09 tier=thorough
//@        claim="for all f64 a, b: a + b and a - b on Value::Number are the IEEE 754 results (NaN for inf - inf)"
#[kani::proof]
fn c09_arith_add_sub() {
    let a: f64 = kani::any();
    let b: f64 = kani::any();
    kani::cover!(a.is_infinite() && b.is_infinite());
    assert!(same_f64(num_val(Value::Number(a) + Value::Number(b)), a + b));
    assert!(same_f64(num_val(Value::Number(a) - Value::Number(b)), a - b));
    // declarative anchors, independent of the `+` above
    if a.is_nan() || b.is_nan() {
        assert!(num_val(Value::Number(a) + Value::Number(b)).is_nan());
    }
    if a == f64::INFINITY && b == f64::NEG_INFINITY {
        assert!(num_val(Value::Number(a) + Value::Number(b)).is_nan());
    }
    if b == 0.0 && !a.is_nan() && a != 0.0 {
        assert!(num_val(Value::Number(a) + Value::Number(b)).to_bits() == a.to_bits());
        assert!(num_val(Value::Number(a) - Value::Number(b)).to_bits() == a.to_bits());
    }
}

//@harness name=c09_arith_mul fn=xpath::op::mul ob=ieee754_multiplication kind=complete inputs=a0:f64n,a1:f64n op=xpath.op.mul props=C09 tier=thorough
//@        claim="for all f64 a, b: a * b on Value::Number is the IEEE 754 product (inf * 0 = NaN)"
#[kani::proof]
fn c09_arith_mul() {
    let a: f64 = kani::any();
    let b: f64 = kani::any();
    kani::cover!(a.is_infinite() && b == 0.0);
    assert!(same_f64(num_val(Value::Number(a) * Value::Number(b)), a * b));
}

// `div`: a harness `same_f64(Number(a) / Number(b), a / b)` over all f64 pairs did not finish in 40 minutes with either SAT
// back end (CBMC's IEEE 754 division circuit): the division clause is NOT decided.

//@harness name=c09_arith_neg fn=xpath::op::neg ob=unary_minus_negates kind=complete inputs=a0:f64n op=xpath.op.neg props=C09
//@        claim="for every f64 a: -a has the magnitude of a and, for a != 0, the opposite sign; NaN stays NaN (the sign of a zero result is left open: XPath 1.0 does not spell it out)"
#[kani::proof]
fn c09_arith_neg() {
    let a: f64 = kani::any();
    kani::cover!(a > 1.0);
    let r = num_val(-Value::Number(a));
    if a.is_nan() {
        assert!(r.is_nan());
    } else if a == 0.0 {
        assert!(r == 0.0);
    } else {
        assert!(r == -a && r.is_sign_negative() != a.is_sign_negative());
    }
}

// `mod` (f64 `%`): CBMC 6.11 models fmod/frem as a nondeterministic value (the harness written for it failed on
// `r.is_nan()` for a = NaN within 5 s), so the truncating-remainder clause is NOT decided by Kani.

fn ok_bool(r: Result<bool, xml_xpath::eval::error::Error>) -> bool {
    match r {
        Ok(v) => v,
        _ => panic!("comparison failed"),
    }
}

fn b2n(b: bool) -> f64 {
    if b {
        1.0
    } else {
        0.0
    }
}

use xml_xpath::eval::verif_hooks as ch;

//@harness name=c09_cmp_number_number fn=xpath::cmp::number_number ob=numbers_compare_as_ieee754 kind=complete inputs=a0:f64n,a1:f64n op=xpath.cmp.equal_value props=C09
//@        claim="for all f64 a, b: = != < <= > >= on two numbers are the IEEE 754 comparisons (every comparison with NaN is false except !=)"
#[kani::proof]
fn c09_cmp_number_number() {
    let a: f64 = kani::any();
    let b: f64 = kani::any();
    kani::cover!(a.is_nan());
    let (x, y) = (Value::Number(a), Value::Number(b));
    assert!(ok_bool(ch::equal_value(&x, &y)) == (a == b));
    assert!(ok_bool(ch::not_equal_value(&x, &y)) == (a != b));
    assert!(ok_bool(ch::less_than_value(&x, &y)) == (a < b));
    assert!(ok_bool(ch::less_eq_value(&x, &y)) == (a <= b));
    assert!(ok_bool(ch::greater_than_value(&x, &y)) == (a > b));
    assert!(ok_bool(ch::greater_eq_value(&x, &y)) == (a >= b));
}

//@harness name=c09_cmp_boolean_number fn=xpath::cmp::boolean_number ob=equality_coerces_to_boolean_order_coerces_to_number kind=complete inputs=a0:booln,a1:f64n op=xpath.cmp.equal_value props=C09
//@        claim="for every bool a and f64 b, both operand orders: = and != compare boolean(b) with a; < <= > >= compare number(a) with b (XPath 3.4)"
#[kani::proof]
fn c09_cmp_boolean_number() {
    let a: bool = kani::any();
    let b: f64 = kani::any();
    kani::cover!(a && b.is_nan());
    let (x, y) = (Value::Boolean(a), Value::Number(b));
    let bb = spec_boolean_of_number(b);
    assert!(ok_bool(ch::equal_value(&x, &y)) == (a == bb));
    assert!(ok_bool(ch::equal_value(&y, &x)) == (a == bb));
    assert!(ok_bool(ch::not_equal_value(&x, &y)) == (a != bb));
    assert!(ok_bool(ch::not_equal_value(&y, &x)) == (a != bb));
    let an = b2n(a);
    assert!(ok_bool(ch::less_than_value(&x, &y)) == (an < b));
    assert!(ok_bool(ch::less_than_value(&y, &x)) == (b < an));
    assert!(ok_bool(ch::less_eq_value(&x, &y)) == (an <= b));
    assert!(ok_bool(ch::less_eq_value(&y, &x)) == (b <= an));
    assert!(ok_bool(ch::greater_than_value(&x, &y)) == (an > b));
    assert!(ok_bool(ch::greater_than_value(&y, &x)) == (b > an));
    assert!(ok_bool(ch::greater_eq_value(&x, &y)) == (an >= b));
    assert!(ok_bool(ch::greater_eq_value(&y, &x)) == (b >= an));
}

//@harness name=c09_cmp_boolean_boolean fn=xpath::cmp::boolean_boolean ob=booleans_compare_as_booleans_and_order_as_numbers kind=complete inputs=a0:booln,a1:booln op=xpath.cmp.equal_value props=C09
//@        claim="for all bools a, b: = and != compare the booleans; < <= > >= compare number(a) with number(b)"
#[kani::proof]
fn c09_cmp_boolean_boolean() {
    let a: bool = kani::any();
    let b: bool = kani::any();
    kani::cover!(a && !b);
    let (x, y) = (Value::Boolean(a), Value::Boolean(b));
    assert!(ok_bool(ch::equal_value(&x, &y)) == (a == b));
    assert!(ok_bool(ch::not_equal_value(&x, &y)) == (a != b));
    assert!(ok_bool(ch::less_than_value(&x, &y)) == (b2n(a) < b2n(b)));
    assert!(ok_bool(ch::less_eq_value(&x, &y)) == (b2n(a) <= b2n(b)));
    assert!(ok_bool(ch::greater_than_value(&x, &y)) == (b2n(a) > b2n(b)));
    assert!(ok_bool(ch::greater_eq_value(&x, &y)) == (b2n(a) >= b2n(b)));
}

// ---------------------------------------------------------------------------------------------------------------
// substring(): every numeric argument (complete over f64, incl. NaN, infinities, negatives, halves), contents SAMPLED
// from a fixed list (a proof over the numbers, a sample over the strings; labelled so in the evidence).

// A whole-function harness `substring("ab", any f64)` found the panics of the old implementation in 25 s (usize
// underflow, split_at outside the string). On the repaired implementation the result is built with
// chars().skip(lo).take(n).collect(): a String of symbolic length, which CBMC does not finish (300 s cap). The
// function is therefore split by contract: `substring_range` (loop-free, every f64, every length and position:
// below) and the character slicing (Verus, units/func_strings.py).

/// the declarative round of XPath 4.4 used by the substring specification (checked against the real xpath_round below)
fn spec_selected(p: usize, first: f64, end: Option<f64>) -> bool {
    let pf = p as f64;
    pf >= first && end.map(|e| pf < e).unwrap_or(true)
}

//@harness name=c09_xpath_round fn=xpath::func::xpath_round ob=closest_integer_ties_to_positive_infinity kind=complete inputs=a0:f64n op=xpath.func.round props=C09
//@        claim="for every f64 x: xpath_round(x) (shared by round() and substring()) is the closest integer, ties towards +infinity; NaN, +-inf, +-0 unchanged; [-0.5, 0) gives -0"
#[kani::proof]
fn c09_xpath_round() {
    let x: f64 = kani::any();
    kani::cover!(x < -1.0 && x > -1.0e10);
    let r = fh::xpath_round(x);
    if x.is_nan() {
        assert!(r.is_nan());
    } else if x.is_infinite() || x == 0.0 {
        assert!(r.to_bits() == x.to_bits());
    } else if x < 0.0 && x >= -0.5 {
        assert!(r == 0.0 && r.is_sign_negative());
    } else {
        let d = r - x;
        assert!(r == r.trunc());
        assert!(d <= 0.5 && d > -0.5);
    }
}

//@harness name=c09_substring_range2 fn=xpath::func::substring_range ob=two_argument_form_selects_positions_from_round_start kind=complete inputs=len:usize,a1:f64n,p:usize op=xpath.func.substring_range props=C09
//@        claim="for every length <= 2^53, every f64 start and every position p in 1..=len: p is inside the returned index range iff p >= round(start); the range is ordered and within the string"
#[kani::proof]
fn c09_substring_range2() {
    let len: usize = kani::any();
    let start: f64 = kani::any();
    let p: usize = kani::any();
    kani::assume(len <= (1usize << 53));
    kani::assume(1 <= p && p <= len);
    kani::cover!(start > 1.4 && start < 2.6 && len == 5);
    let r = fh::substring_range(len, start, None);
    assert!(r.start <= r.end && r.end <= len);
    let inside = r.start < p && p <= r.end;
    assert!(inside == spec_selected(p, fh::xpath_round(start), None));
}

//@harness name=c09_substring_range3 fn=xpath::func::substring_range ob=three_argument_form_selects_round_start_to_round_start_plus_round_length kind=complete inputs=len:usize,a1:f64n,a2:f64n,p:usize op=xpath.func.substring_range props=C09 tier=thorough
//@        claim="for every length <= 2^53, all f64 start and length and every position p in 1..=len: p is inside the returned index range iff round(start) <= p < round(start) + round(length) (IEEE 754 addition: NaN selects nothing)"
#[kani::proof]
fn c09_substring_range3() {
    let len: usize = kani::any();
    let start: f64 = kani::any();
    let length: f64 = kani::any();
    let p: usize = kani::any();
    kani::assume(len <= (1usize << 53));
    kani::assume(1 <= p && p <= len);
    kani::cover!(start > 1.4 && start < 2.6 && length > 2.6 && length < 3.4 && len == 5);
    let r = fh::substring_range(len, start, Some(length));
    assert!(r.start <= r.end && r.end <= len);
    let inside = r.start < p && p <= r.end;
    let first = fh::xpath_round(start);
    assert!(inside == spec_selected(p, first, Some(first + fh::xpath_round(length))));
}
