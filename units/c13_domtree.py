"""C13, the tree mutators of the DOM layer: `NodeMut for XmlElement` and `NodeMut for XmlDocument` -- `insert_before`, `remove_child` (dom/src/lib.rs): the
exception mapping and the "a refused call changes nothing" half at the layer the caller sees.  What the information-set layer
below does is proved in units/c13_tree.py (`HasChildren::insert_before / append / delete`: refuse and change nothing, or perform);
here those are ASSUMED callees whose contract is, clause for clause, what is proved there (UNIT['callee_links'] names the
obligations): a refusal changes nothing, `OufOfIndex` is answered exactly when the reference is not a child (or is the new child
itself), any other refusal is the hierarchy / type check (`refused_below`, uninterpreted: `!accepts(value)` there), and a
performed call relates the two worlds by `inserted` / `deleted` (uninterpreted relations this layer only hands on: the
child-list and order-vector effects stated there).

DOM Level 1: WRONG_DOCUMENT_ERR when the new child or the reference child belongs to another document, NOT_FOUND_ERR when the
reference (or the child to remove) is not a child of this node, HIERARCHY_REQUEST_ERR / NotSupportErr when the node kind cannot be
a child at all (the conversion of units/c13_convert.py) or the layer below refuses; every error leaves the world as it was; a
performed call has the effect of the layer below and answers the node; and the call IS performed whenever none of these stands
against it.  `NodeMut for XmlDocument` has the same shape and the same contract (its own `replace_child`, DESIGN 9.23, stays with the
bounded grid dom.seq_atomic).  For the document, `owner_document()` of the document node is None: `Some(self.clone()) != x.owner_document()`."""
from vf.unit import Fn, Rule

FD = 'dom/src/lib.rs'

ENV = r'''use vstd::prelude::*;
verus! {

pub mod error {
    pub enum DomException { IndexSizeErr, DomStringSizeErr, HierarchyRequestErr, WrongDocumentErr, InvalidCharacterErr, NoDataAllowedErr, NoModificationAllowedErr, NotFoundErr, NotSupportErr, InuseAttributeErr }
    pub enum Error { Dom(DomException), Info(usize), Parse(String) }
    pub type Result<T> = core::result::Result<T, Error>;
}
pub mod xml_info { pub mod error {
    pub enum Error { IsolatedNode, InvalidData(String), InvalidHierarchy, InvalidType, NotFoundDoumentElement, NotFoundReference(String), OufOfIndex(usize), Parse(String) }
} }
pub struct ElemH { pub ident: usize }
pub struct ItemRef { pub ident: usize }
pub struct XmlElement { pub element: ElemH }
pub struct XmlDocument { pub document: ElemH }   // the same handle type: only its id matters here
pub struct XmlNode { pub ident: usize }     // any DOM node (its kind does not matter here: the conversion below decides)

pub uninterp spec fn doc_of(node: usize) -> usize;              // the document a node belongs to: never changes
pub uninterp spec fn convertible(node: usize) -> bool;          // TryFrom<XmlNode> for Rc<XmlItem> answers Ok (units/c13_convert.py)
pub uninterp spec fn refused_below(w: World, parent: usize, child: usize) -> bool;   // the hierarchy / type checks of insert_by_id refuse

pub open spec fn without_id(s: Seq<usize>, x: usize) -> Seq<usize> { s.filter(|v: usize| v != x) }
pub open spec fn ins_before(children: Seq<usize>, v: usize, id: usize) -> Seq<usize> { let rest = without_id(children, v); rest.insert(rest.index_of(id), v) }
// what `filter(v != dropped)` keeps: every other element
pub proof fn lemma_without_keeps(s: Seq<usize>, dropped: usize, keep: usize)
    requires s.contains(keep), keep != dropped,
    ensures without_id(s, dropped).contains(keep),
    decreases s.len(),
{
    reveal(Seq::filter);
    let i = choose|i: int| 0 <= i < s.len() && s[i] == keep;
    if i == s.len() - 1 {
        let f = without_id(s.drop_last(), dropped);
        assert(without_id(s, dropped) == f.push(keep));
        assert(f.push(keep)[f.len() as int] == keep);
    } else {
        assert(s.drop_last()[i] == keep);
        lemma_without_keeps(s.drop_last(), dropped, keep);
        let f = without_id(s.drop_last(), dropped);
        let j = choose|j: int| 0 <= j < f.len() && f[j] == keep;
        if s.last() != dropped { assert(without_id(s, dropped) == f.push(s.last())); assert(f.push(s.last())[j] == keep); }
    }
}
// the reference child is still listed once the new child stands before it
pub proof fn lemma_ins_before_keeps(s: Seq<usize>, v: usize, id: usize)
    requires s.contains(id), id != v,
    ensures ins_before(s, v, id).contains(id),
{
    lemma_without_keeps(s, v, id);
    let rest = without_id(s, v);
    let k = rest.index_of(id);
    assert(0 <= k < rest.len() && rest[k] == id);
    assert(rest.insert(k, v)[k + 1] == id);
}

pub struct World {
    pub kids: Ghost<Map<usize, Seq<usize>>>,
    pub parent: Ghost<Map<usize, Option<usize>>>,
}
impl World {
    pub open spec fn list(self, e: usize) -> Seq<usize> { if self.kids@.dom().contains(e) { self.kids@[e] } else { Seq::<usize>::empty() } }
    pub open spec fn unchanged(self, o: World) -> bool { self.kids@ == o.kids@ && self.parent@ == o.parent@ }
    // the effect of a performed insertion, as units/c13_tree.py proves it for HasChildren::insert_before / append: a relation
    // between the two worlds that this layer only hands on
    // the child list of `parent` is stated (the clauses `the_child_lands_directly_before_the_reference`, `the_child_becomes_the_last_child`,
    // `removed_child_loses_its_key` there); everything else a performed call does (order keys, the parent links, the list the child
    // left) stays an uninterpreted relation
    pub open spec fn inserted(self, o: World, parent: usize, child: usize, before: Option<usize>) -> bool {
        self.list(parent) == (match before { Some(x) => ins_before(o.list(parent), child, x), None => without_id(o.list(parent), child).push(child) })
        && self.inserted_rest(o, parent, child, before)
    }
    pub open spec fn deleted(self, o: World, parent: usize, child: usize) -> bool {
        self.list(parent) == without_id(o.list(parent), child) && self.deleted_rest(o, parent, child)
    }
    pub uninterp spec fn inserted_rest(self, o: World, parent: usize, child: usize, before: Option<usize>) -> bool;
    pub uninterp spec fn deleted_rest(self, o: World, parent: usize, child: usize) -> bool;

    #[verifier::external_body]
    pub fn documents_differ(&self, a: usize, b: usize) -> (r: bool) ensures r == (doc_of(a) != doc_of(b)) { unimplemented!() }
    // self.element.borrow().insert_before(item, ref_id)
    #[verifier::external_body]
    pub fn info_insert_before(&mut self, e: &ElemH, item: ItemRef, ref_id: usize) -> (r: core::result::Result<ItemRef, xml_info::error::Error>)
        ensures r is Err ==> final(self).unchanged(*old(self)),
                // (an item inserted before ITSELF: refused with OufOfIndex today; a call that succeeds and changes nothing would be as good:
                // the corner is left open here exactly as in units/c13_tree.py)
                !old(self).list(e.ident).contains(ref_id) ==> r is Err && r->Err_0 is OufOfIndex,
                r is Err && r->Err_0 is OufOfIndex ==> !old(self).list(e.ident).contains(ref_id) || ref_id == item.ident,
                r is Ok ==> r->Ok_0.ident == item.ident && old(self).list(e.ident).contains(ref_id),
                r is Ok && ref_id != item.ident ==> final(self).inserted(*old(self), e.ident, item.ident, Some(ref_id)) && !refused_below(*old(self), e.ident, item.ident),
                r is Ok && ref_id == item.ident ==> final(self).unchanged(*old(self)),
                (old(self).list(e.ident).contains(ref_id) && ref_id != item.ident && !refused_below(*old(self), e.ident, item.ident)) ==> r is Ok,
    { unimplemented!() }
    #[verifier::external_body]
    pub fn info_append(&mut self, e: &ElemH, item: ItemRef) -> (r: core::result::Result<ItemRef, xml_info::error::Error>)
        ensures r is Err ==> final(self).unchanged(*old(self)),
                r is Ok <==> !refused_below(*old(self), e.ident, item.ident),
                r is Ok ==> r->Ok_0.ident == item.ident && final(self).inserted(*old(self), e.ident, item.ident, None),
    { unimplemented!() }
    #[verifier::external_body]
    pub fn info_delete(&mut self, e: &ElemH, id: usize) -> (r: Option<ItemRef>)
        ensures r is Some <==> old(self).list(e.ident).contains(id),
                r is None ==> final(self).unchanged(*old(self)),
                r is Some ==> r->Some_0.ident == id && final(self).deleted(*old(self), e.ident, id),
    { unimplemented!() }
}
impl XmlNode {
    pub fn id(&self) -> (r: usize) ensures r == self.ident { self.ident }
}
// new_child.try_into(): the information item behind a DOM node, or HierarchyRequestErr / NotSupportErr (units/c13_convert.py)
#[verifier::external_body]
pub fn node_to_item(n: XmlNode) -> (r: error::Result<ItemRef>)
    ensures r is Ok <==> convertible(n.ident), r is Ok ==> r->Ok_0.ident == n.ident,
            r is Err ==> (r->Err_0 == error::Error::Dom(error::DomException::HierarchyRequestErr) || r->Err_0 == error::Error::Dom(error::DomException::NotSupportErr)),
{ unimplemented!() }
// XmlNode::from(item)
#[verifier::external_body]
pub fn node_of(v: ItemRef) -> (r: XmlNode) ensures r.ident == v.ident { unimplemented!() }

impl XmlElement {
    //@@ insert_before

    //@@ remove_child

    //@@ replace_child

    //@@ append_child
}
impl XmlDocument {
    //@@ doc_insert_before

    //@@ doc_remove_child
}

} // verus!
impl std::fmt::Debug for error::Error { fn fmt(&self, f: &mut std::fmt::Formatter<'_>) -> std::fmt::Result { write!(f, "Error") } }
fn main() {}
'''

OWNER = 'impl NodeMut for XmlElement'
SIG = [Rule('R43', r'\(\s*&self,', '(&self, world: &mut World,', 'the shared document state reached through Rc<RefCell<..>>: made an explicit parameter'), Rule('R12', r'^fn ', 'pub fn ', 'visibility (no runtime meaning)')]
R_ERR = Rule('R16', r'return Err\((error::DomException::\w+)\)\?;', r'return Err(error::Error::Dom(\1));', '`return Err(x)?` desugared by hand (definition of `?` with From<DomException>)')
KEEP_NL = lambda text: (lambda m: text + '\n' * m.group(0).count('\n'))
ME = 'self.element.ident'
DOM = lambda c: f'error::Error::Dom(error::DomException::{c})'


def build():
    P = ['C13']
    fns = {}
    for (prefix, owner, field, label, differs) in (('', 'impl NodeMut for XmlElement', 'element', 'dom::XmlElement', r'self\.owner_document\(\) != {x}\.owner_document\(\)'),
                                                    ('doc_', 'impl NodeMut for XmlDocument', 'document', 'dom::XmlDocument', r'Some\(self\.clone\(\)\) != {x}\.owner_document\(\)')):
        ME = f'self.{field}.ident'
        fns[prefix + 'insert_before'] = Fn(
            FD, owner, 'insert_before', props=P, safety_props=P, label=label + '::insert_before', sig_rules=SIG,
            rules=[R_ERR,
                   Rule('R43', differs.format(x='new_child'), f'world.documents_differ({ME}, new_child.ident)', 'PartialEq of dom::XmlDocument (identity of the document) -> assumed callee'),
                   Rule('R43', differs.format(x='r'), f'world.documents_differ({ME}, r.ident)', 'the same for the reference child'),
                   Rule('R43', r'match self\s*\.' + field + r'\s*\.borrow\(\)\s*\.insert_before\(new_child\.try_into\(\)\?, r\.id\(\)\)\s*\{',
                        KEEP_NL(f'let __item = node_to_item(new_child)?; match world.info_insert_before(&self.{field}, __item, r.id()) {{'),
                        'RefCell borrow dropped (A4); the argument `new_child.try_into()?` is evaluated first (named temporary); the layer below edits the shared world'),
                   Rule('R16', r'Err\(xml_info::error::Error::OufOfIndex\(_\)\) => Err\(error::DomException::NotFoundErr\),', f'Err(xml_info::error::Error::OufOfIndex(_)) => Err({DOM("NotFoundErr")}),', 'From<DomException> applied by hand (what the trailing `?` does)'),
                   Rule('R16', r'_ => Err\(error::DomException::HierarchyRequestErr\),\s*\}\?', KEEP_NL(f'_ => Err({DOM("HierarchyRequestErr")}), }}?'), 'the same'),
                   Rule('R43', r'self\.' + field + r'\s*\.borrow\(\)\s*\.append\(new_child\.try_into\(\)\?\)\s*\.map_err\(\|_\w*\| error::DomException::HierarchyRequestErr\)\?',
                        KEEP_NL(f'{{ let __item = node_to_item(new_child)?; match world.info_append(&self.{field}, __item) {{ Ok(v) => v, Err(_) => return Err({DOM("HierarchyRequestErr")}) }} }}'),
                        'RefCell borrow dropped (A4); Result::map_err(closure) + `?` spelled out as a match'),
                   Rule('R48', r'Ok\(XmlNode::from\(value\)\)', 'Ok(node_of(value))', 'From<Rc<XmlItem>> for XmlNode -> shim (units/c13_convert.py)')],
            ensures=[('C13:a_child_of_another_document_is_refused', f'doc_of({ME}) != doc_of(new_child.ident) ==> r is Err && r->Err_0 == {DOM("WrongDocumentErr")}'),
                     ('C13:a_reference_of_another_document_is_refused', f'doc_of({ME}) == doc_of(new_child.ident) && ref_child is Some && doc_of({ME}) != doc_of(ref_child->Some_0.ident) ==> r is Err && r->Err_0 == {DOM("WrongDocumentErr")}'),
                     ('C13:a_reference_that_is_not_a_child_is_not_found',
                      f'doc_of({ME}) == doc_of(new_child.ident) && ref_child is Some && doc_of({ME}) == doc_of(ref_child->Some_0.ident) && convertible(new_child.ident)'
                      f' && !old(world).list({ME}).contains(ref_child->Some_0.ident) ==> r is Err && r->Err_0 == {DOM("NotFoundErr")}'),
                     ('C13:every_error_is_one_of_the_specified_classes_and_changes_nothing',
                      f'r is Err ==> final(world).unchanged(*old(world)) && (r->Err_0 == {DOM("WrongDocumentErr")} || r->Err_0 == {DOM("NotFoundErr")} || r->Err_0 == {DOM("HierarchyRequestErr")} || r->Err_0 == {DOM("NotSupportErr")})'),
                     ('C13:a_performed_call_has_the_effect_of_the_layer_below_and_answers_the_node',
                      f'r is Ok ==> r->Ok_0.ident == new_child.ident && ((ref_child is Some && ref_child->Some_0.ident == new_child.ident) || final(world).inserted(*old(world), {ME}, new_child.ident, match ref_child {{ Some(x) => Some(x.ident), None => None::<usize> }}))'),
                     ('C13:a_node_before_itself_is_refused_or_nothing_changes', f'ref_child is Some && ref_child->Some_0.ident == new_child.ident ==> final(world).unchanged(*old(world))'),
                     ('C13:the_call_is_performed_whenever_nothing_stands_against_it',
                      f'doc_of({ME}) == doc_of(new_child.ident) && convertible(new_child.ident) && !refused_below(*old(world), {ME}, new_child.ident)'
                      f' && (ref_child is Some ==> doc_of({ME}) == doc_of(ref_child->Some_0.ident) && old(world).list({ME}).contains(ref_child->Some_0.ident) && ref_child->Some_0.ident != new_child.ident) ==> r is Ok'),
                     ('C13:and_only_then',
                      f'r is Ok ==> doc_of({ME}) == doc_of(new_child.ident) && convertible(new_child.ident)'
                      f' && (ref_child is Some ==> doc_of({ME}) == doc_of(ref_child->Some_0.ident) && old(world).list({ME}).contains(ref_child->Some_0.ident))'
                      f' && ((ref_child is Some && ref_child->Some_0.ident == new_child.ident) || !refused_below(*old(world), {ME}, new_child.ident))'),
                     ('C13:not_found_is_answered_only_for_a_reference', f'r is Err && r->Err_0 == {DOM("NotFoundErr")} ==> ref_child is Some')])
        fns[prefix + 'remove_child'] = Fn(
            FD, owner, 'remove_child', props=P, safety_props=P, label=label + '::remove_child', sig_rules=[Rule('R43', r'\(&self,', '(&self, world: &mut World,', 'explicit world parameter'), SIG[1]],
            rules=[R_ERR,
                   Rule('R43', differs.format(x='old_child'), f'world.documents_differ({ME}, old_child.ident)', 'PartialEq of dom::XmlDocument (identity) -> assumed callee'),
                   Rule('R43', r'match self\.' + field + r'\.borrow\(\)\.delete\(old_child\.id\(\)\) \{', f'match world.info_delete(&self.{field}, old_child.id()) {{', 'RefCell borrow dropped (A4); the layer below edits the shared world'),
                   Rule('R48', r'Some\(v\) => Ok\(XmlNode::from\(v\)\),', 'Some(v) => Ok(node_of(v)),', 'From<Rc<XmlItem>> for XmlNode -> shim'),
                   Rule('R16', r'_ => Err\((error::DomException::\w+)\)\?,', r'_ => Err(error::Error::Dom(\1)),', '`Err(x)?` as the value of an arm: From<DomException> applied by hand')],
            ensures=[('C13:a_node_of_another_document_is_refused', f'doc_of({ME}) != doc_of(old_child.ident) ==> r is Err && r->Err_0 == {DOM("WrongDocumentErr")} && final(world).unchanged(*old(world))'),
                     ('C13:a_node_that_is_not_a_child_is_not_found', f'doc_of({ME}) == doc_of(old_child.ident) && !old(world).list({ME}).contains(old_child.ident) ==> r is Err && r->Err_0 == {DOM("NotFoundErr")} && final(world).unchanged(*old(world))'),
                     ('C13:a_child_is_removed_and_answered', f'doc_of({ME}) == doc_of(old_child.ident) && old(world).list({ME}).contains(old_child.ident) ==> r is Ok && r->Ok_0.ident == old_child.ident && final(world).deleted(*old(world), {ME}, old_child.ident)')])
    # the trait defaults `NodeMut::replace_child` / `append_child`, as XmlElement has them (XmlDocument overrides replace_child): the
    # calls on `self` resolve to the two functions above and are checked against THEIR contracts
    ME = 'self.element.ident'
    TD = 'pub trait NodeMut'
    SIG1 = [Rule('R43', r'\(&self,', '(&self, world: &mut World,', 'explicit world parameter'), SIG[1]]
    fns['replace_child'] = Fn(
        FD, TD, 'replace_child', props=P, safety_props=P, label='dom::NodeMut::replace_child (trait default, as XmlElement has it)', sig_rules=SIG1,
        rules=[Rule('R43', r'self\.insert_before\(new_child, ', 'self.insert_before(world, new_child, ', 'explicit world parameter handed on'),
               Rule('R43', r'self\.remove_child\(', 'self.remove_child(world, ', 'same')],
        inject=[(r'self\.remove_child\(world, ', f'proof {{ if new_child.ident != old_child.ident {{ lemma_ins_before_keeps(old(world).list({ME}), new_child.ident, old_child.ident); }} }}', 'before')],
        ensures=[('C13:every_error_is_one_of_the_specified_classes_and_changes_nothing',
                  f'r is Err ==> final(world).unchanged(*old(world)) && (r->Err_0 == {DOM("WrongDocumentErr")} || r->Err_0 == {DOM("NotFoundErr")} || r->Err_0 == {DOM("HierarchyRequestErr")} || r->Err_0 == {DOM("NotSupportErr")})'),
                 ('C13:a_node_of_another_document_is_refused', f'(doc_of({ME}) != doc_of(new_child.ident) || doc_of({ME}) != doc_of(old_child.ident)) ==> r is Err && r->Err_0 == {DOM("WrongDocumentErr")}'),
                 ('C13:an_old_child_that_is_not_a_child_is_not_found',
                  f'doc_of({ME}) == doc_of(new_child.ident) && doc_of({ME}) == doc_of(old_child.ident) && convertible(new_child.ident) && !old(world).list({ME}).contains(old_child.ident) ==> r is Err && r->Err_0 == {DOM("NotFoundErr")}'),
                 ('C13:a_performed_call_answers_the_old_child_and_the_new_one_stands_in_its_place',
                  f'r is Ok && new_child.ident != old_child.ident ==> r->Ok_0.ident == old_child.ident && final(world).list({ME}) == without_id(ins_before(old(world).list({ME}), new_child.ident, old_child.ident), old_child.ident)'
                  f' && (exists|mid: World| mid.inserted(*old(world), {ME}, new_child.ident, Some(old_child.ident)) && final(world).deleted(mid, {ME}, old_child.ident))'),
                 ('C13:the_call_is_performed_whenever_nothing_stands_against_it',
                  f'doc_of({ME}) == doc_of(new_child.ident) && doc_of({ME}) == doc_of(old_child.ident) && convertible(new_child.ident) && !refused_below(*old(world), {ME}, new_child.ident)'
                  f' && old(world).list({ME}).contains(old_child.ident) && old_child.ident != new_child.ident ==> r is Ok')])
    fns['append_child'] = Fn(
        FD, TD, 'append_child', props=P, safety_props=P, label='dom::NodeMut::append_child (trait default, as XmlElement has it)', sig_rules=SIG1,
        rules=[Rule('R43', r'self\.insert_before\(new_child, ', 'self.insert_before(world, new_child, ', 'explicit world parameter handed on')],
        ensures=[('C13:every_error_is_one_of_the_specified_classes_and_changes_nothing',
                  f'r is Err ==> final(world).unchanged(*old(world)) && (r->Err_0 == {DOM("WrongDocumentErr")} || r->Err_0 == {DOM("HierarchyRequestErr")} || r->Err_0 == {DOM("NotSupportErr")})'),
                 ('C13:a_performed_call_appends_and_answers_the_node', f'r is Ok ==> r->Ok_0.ident == new_child.ident && final(world).inserted(*old(world), {ME}, new_child.ident, None::<usize>)'),
                 ('C13:the_call_is_performed_whenever_nothing_stands_against_it',
                  f'doc_of({ME}) == doc_of(new_child.ident) && convertible(new_child.ident) && !refused_below(*old(world), {ME}, new_child.ident) ==> r is Ok')])
    return ENV, fns


TEMPLATE, FNS = build()
HC = 'HasChildren::{} (trait default)/post:{}'
# the assumed callees of this layer and the obligations of units/c13_tree.py that are their clauses (vocabulary: `list(e)` is
# the receiver's `children`, `!refused_below(w, e, x)` is `accepts(x)`, `unchanged` is `same_state`, `inserted` / `deleted` are
# the child-list and order-vector effects stated there); the driver reports whether those were discharged in the same run
UNIT = dict(name='c13_domtree', template=TEMPLATE, fns=FNS, props=['C13'],
            callee_links={
                'info_insert_before': [('c13_tree', HC.format('insert_before', l)) for l in (
                    'C13+C14:refused_call_changes_nothing', 'C13:out_of_index_exactly_when_the_reference_is_not_a_child_or_is_the_node_itself',
                    'C13:succeeds_exactly_when_reference_and_node_are_acceptable', 'C13:the_child_lands_directly_before_the_reference')],
                'info_append': [('c13_tree', HC.format('append', l)) for l in (
                    'C13+C14:refused_call_changes_nothing', 'C13:succeeds_exactly_when_the_node_is_acceptable', 'C13:the_child_becomes_the_last_child')],
                'info_delete': [('c13_tree', HC.format('delete', l)) for l in (
                    'C13:unknown_child_changes_nothing', 'C13:a_child_is_removed_and_answered_exactly_when_it_is_listed', 'C13:the_answer_is_the_child', 'C13+C14:removed_child_loses_its_key')],
            })
