"""C13, the attribute mutators of the DOM layer: `ElementMut for XmlElement` -- `set_attribute_node`, `remove_attribute_node`,
`remove_attribute`, `set_attribute` (dom/src/lib.rs).  Four defects were found in them by the bounded grid dom.attr_seq (DESIGN
9.23) and one while this unit was written (9.28); the contracts below are DOM Level 1, clause by clause.

World model (an explicit `&mut World` parameter, R43 -- the functions reach it through `Rc<RefCell<..>>`): for every element the
list of its attributes (ids, in storage order), for every attribute its owner element and its value; the local name of an
attribute and the document a node belongs to are immutable (uninterpreted functions of the id).  The information-set primitives
are assumed callees with the contracts their own units carry: `XmlElement::remove_attribute(name)` removes the FIRST attribute
with that local name, clears its owner and answers it -- PROVED in units/c13_tree.py for a list of pairwise different items, which
is the precondition here; `append_attribute` puts the
attribute at the end and makes the element its owner (`0f4a606`); `owner_element`, `get_attribute_node` (first by local name),
`create_attribute` (a fresh attribute of this document without owner), `set_value`, `name`.  Equality of two
`dom::XmlDocument`s is the identity of the document (`aecd8b7`); `Rc::ptr_eq` on two handles is "the same item".

DOM Level 1, setAttributeNode: WRONG_DOCUMENT_ERR / INUSE_ATTRIBUTE_ERR (an attribute of ANOTHER element) leave everything as it
was; an attribute of this element already changes nothing; otherwise the attribute of that name (if any) is replaced and
answered, the new one belongs to this element, and no other element's list and no other attribute's owner changes.
removeAttributeNode: NOT_FOUND_ERR unless the node itself is an attribute of this element.  Precondition of the latter (a
recorded limitation, DESIGN 9.21): attributes are identified by their LOCAL name, so the element must not carry two attributes
with the same local name (`p:a` and `a`)."""
from vf.unit import Fn, Rule

FD = 'dom/src/lib.rs'

ENV = r'''use vstd::prelude::*;
verus! {

pub mod error {
    pub enum DomException { IndexSizeErr, DomStringSizeErr, HierarchyRequestErr, WrongDocumentErr, InvalidCharacterErr, NoDataAllowedErr, NoModificationAllowedErr, NotFoundErr, NotSupportErr, InuseAttributeErr }
    pub enum Error { Dom(DomException), Info(usize), Parse(String) }
    pub type Result<T> = core::result::Result<T, Error>;
}
pub struct ElemH { pub ident: usize }      // info::XmlNode<info::XmlElement>
pub struct AttrH { pub ident: usize }      // info::XmlNode<info::XmlAttribute>
pub struct ItemRef { pub ident: usize }    // Rc<info::XmlItem> of an attribute
pub struct XmlAttr { pub attribute: AttrH }
pub struct XmlElement { pub element: ElemH }

pub uninterp spec fn name_of(attr: usize) -> Seq<char>;     // the local name of an attribute: never changes
pub uninterp spec fn doc_of(node: usize) -> usize;          // the document a node belongs to: never changes

pub struct World {
    pub attrs: Ghost<Map<usize, Seq<usize>>>,        // element -> its attributes, in storage order
    pub owner: Ghost<Map<usize, Option<usize>>>,     // attribute -> its owner element
    pub value: Ghost<Map<usize, Seq<char>>>,         // attribute -> its value
}
// index of the first attribute with that local name (-1: none)
pub open spec fn first_named(s: Seq<usize>, name: Seq<char>) -> int
    decreases s.len(),
{
    if s.len() == 0 { -1 } else if name_of(s[0]) == name { 0 } else { let r = first_named(s.subrange(1, s.len() as int), name); if r < 0 { -1 } else { r + 1 } }
}
pub open spec fn names_unique(s: Seq<usize>) -> bool { forall|i: int, j: int| 0 <= i < j < s.len() ==> name_of(#[trigger] s[i]) != name_of(#[trigger] s[j]) }
impl World {
    pub open spec fn list(self, e: usize) -> Seq<usize> { if self.attrs@.dom().contains(e) { self.attrs@[e] } else { Seq::<usize>::empty() } }
    pub open spec fn own(self, a: usize) -> Option<usize> { if self.owner@.dom().contains(a) { self.owner@[a] } else { None } }
    // consistency of the two views (C12 for attributes): an attribute is listed by exactly the element that owns it
    pub open spec fn wf(self) -> bool {
        forall|e: usize, a: usize| (#[trigger] self.list(e).contains(a)) <==> self.own(a) == Some(e)
    }
    pub open spec fn unchanged(self, o: World) -> bool { self.attrs@ == o.attrs@ && self.owner@ == o.owner@ && self.value@ == o.value@ }

    // self.owner_document() != new_attr.owner_document(): PartialEq of dom::XmlDocument is the identity of the document
    #[verifier::external_body]
    pub fn documents_differ(&self, e: &XmlElement, a: &XmlAttr) -> (r: bool)
        ensures r == (doc_of(e.element.ident) != doc_of(a.attribute.ident)),
    { unimplemented!() }
    // attr.attribute.borrow().owner_element()
    #[verifier::external_body]
    pub fn owner_element(&self, a: &AttrH) -> (r: core::result::Result<ElemH, error::Error>)
        ensures r is Ok <==> self.own(a.ident) is Some, r is Ok ==> r->Ok_0.ident == self.own(a.ident)->Some_0,
    { unimplemented!() }
    // element.get_attribute_node(name): the first attribute with that local name
    #[verifier::external_body]
    pub fn get_attribute_node(&self, e: &XmlElement, name: &str) -> (r: Option<XmlAttr>)
        ensures ({ let i = first_named(self.list(e.element.ident), name@); (r is Some <==> i >= 0) && (r is Some ==> r->Some_0.attribute.ident == self.list(e.element.ident)[i]) }),
    { unimplemented!() }
    // info::XmlElement::remove_attribute(name): removes the first attribute with that local name, clears its owner, answers it
    #[verifier::external_body]
    pub fn remove_attribute(&mut self, e: &ElemH, name: &str) -> (r: Option<ItemRef>)
        requires old(self).list(e.ident).no_duplicates(),     // proved in units/c13_tree.py under exactly this condition (XmlElement::remove_attribute)
        ensures final(self).value@ == old(self).value@,
                ({ let l = old(self).list(e.ident); let i = first_named(l, name@);
                   (i < 0 ==> r is None && final(self).attrs@ == old(self).attrs@ && final(self).owner@ == old(self).owner@)
                   && (i >= 0 ==> r is Some && r->Some_0.ident == l[i] && final(self).attrs@ == old(self).attrs@.insert(e.ident, l.remove(i)) && final(self).owner@ == old(self).owner@.insert(l[i], None)) }),
    { unimplemented!() }
    // info::XmlElement::append_attribute(Rc::new(attr.into())): the attribute goes to the end, the element is its owner
    #[verifier::external_body]
    pub fn append_attribute(&mut self, e: &ElemH, a: AttrH)
        ensures final(self).value@ == old(self).value@,
                final(self).attrs@ == old(self).attrs@.insert(e.ident, old(self).list(e.ident).push(a.ident)),
                final(self).owner@ == old(self).owner@.insert(a.ident, Some(e.ident)),
    { unimplemented!() }
    // self.owner_document().unwrap().create_attribute(name)?: a fresh attribute of the element's document, without owner
    #[verifier::external_body]
    pub fn create_attribute(&mut self, e: &XmlElement, name: &str) -> (r: error::Result<XmlAttr>)
        ensures final(self).unchanged(*old(self)),
                r is Ok ==> name_of(r->Ok_0.attribute.ident) == name@ && doc_of(r->Ok_0.attribute.ident) == doc_of(e.element.ident) && old(self).own(r->Ok_0.attribute.ident) is None
                            && (forall|x: usize| !(#[trigger] old(self).list(x)).contains(r->Ok_0.attribute.ident)),
    { unimplemented!() }
    // attr.set_value(value): the value changes (or the call is refused and nothing does); lists and owners stay
    #[verifier::external_body]
    pub fn set_value(&mut self, a: &XmlAttr, value: &str) -> (r: error::Result<()>)
        ensures final(self).attrs@ == old(self).attrs@, final(self).owner@ == old(self).owner@,
                r is Ok ==> final(self).value@ == old(self).value@.insert(a.attribute.ident, value@),
                r is Err ==> final(self).value@ == old(self).value@,
    { unimplemented!() }
}
impl XmlAttr {
    #[verifier::external_body]
    pub fn name(&self) -> (r: String) ensures r@ == name_of(self.attribute.ident) { unimplemented!() }
    #[verifier::external_body]
    pub fn clone(&self) -> (r: XmlAttr) ensures r == *self { unimplemented!() }
}
// Rc::ptr_eq on two handles: the same item
#[verifier::external_body]
pub fn same_elem(a: &ElemH, b: &ElemH) -> (r: bool) ensures r == (a.ident == b.ident) { unimplemented!() }
#[verifier::external_body]
pub fn same_attr(a: &AttrH, b: &AttrH) -> (r: bool) ensures r == (a.ident == b.ident) { unimplemented!() }
// .and_then(|v| v.as_attribute()) then .map(XmlAttr::from): the removed item as a DOM attribute
#[verifier::external_body]
pub fn item_as_attr(v: Option<ItemRef>) -> (r: Option<XmlAttr>)
    ensures r is Some <==> v is Some, r is Some ==> r->Some_0.attribute.ident == v->Some_0.ident,
{ unimplemented!() }

// first_named: the lemmas the proofs below use
pub proof fn lemma_first_named(s: Seq<usize>, name: Seq<char>)
    ensures ({ let i = first_named(s, name); -1 <= i < s.len() && (i >= 0 ==> name_of(s[i]) == name && (forall|j: int| 0 <= j < i ==> name_of(#[trigger] s[j]) != name)) && (i < 0 ==> forall|j: int| 0 <= j < s.len() ==> name_of(#[trigger] s[j]) != name) }),
    decreases s.len(),
{
    if s.len() > 0 && name_of(s[0]) != name {
        let t = s.subrange(1, s.len() as int);
        lemma_first_named(t, name);
        let r = first_named(t, name);
        assert forall|j: int| 0 <= j < s.len() && (r < 0 || j < r + 1) implies name_of(#[trigger] s[j]) != name by { if j > 0 { assert(s[j] == t[j - 1]); } }
        if r >= 0 { assert(t[r] == s[r + 1]); }
    }
}

impl XmlElement {
    //@@ remove_attribute

    //@@ set_attribute_node

    //@@ remove_attribute_node

    //@@ set_attribute
}

} // verus!
impl std::fmt::Debug for error::Error { fn fmt(&self, f: &mut std::fmt::Formatter<'_>) -> std::fmt::Result { write!(f, "Error") } }
fn main() {}
'''

OWNER = 'impl ElementMut for XmlElement'
SIG = [Rule('R43', r'\(&self', '(&self, world: &mut World', 'the shared document state reached through Rc<RefCell<..>>: made an explicit parameter'), Rule('R12', r'^fn ', 'pub fn ', 'visibility (no runtime meaning)')]
R_ERR = Rule('R16', r'return Err\((error::DomException::\w+)\)\?;', r'return Err(error::Error::Dom(\1));', '`return Err(x)?` desugared by hand (definition of `?` with From<DomException>)')
R_ERR2 = Rule('R16', r'Err\((error::DomException::\w+)\)\?', r'Err(error::Error::Dom(\1))', 'the same as the value of an arm')
KEEP_NL = lambda text: (lambda m: text + '\n' * m.group(0).count('\n'))
ME = 'self.element.ident'
FRAME = (f'forall|x: usize| x != {ME} ==> #[trigger] final(world).list(x) == old(world).list(x)')


def build():
    P = ['C13']
    fns = {}
    fns['remove_attribute'] = Fn(
        FD, OWNER, 'remove_attribute', props=P, safety_props=P, label='dom::XmlElement::remove_attribute', sig_rules=SIG,
        rules=[Rule('R43', r'self\.element\.borrow_mut\(\)\.remove_attribute\(name\);', 'let __gone = world.remove_attribute(&self.element, name);', 'RefCell borrow dropped (A4); the primitive edits the shared world')],
        requires=[('the_attributes_of_an_element_are_pairwise_different_items', f'old(world).list({ME}).no_duplicates()')],
        ensures=[('C13:never_fails', 'r is Ok'),
                 ('C13:the_first_attribute_of_that_name_is_removed_and_loses_its_owner_nothing_else_changes',
                  f'({{ let l = old(world).list({ME}); let i = first_named(l, name@); final(world).value@ == old(world).value@'
                  f' && (i < 0 ==> final(world).attrs@ == old(world).attrs@ && final(world).owner@ == old(world).owner@)'
                  f' && (i >= 0 ==> final(world).attrs@ == old(world).attrs@.insert({ME}, l.remove(i)) && final(world).owner@ == old(world).owner@.insert(l[i], None)) }})')])
    fns['set_attribute_node'] = Fn(
        FD, OWNER, 'set_attribute_node', props=P, safety_props=P, label='dom::XmlElement::set_attribute_node', sig_rules=SIG,
        rules=[R_ERR,
               Rule('R43', r'self\.owner_document\(\) != new_attr\.owner_document\(\)', 'world.documents_differ(self, &new_attr)', 'PartialEq of dom::XmlDocument (identity of the document, aecd8b7) -> assumed callee'),
               Rule('R43', r'new_attr\.attribute\.borrow\(\)\.owner_element\(\)', 'world.owner_element(&new_attr.attribute)', 'RefCell borrow dropped (A4); the owner link lives in the shared world'),
               Rule('R48', r'!Rc::ptr_eq\(&owner, &self\.element\)', '!same_elem(&owner, &self.element)', 'Rc::ptr_eq on two handles -> the same item'),
               Rule('R43', r'let attr = self\s*\.element\s*\.borrow_mut\(\)\s*\.remove_attribute\(new_attr\.name\(\)\.as_str\(\)\)\s*\.and_then\(\|v\| v\.as_attribute\(\)\);',
                    KEEP_NL('let __name = new_attr.name(); let attr = item_as_attr(world.remove_attribute(&self.element, __name.as_str()));'),
                    'RefCell borrow dropped (A4); Option::and_then(as_attribute) + the later map(XmlAttr::from) -> one shim: the removed item as a DOM attribute'),
               Rule('R43', r'self\.element\s*\.borrow_mut\(\)\s*\.append_attribute\(Rc::new\(new_attr\.attribute\.into\(\)\)\);', KEEP_NL('world.append_attribute(&self.element, new_attr.attribute);'), 'RefCell borrow dropped (A4); Rc::new(handle.into()) is the item of the handle'),
               Rule('R48', r'Ok\(attr\.map\(XmlAttr::from\)\)', 'Ok(attr)', 'see item_as_attr above')],
        requires=[('an_attribute_is_listed_by_exactly_its_owner', 'old(world).wf()'), ('the_attributes_of_an_element_are_pairwise_different_items', f'old(world).list({ME}).no_duplicates()')],
        inject=[(r'let __name = new_attr\.name\(\);', f'proof {{ lemma_first_named(old(world).list({ME}), name_of(new_attr.attribute.ident)); }}', 'before'),
                (r'world\.append_attribute\(&self\.element, new_attr\.attribute\);',
                 f'proof {{ let l = old(world).list({ME}); let a = new_attr.attribute.ident; let i = first_named(l, name_of(a));'
                 f' assert(old(world).list({ME}).contains(a) <==> old(world).own(a) == Some({ME})); assert(!l.contains(a));'
                 f' if i >= 0 {{ assert(l.contains(l[i])); assert(l[i] != a); }} }}', 'before')],
        ensures=[('C13:an_attribute_of_another_document_is_refused_and_nothing_changes',
                  f'doc_of({ME}) != doc_of(new_attr.attribute.ident) ==> r is Err && r->Err_0 == error::Error::Dom(error::DomException::WrongDocumentErr) && final(world).unchanged(*old(world))'),
                 ('C13:an_attribute_in_use_by_another_element_is_refused_and_nothing_changes',
                  f'doc_of({ME}) == doc_of(new_attr.attribute.ident) && old(world).own(new_attr.attribute.ident) is Some && old(world).own(new_attr.attribute.ident) != Some({ME})'
                  f' ==> r is Err && r->Err_0 == error::Error::Dom(error::DomException::InuseAttributeErr) && final(world).unchanged(*old(world))'),
                 ('C13:an_attribute_of_this_element_changes_nothing',
                  f'doc_of({ME}) == doc_of(new_attr.attribute.ident) && old(world).own(new_attr.attribute.ident) == Some({ME}) ==> r is Ok && final(world).unchanged(*old(world))'),
                 ('C13:a_free_attribute_replaces_the_one_of_its_name_and_belongs_to_this_element',
                  f'doc_of({ME}) == doc_of(new_attr.attribute.ident) && old(world).own(new_attr.attribute.ident) is None ==> r is Ok && ({{'
                  f' let l = old(world).list({ME}); let i = first_named(l, name_of(new_attr.attribute.ident)); let rest = if i >= 0 {{ l.remove(i) }} else {{ l }};'
                  f' final(world).list({ME}) == rest.push(new_attr.attribute.ident) && final(world).own(new_attr.attribute.ident) == Some({ME})'
                  f' && (i >= 0 ==> r->Ok_0 is Some && r->Ok_0->Some_0.attribute.ident == l[i] && final(world).own(l[i]) is None) && (i < 0 ==> r->Ok_0 is None) }})'),
                 ('C13:no_other_element_and_no_value_changes', f'final(world).value@ == old(world).value@ && ({FRAME})')])
    fns['remove_attribute_node'] = Fn(
        FD, OWNER, 'remove_attribute_node', props=P, safety_props=P, label='dom::XmlElement::remove_attribute_node', sig_rules=SIG,
        rules=[Rule('R50', r'match (self\.get_attribute_node\(old_attr\.name\(\)\.as_str\(\)\)) \{\s*Some\(attr\) if ([^\n]*?) => \{(.*?)\n            \}\s*_ => ([^\n]*?),\s*\}',
                    lambda m: ('let __m = ' + m.group(1) + '; let __hit = match &__m { Some(attr) => ' + m.group(2) + ', None => false }; if __hit { let attr = __m.unwrap();' + m.group(3) + '\n            } else { ' + m.group(4) + ' }'),
                    'a match with ONE guarded arm and a wildcard, desugared by the definition of a guard (if the pattern matches and the guard holds: the arm, else the wildcard arm): '
                    'Verus 0.2026.09.13 loses the final value of a &mut parameter across a guarded arm'),
               Rule('R43', r'let __m = self\.get_attribute_node\(old_attr\.name\(\)\.as_str\(\)\);', 'let __name = old_attr.name(); let __m = world.get_attribute_node(self, __name.as_str());', 'lookup through the shared world; named temporary'),
               Rule('R48', r'Rc::ptr_eq\(&attr\.attribute, &old_attr\.attribute\)', 'same_attr(&attr.attribute, &old_attr.attribute)', 'Rc::ptr_eq on two handles -> the same item'),
               Rule('R43', r'self\.remove_attribute\(old_attr\.name\(\)\.as_str\(\)\)\?;', 'self.remove_attribute(world, __name.as_str())?;', 'the world parameter is handed on'),
               R_ERR2],
        requires=[('an_attribute_is_listed_by_exactly_its_owner', 'old(world).wf()'), ('the_attributes_of_an_element_are_pairwise_different_items', f'old(world).list({ME}).no_duplicates()'),
                  ('attributes_are_identified_by_their_local_name', f'names_unique(old(world).list({ME}))')],
        inject=[(r'let __name = old_attr\.name\(\); let __m',
                 f'proof {{ let l = old(world).list({ME}); let a = old_attr.attribute.ident; let i = first_named(l, name_of(a)); lemma_first_named(l, name_of(a));'
                 f' assert(old(world).list({ME}).contains(a) <==> old(world).own(a) == Some({ME}));'
                 f' if i >= 0 {{ assert(l.contains(l[i])); }}'
                 f' if l.contains(a) {{ let k = choose|k: int| 0 <= k < l.len() && l[k] == a; assert(i >= 0); if i < k {{ assert(name_of(l[i]) != name_of(l[k])); }} if k < i {{ assert(name_of(l[k]) != name_of(l[i])); }} assert(i == k); '
                 f' assert(!l.remove(i).contains(a)) by {{ assert forall|j: int| 0 <= j < l.remove(i).len() implies l.remove(i)[j] != a by {{ if j < i {{ assert(l.remove(i)[j] == l[j]); assert(name_of(l[j]) != name_of(l[i])); }} else {{ assert(l.remove(i)[j] == l[j + 1]); assert(name_of(l[i]) != name_of(l[j + 1])); }} }} }} }} }}', 'before')],
        ensures=[('C13:a_node_that_is_not_an_attribute_of_this_element_is_not_found_and_nothing_changes',
                  f'old(world).own(old_attr.attribute.ident) != Some({ME}) ==> r is Err && r->Err_0 == error::Error::Dom(error::DomException::NotFoundErr) && final(world).unchanged(*old(world))'),
                 ('C13:an_attribute_of_this_element_is_removed_answered_and_loses_its_owner',
                  f'old(world).own(old_attr.attribute.ident) == Some({ME}) ==> r is Ok && r->Ok_0.attribute.ident == old_attr.attribute.ident && final(world).own(old_attr.attribute.ident) is None'
                  f' && !final(world).list({ME}).contains(old_attr.attribute.ident) && final(world).list({ME}).len() == old(world).list({ME}).len() - 1'),
                 ('C13:no_other_element_and_no_value_changes', f'final(world).value@ == old(world).value@ && ({FRAME})')])
    fns['set_attribute'] = Fn(
        FD, OWNER, 'set_attribute', props=P, safety_props=P, label='dom::XmlElement::set_attribute', sig_rules=SIG,
        rules=[Rule('R43', r'if let Some\(attr\) = self\.get_attribute_node\(name\) \{', 'if let Some(attr) = world.get_attribute_node(self, name) {', 'lookup through the shared world'),
               Rule('R43', r'return attr\.set_value\(value\);', 'return world.set_value(&attr, value);', 'the value lives in the shared world'),
               Rule('R43', r'let attr = self\.owner_document\(\)\.unwrap\(\)\.create_attribute\(name\)\?;', 'let attr = world.create_attribute(self, name)?;', 'owner_document().unwrap().create_attribute -> assumed callee (an element always has an owner document)'),
               Rule('R43', r'attr\.set_value\(value\)\?;', 'world.set_value(&attr, value)?;', 'the value lives in the shared world'),
               Rule('R43', r'self\.set_attribute_node\(attr\)\?;', 'let __r = self.set_attribute_node(world, attr)?;', 'the world parameter is handed on')],
        requires=[('an_attribute_is_listed_by_exactly_its_owner', 'old(world).wf()'), ('the_attributes_of_an_element_are_pairwise_different_items', f'old(world).list({ME}).no_duplicates()')],
        inject=[(r'if let Some\(attr\) = world\.get_attribute_node', f'proof {{ lemma_first_named(old(world).list({ME}), name@); }}', 'before'),
                (r'let __r = self\.set_attribute_node\(world, attr\)\?;',
                 'proof { assert(world.attrs@ == old(world).attrs@ && world.owner@ == old(world).owner@);'
                 ' assert forall|e: usize, a: usize| (#[trigger] world.list(e).contains(a)) <==> world.own(a) == Some(e) by { assert(world.list(e) == old(world).list(e)); assert(world.own(a) == old(world).own(a)); assert(old(world).list(e).contains(a) <==> old(world).own(a) == Some(e)); } }', 'before')],
        ensures=[('C13:an_existing_attribute_keeps_its_node_and_gets_the_value',
                  f'({{ let l = old(world).list({ME}); let i = first_named(l, name@); i >= 0 ==> final(world).attrs@ == old(world).attrs@ && final(world).owner@ == old(world).owner@'
                  f' && (r is Ok ==> final(world).value@ == old(world).value@.insert(l[i], value@)) && (r is Err ==> final(world).value@ == old(world).value@) }})'),
                 ('C13:otherwise_a_new_attribute_of_that_name_and_value_is_appended_or_nothing_changes',
                  f'({{ let l = old(world).list({ME}); first_named(l, name@) < 0 ==> (r is Err ==> final(world).attrs@ == old(world).attrs@ && final(world).owner@ == old(world).owner@)'
                  f' && (r is Ok ==> final(world).list({ME}).len() == l.len() + 1 && final(world).list({ME}).drop_last() == l && name_of(final(world).list({ME}).last()) == name@'
                  f' && final(world).own(final(world).list({ME}).last()) == Some({ME}) && final(world).value@[final(world).list({ME}).last()] == value@) }})'),
                 ('C13:no_other_element_changes', FRAME)])
    return ENV, fns


TEMPLATE, FNS = build()
UNIT = dict(name='c13_attrs', template=TEMPLATE, fns=FNS, props=['C13'],
            callee_links={'remove_attribute': [('c13_tree', 'XmlElement::remove_attribute/post:' + l) for l in (
                'C13+C12:no_attribute_of_that_name_nothing_changes', 'C13+C12:the_first_attribute_of_that_name_is_answered_leaves_the_list_and_loses_its_owner')]})
