"""Private helpers of info/src/lib.rs: character references (C02),
white-space normalisation and QName equality (C11), quote selection (C04).

Clause labels carry the property they belong to (`Cxx:label`); the safety obligation of each function
(overflow, std panic conditions carried by the shims) belongs to the function's `safety_props`."""
from vf.unit import Fn, Rule
from units.c18_xmlchar import ranges_spec, SPEC

PRELUDE = '''use vstd::prelude::*;
verus! {

pub mod error {
    use vstd::prelude::*;
    // info/src/error.rs, variants only (the payloads are never inspected by the extracted bodies)
    pub enum Error {
        IsolatedNode,
        InvalidData(String),
        InvalidHierarchy,
        InvalidType,
        NotFoundDoumentElement,
        NotFoundReference(String),
        OufOfIndex(usize),
        Parse(String),
    }
    pub type Result<T> = core::result::Result<T, Error>;
}

''' + ranges_spec('p2_char', SPEC['p2_char']) + '''
pub open spec fn min_int(a: int, b: int) -> int { if a < b { a } else { b } }

// ---- std shims (A2): body = the original std expression, contract = its documented behaviour ----
#[verifier::external_body]
pub fn shim_chars_vec(s: &str) -> (r: Vec<char>)
    ensures r@ == s@,
{
    s.chars().collect::<Vec<char>>()
}

#[verifier::external_body]
pub fn shim_string_of(v: &Vec<char>) -> (r: String)
    ensures r@ == v@,
{
    v.iter().collect()
}

// Vec::drain(a..b) panics unless a <= b <= len: the panic condition is the shim's precondition
#[verifier::external_body]
pub fn shim_drain(v: &mut Vec<char>, a: usize, b: usize)
    requires a <= b, b <= old(v)@.len(),
    ensures final(v)@ == old(v)@.subrange(0, a as int) + old(v)@.subrange(b as int, old(v)@.len() as int),
{
    v.drain(a..b);
}

#[verifier::external_body]
pub fn shim_to_string(s: &str) -> (r: String)
    ensures r@ == s@,
{
    s.to_string()
}

// format!("#{}", value) / format!("#x{}", value): error-message payloads, never inspected
#[verifier::external_body]
pub fn shim_format_msg(prefix: &str, value: &str) -> (r: String)
{
    format!("{}{}", prefix, value)
}

// format!("'{}'", v) / format!("\\"{}\\"", v): one quote character on each side of v
#[verifier::external_body]
pub fn shim_format_quoted(q: char, value: &str) -> (r: String)
    ensures r@ == seq![q] + value@ + seq![q],
{
    format!("{}{}{}", q, value, q)
}

#[verifier::external_body]
pub fn shim_contains_dquote(value: &str) -> (r: bool)
    ensures r == value@.contains('"'),
{
    value.contains("\\"")
}

// str::parse::<u32>() / u32::from_str_radix(_, 16): the digits-to-number function is std's and stays
// uninterpreted (`spec_parse`); what this repository does with the number is what is verified
pub uninterp spec fn spec_parse(s: Seq<char>, radix: int) -> Option<u32>;

#[verifier::external_body]
pub fn shim_parse_u32(value: &str, radix: u32) -> (r: core::result::Result<u32, ()>)
    ensures
        r is Ok == spec_parse(value@, radix as int).is_some(),
        r is Ok ==> spec_parse(value@, radix as int) == Some(r->Ok_0),
{
    u32::from_str_radix(value, radix).map_err(|_e| ())
}

pub assume_specification [char::from_u32] (i: u32) -> (r: Option<char>)
    ensures
        r is Some == (i <= 0xD7FF || (0xE000 <= i && i <= 0x10FFFF)),
        r is Some ==> r->Some_0 as u32 == i;

pub assume_specification [char::from_u32_unchecked] (i: u32) -> (r: char)
    requires i <= 0xD7FF || (0xE000 <= i && i <= 0x10FFFF),
    ensures r as u32 == i;

// String::replace(char, " "): pointwise map over the characters
pub open spec fn replaced(s: Seq<char>, c: char) -> Seq<char> {
    Seq::new(s.len(), |i: int| if s[i] == c { ' ' } else { s[i] })
}

#[verifier::external_body]
pub fn shim_replace_char(v: &String, c: char) -> (r: String)
    ensures r@ == replaced(v@, c),
{
    v.replace(c, " ")
}

pub open spec fn is_xml_ws(c: char) -> bool { c == ' ' || c == '\\t' || c == '\\n' || c == '\\r' }

pub open spec fn ws_normalized(s: Seq<char>) -> Seq<char> {
    Seq::new(s.len(), |i: int| if is_xml_ws(s[i]) { ' ' } else { s[i] })
}

// ---- extracted from /repo/nom/src/xmlchar.rs (callee of the character-reference helpers; same contract as in C18) ----
pub mod xml_nom {
    pub mod xmlchar {
        use vstd::prelude::*;
        use crate::p2_char;
        //@@ is_char
    }
    // nom/src/model.rs (real fields)
    pub mod model {
        pub struct PrefixedName<'a> {
            pub prefix: &'a str,
            pub local_part: &'a str,
        }
        pub enum QName<'a> {
            Prefixed(PrefixedName<'a>),
            Unprefixed(&'a str),
        }
    }
}

// ---- extracted from /repo/info/src/lib.rs ----

//@@ char_from_char10

//@@ char_from_char16

//@@ normalize_ws

//@@ escape

// &str == &str: equality of the character sequences
#[verifier::external_body]
pub fn shim_str_eq(a: &str, b: &str) -> (r: bool)
    ensures r == (a@ == b@),
{
    a == b
}

//@@ equal_qname

} // verus!
fn main() {}
'''

F = 'info/src/lib.rs'

R_TOSTR = Rule('R6', r'\bnew\.to_string\(\)', 'shim_to_string(new)', 'str::to_string -> shim with contract r@ == s@')
R_VTOSTR = Rule('R6', r'\bvalue\.to_string\(\)', 'shim_to_string(value)', 'str::to_string -> shim with contract r@ == s@')
R_FMT10 = Rule('R6', r'format!\("#\{\}", value\)', 'shim_format_msg("#", value)', 'format! of an error message -> unconstrained shim')
R_FMT16 = Rule('R6', r'format!\("#x\{\}", value\)', 'shim_format_msg("#x", value)', 'format! of an error message -> unconstrained shim')
R_PARSE10 = Rule('R7', r'value\s*\.parse::<u32>\(\)', 'shim_parse_u32(value, 10)', 'str::parse::<u32> -> shim over uninterpreted spec_parse')
R_PARSE16 = Rule('R7', r'u32::from_str_radix\(value, 16\)', 'shim_parse_u32(value, 16)', 'u32::from_str_radix -> shim over uninterpreted spec_parse')
R_REPLACE = Rule('R9', r'v\.replace\((char::from_u32_unchecked\(0x[0-9A-Fa-f]+\)), " "\)', r'shim_replace_char(&v, \1)',
                 'String::replace(char, " ") -> shim with the pointwise-map contract')
R_CONTAINS = Rule('R8', r'value\.contains\("\\""\)', 'shim_contains_dquote(value)', 'str::contains("\\"") -> shim')
R_FMTQ1 = Rule('R6', r'''format!\("'\{\}'", value\)''', "shim_format_quoted('\\'', value)", 'format! with one quote on each side -> shim')
R_FMTQ2 = Rule('R6', r'format!\("\\"\{\}\\"", value\)', "shim_format_quoted('\"', value)", 'format! with one quote on each side -> shim')

SPLICED = 'value@.subrange(0, min_int(offset as int, value@.len() as int)) + new@ + value@.subrange(min_int(offset as int, value@.len() as int), value@.len() as int)'

FNS = {
    'is_char': Fn('nom/src/xmlchar.rs', None, 'is_char', props=['C02'], safety_props=['C02'],
                  sig_rules=[Rule('R12', r'^fn ', 'pub fn ', 'visibility restored inside the environment module (no runtime meaning)')],
                  ensures=[('C02:matches_production_2', 'r == p2_char(value as u32)')]),
    'char_from_char10': Fn(
        F, None, 'char_from_char10', props=['C02'], safety_props=['C02'],
        ensures=[('C02:denotes_parsed_number', 'r is Ok ==> spec_parse(value@, 10) == Some(r->Ok_0 as u32)'),
                 ('C02:legal_character', 'r is Ok ==> p2_char(r->Ok_0 as u32)'),
                 ('C02:unparsable_rejected', 'spec_parse(value@, 10).is_none() ==> r is Err'),
                 ('C02:accepts_legal', '(spec_parse(value@, 10).is_some() && p2_char(spec_parse(value@, 10).unwrap())) ==> r is Ok')],
        rules=[R_PARSE10, R_FMT10]),
    'char_from_char16': Fn(
        F, None, 'char_from_char16', props=['C02'], safety_props=['C02'],
        ensures=[('C02:denotes_parsed_number', 'r is Ok ==> spec_parse(value@, 16) == Some(r->Ok_0 as u32)'),
                 ('C02:legal_character', 'r is Ok ==> p2_char(r->Ok_0 as u32)'),
                 ('C02:unparsable_rejected', 'spec_parse(value@, 16).is_none() ==> r is Err'),
                 ('C02:accepts_legal', '(spec_parse(value@, 16).is_some() && p2_char(spec_parse(value@, 16).unwrap())) ==> r is Ok')],
        rules=[R_PARSE16, R_FMT16]),
    'normalize_ws': Fn(
        F, None, 'normalize_ws', props=['C11'], safety_props=['C11'],
        ensures=[('C11:same_length', 'r@.len() == value@.len()'),
                 ('C11:ws_to_space_pointwise', 'r@ =~= ws_normalized(value@)')],
        rules=[R_VTOSTR, R_REPLACE]),
    'escape': Fn(
        F, None, 'escape', props=['C04'], safety_props=['C04'],
        ensures=[('C04:quoted_literal_rereads_as_value',
                  "!(value@.contains('\"') && value@.contains('\\'')) ==> "
                  "((r@ == seq!['\"'] + value@ + seq!['\"'] && !value@.contains('\"')) || "
                  "(r@ == seq!['\\''] + value@ + seq!['\\''] && !value@.contains('\\'')))")],
        rules=[R_CONTAINS, R_FMTQ1, R_FMTQ2]),
}

FNS['equal_qname'] = Fn(
    F, None, 'equal_qname', props=['C11'], safety_props=['C11'],
    rules=[Rule('R39', r'a\.prefix == b\.prefix && a\.local_part == b\.local_part', 'shim_str_eq(a.prefix, b.prefix) && shim_str_eq(a.local_part, b.local_part)', '&str == &str -> shim comparing the character sequences'),
           Rule('R39', r'=> a == b,', '=> shim_str_eq(a, b),', 'same')],
    ensures=[('C11:same_spelling_of_prefix_and_local_part',
              'r == (match (a, b) {'
              ' (xml_nom::model::QName::Prefixed(x), xml_nom::model::QName::Prefixed(y)) => x.prefix@ == y.prefix@ && x.local_part@ == y.local_part@,'
              ' (xml_nom::model::QName::Unprefixed(x), xml_nom::model::QName::Unprefixed(y)) => x@ == y@,'
              ' _ => false })')])

UNIT = dict(name='info_helpers', template=PRELUDE, fns=FNS, props=[])
