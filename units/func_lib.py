"""The XPath core function library, xpath/src/eval/func.rs: every function of `func::table()` that the other units do not
already extract (string_length, substring, translate, id: units/func_strings.py).  Serves C06 (no panic site is reachable,
for every argument vector the function table lets through) and a few functional clauses of C05.

The precondition of each function -- how many arguments it may assume -- is NOT written by hand: it is read from the
entry of `func::table()` that points to the function (`args: (min..max)`), on every run.  `eval_func_expr`
(units/eval_ctx.py) is verified to call `Entry::exec` only with min <= args.len() <= max.  So an `unwrap()` on an
argument the table does not guarantee fails here as a callee-precondition obligation.

Assumed callees: the conversions `String / f64 / bool ::try_from(&Value)` (model.rs; uninterpreted functions of the value),
`as_expanded_name`, the DOM accessors used by lang(), and the std string methods by their documented meaning."""
import os
import re

from vf.unit import Fn, Rule
from vf import unit as U, rustscan

FF = 'xpath/src/eval/func.rs'

ENV = r'''use vstd::prelude::*;
verus! {

pub mod dom {
    use vstd::prelude::*;
    pub struct XmlElement { pub h: usize }
    pub struct XmlAttr { pub h: usize }
    pub struct Other { pub h: usize }
    // dom::XmlNode: lang() distinguishes element and attribute nodes from all others
    pub enum XmlNode { Element(XmlElement), Attribute(XmlAttr), NotElement(Other) }
    // the DOM as lang() reads it (uninterpreted): parent_node(), the element of an attribute, the xml:lang attribute an element
    // carries, and a termination measure (distance from the root)
    pub uninterp spec fn dom_parent_of(n: XmlNode) -> Option<XmlNode>;
    pub uninterp spec fn owner_of(a: XmlAttr) -> Option<XmlElement>;
    pub uninterp spec fn lang_attr_of(e: XmlElement) -> Option<XmlAttr>;
    pub uninterp spec fn attr_value_of(a: XmlAttr) -> Seq<char>;
    pub uninterp spec fn depth(n: XmlNode) -> nat;
    pub struct DomError { pub h: usize }
    impl XmlNode {
        // AsExpandedName: (local part, prefix, namespace URI) of element / attribute / PI / namespace nodes, None otherwise
        #[verifier::external_body]
        pub fn as_expanded_name(&self) -> (r: core::result::Result<Option<(String, Option<String>, Option<String>)>, crate::error::Error>) { unimplemented!() }
        #[verifier::external_body]
        pub fn clone(&self) -> (r: XmlNode) ensures r == *self { unimplemented!() }
        #[verifier::external_body]
        pub fn parent_node(&self) -> (r: Option<XmlNode>) ensures r == dom_parent_of(*self) { unimplemented!() }
    }
    impl XmlElement {
        // element.attributes().and_then(|v| v.iter().find(is_xml_lang)): the xml:lang attribute, if the element carries one
        #[verifier::external_body]
        pub fn shim_lang_attribute(&self) -> (r: Option<XmlAttr>) ensures r == lang_attr_of(*self) { unimplemented!() }
        #[verifier::external_body]
        pub fn as_node(&self) -> (r: XmlNode) ensures r == XmlNode::Element(*self) { unimplemented!() }
    }
    impl XmlAttr {
        #[verifier::external_body]
        pub fn value(&self) -> (r: core::result::Result<String, crate::error::Error>) ensures r is Ok ==> r->Ok_0@ == attr_value_of(*self) { unimplemented!() }
    }
    // attr.owner_element().map(|v| v.as_node()): the element of the attribute, as a node
    #[verifier::external_body]
    pub fn shim_owner_node(a: &XmlAttr) -> (r: Option<XmlNode>)
        ensures r == (match owner_of(*a) { Some(e) => Some(XmlNode::Element(e)), None => None::<XmlNode> }),
    { unimplemented!() }
}
pub mod error {
    pub enum Error { Dom(usize), InvalidType, InvalidArgumentCount(String), NotFoundFunction(String), NotFoundNamespace(String), NotFoundVariable(String) }
    pub type Result<T> = core::result::Result<T, Error>;
}
pub mod model {
    use vstd::prelude::*;
    use crate::dom::XmlNode;
    pub struct Context { pub h: usize }
    pub enum Value {
        Boolean(bool),
        Node(Vec<XmlNode>),
        Number(f64),
        Text(String),
    }
    pub uninterp spec fn f64_of_nat(n: nat) -> f64;
    impl Context {
        #[verifier::external_body]
        pub fn get_size(&self) -> (r: usize) { unimplemented!() }
        #[verifier::external_body]
        pub fn get_position(&self) -> (r: usize) { unimplemented!() }
    }
    // AsValue for usize: `n as f64` wrapped in Value::Number
    #[verifier::external_body]
    pub fn usize_as_value(n: usize) -> (r: Value)
        ensures r is Number && r->Number_0 == f64_of_nat(n as nat),
    { unimplemented!() }
}

// ---- assumed callees: conversions of model.rs; what they return is an uninterpreted function of the value ----
pub uninterp spec fn string_of(v: model::Value) -> Seq<char>;
pub uninterp spec fn number_of(v: model::Value) -> f64;
pub uninterp spec fn boolean_of(v: model::Value) -> bool;
#[verifier::external_body]
pub fn value_to_string(v: &model::Value) -> (r: error::Result<String>)
    ensures r is Ok ==> r->Ok_0@ == string_of(*v),
{ unimplemented!() }
#[verifier::external_body]
pub fn value_to_number(v: &model::Value) -> (r: error::Result<f64>)
    ensures r is Ok ==> r->Ok_0 == number_of(*v),
{ unimplemented!() }
#[verifier::external_body]
pub fn value_to_boolean(v: &model::Value) -> (r: error::Result<bool>)
    ensures r is Ok ==> r->Ok_0 == boolean_of(*v),
{ unimplemented!() }

// &model::Value::Node(vec![node]) / &vec![node]: the context node as a one-element node-set (zero-argument forms)
#[verifier::external_body]
pub fn shim_node_value(node: dom::XmlNode) -> (r: model::Value)
    ensures r is Node && r->Node_0@ == seq![node],
{ unimplemented!() }
#[verifier::external_body]
pub fn shim_node_vec(node: dom::XmlNode) -> (r: Vec<dom::XmlNode>)
    ensures r@ == seq![node],
{ unimplemented!() }

// ---- std string methods, by their documented meaning (never panic) ----
pub open spec fn is_prefix(p: Seq<char>, s: Seq<char>) -> bool { p.len() <= s.len() && s.subrange(0, p.len() as int) == p }
pub open spec fn occurs_at(s: Seq<char>, p: Seq<char>, i: int) -> bool { 0 <= i && i + p.len() <= s.len() && s.subrange(i, i + p.len()) == p }
pub open spec fn occurs(s: Seq<char>, p: Seq<char>) -> bool { exists|i: int| occurs_at(s, p, i) }
#[verifier::external_body]
pub fn shim_starts_with(s: &String, p: &String) -> (r: bool)
    ensures r == is_prefix(p@, s@),
{ s.starts_with(p.as_str()) }
#[verifier::external_body]
pub fn shim_contains(s: &String, p: &String) -> (r: bool)
    ensures r == occurs(s@, p@),
{ s.contains(p.as_str()) }
// s1.split_once(&s2): the text before / after the FIRST occurrence; None when there is none
#[verifier::external_body]
pub fn shim_split_once(s: &String, p: &String) -> (r: Option<(String, String)>)
    ensures match r {
        Some((a, b)) => occurs_at(s@, p@, a@.len() as int) && s@ == a@ + p@ + b@ && (forall|j: int| 0 <= j < a@.len() ==> !occurs_at(s@, p@, j)),
        None => !occurs(s@, p@),
    },
{ s.split_once(p.as_str()).map(|v| (v.0.to_string(), v.1.to_string())) }
// ---- lang(): XPath 1.0 4.3 over the DOM as read above ----
pub uninterp spec fn lower(s: Seq<char>) -> Seq<char>;       // str::to_lowercase
#[verifier::external_body]
pub fn shim_lower(s: &String) -> (r: String) ensures r@ == lower(s@) { s.to_lowercase() }
// value.strip_prefix(name.as_str()): the rest behind the prefix, None when it is not one
#[verifier::external_body]
pub fn shim_strip_prefix(s: &String, p: &String) -> (r: Option<String>)
    ensures r is Some <==> is_prefix(p@, s@), r is Some ==> r->Some_0@ == s@.subrange(p@.len() as int, s@.len() as int),
{ s.strip_prefix(p.as_str()).map(|v| v.to_string()) }
// rest.is_empty() || rest.starts_with('-')
#[verifier::external_body]
pub fn shim_empty_or_dash(rest: &String) -> (r: bool)
    ensures r == (rest@.len() == 0 || rest@[0] == '-'),
{ rest.is_empty() || rest.starts_with('-') }
// the parent in the XPath data model: the element of an attribute, the DOM parent of any other node
pub open spec fn xp_parent(n: dom::XmlNode) -> Option<dom::XmlNode> {
    match n {
        dom::XmlNode::Attribute(a) => match dom::owner_of(a) { Some(e) => Some(dom::XmlNode::Element(e)), None => None },
        _ => dom::dom_parent_of(n),
    }
}
pub open spec fn lang_tree_ok() -> bool { forall|n: dom::XmlNode| (#[trigger] xp_parent(n)) is Some ==> dom::depth(xp_parent(n)->Some_0) < dom::depth(n) }
// "the value of the xml:lang attribute on the context node, or, if the context node has no xml:lang attribute, on the nearest
// ancestor of the context node that has one"
pub open spec fn language_of(n: dom::XmlNode) -> Option<Seq<char>>
    decreases dom::depth(n),
{
    if n is Element && dom::lang_attr_of(n->Element_0) is Some { Some(dom::attr_value_of(dom::lang_attr_of(n->Element_0)->Some_0)) }
    else { match xp_parent(n) { Some(p) => if dom::depth(p) < dom::depth(n) { language_of(p) } else { None }, None => None } }
}
// "equal to the argument ignoring case, or there is some suffix starting with - such that the attribute value is equal to the
// argument ignoring that suffix of the attribute value and ignoring case"
pub open spec fn lang_matches(value: Seq<char>, arg: Seq<char>) -> bool {
    let v = lower(value); let a = lower(arg);
    is_prefix(a, v) && (v.len() == a.len() || v[a.len() as int] == '-')
}

#[verifier::external_body]
pub fn shim_string_new() -> (r: String)
    ensures r@ == Seq::<char>::empty(),
{ String::new() }
#[verifier::external_body]
pub fn shim_push_str(s: &mut String, t: &String)
    ensures final(s)@ == old(s)@ + t@,
{ s.push_str(t) }
#[verifier::external_body]
pub fn shim_string_eq(a: &String, b: &String) -> (r: bool)
    ensures r == (a@ == b@),
{ a == b }
#[verifier::external_body]
pub fn shim_str_is(a: &String, b: &str) -> (r: bool)
    ensures r == (a@ == b@),
{ a == b }
#[verifier::external_body]
pub fn shim_format_qname(prefix: &String, local: &String) -> (r: String)
    ensures r@ == prefix@ + seq![':'] + local@,
{ format!("{}:{}", prefix, local) }
// r.split_whitespace().collect::<Vec<&str>>().join(" "): unconstrained here
#[verifier::external_body]
pub fn shim_normalize_space(s: &String) -> (r: String)
{ s.split_whitespace().collect::<Vec<&str>>().join(" ") }

// ---- f64: no float arithmetic in Verus; results are uninterpreted (scalar semantics: Kani, kani/src/c09.rs) ----
pub uninterp spec fn f64_floor(x: f64) -> f64;
pub uninterp spec fn f64_ceil(x: f64) -> f64;
pub uninterp spec fn f64_add(x: f64, y: f64) -> f64;
pub uninterp spec fn f64_round_xpath(x: f64) -> f64;
#[verifier::external_body]
pub fn shim_floor(x: f64) -> (r: f64) ensures r == f64_floor(x) { x.floor() }
#[verifier::external_body]
pub fn shim_ceil(x: f64) -> (r: f64) ensures r == f64_ceil(x) { x.ceil() }
#[verifier::external_body]
pub fn shim_add(x: f64, y: f64) -> (r: f64) ensures r == f64_add(x, y) { x + y }
#[verifier::external_body]
pub fn shim_zero() -> (r: f64) { 0f64 }
// xpath_round: verified by Kani for every f64 (kani/src/c09.rs)
#[verifier::external_body]
pub fn xpath_round(arg: f64) -> (r: f64) ensures r == f64_round_xpath(arg) { unimplemented!() }

@SLOTS@

} // verus!
fn main() {}
'''

R_TOSTRING = Rule('R19', r'String::try_from\(', 'value_to_string(', '`String::try_from(&Value)` (TryFrom impl of model.rs) -> assumed callee')
R_TONUMBER = Rule('R19', r'f64::try_from\(', 'value_to_number(', '`f64::try_from(&Value)` -> assumed callee')
R_TOBOOL = Rule('R19', r'bool::try_from\(', 'value_to_boolean(', '`bool::try_from(&Value)` -> assumed callee')
R_UNUSED = Rule('R10', r'\b_: (?:(Vec<model::Value>)|(dom::XmlNode)|(&mut model::Context))',
                lambda m: ('args: ' + m.group(1)) if m.group(1) else ('_node: ' + m.group(2)) if m.group(2) else ('_context: ' + m.group(3)), 'wildcard parameter gets a name (no runtime meaning)')
R_NODEARG = Rule('R36', r'let arg = if let Some\(arg\) = args\.first\(\) \{\s*arg\s*\} else \{\s*&model::Value::Node\(vec!\[node\]\)\s*\};',
                 lambda m: 'let __ctx_node = shim_node_value(node); let arg = if let Some(arg) = args.first() { arg } else { &__ctx_node };' + '\n' * m.group(0).count('\n'),
                 'reference to a temporary `&Value::Node(vec![node])` -> a named local holding the same value (Verus rejects the temporary borrow)')
R_NODEVEC = Rule('R36', r'let arg = if let Some\(arg\) = args\.first\(\) \{', 'let __ctx_vec = shim_node_vec(node); let arg = if let Some(arg) = args.first() {', 'named local for the temporary below')
R_NODEVEC2 = Rule('R36', r'&vec!\[node\]', '&__ctx_vec', 'reference to a temporary `&vec![node]` -> the named local holding the same value')
R_ASVALUE = Rule('R22', r'(context\.get_size\(\)|context\.get_position\(\)|n\.len\(\))\.as_value\(\)', r'model::usize_as_value(\1)', 'AsValue for usize (`n as f64`): Verus has no float casts')
R_UNWRAP_DEFAULT = Rule('R48', r'uri\.unwrap_or_default\(\)', 'shim_unwrap_or_default(uri)', 'Option<String>::unwrap_or_default -> shim')


def table_arities(repo):
    """func::table(): function identifier -> (min, max) of its `args: (min..max)` entry; read from the source on every run."""
    src = open(os.path.join(repo, FF)).read()
    try:
        item = rustscan.find_fn(src, FF, None, 'table')
    except Exception as e:
        raise rustscan.ScanError(f'lost anchor: func::table ({e})')
    body = '\n'.join(src.split('\n')[item.start_line - 1:item.end_line])
    out = {}
    for m in re.finditer(r'Entry \{\s*local_part: "([^"]+)"\.to_string\(\),\s*namespace_uri: None,\s*args: \((\d+)\.\.(\d+|usize::MAX)\),\s*call: Box::new\((\w+)\),\s*\}', body):
        name, lo, hi, f = m.groups()
        out[f] = (int(lo), None if hi == 'usize::MAX' else int(hi), name)
    n_entries = len(re.findall(r'\bEntry \{', body))
    if n_entries != len(out) or not out:
        raise rustscan.ScanError(f'lost anchor: func::table has {n_entries} entries, {len(out)} were understood')
    return out


def arity_req(ar):
    lo, hi, name = ar
    if hi is None:
        return ('arity_from_the_function_table', f'args@.len() >= {lo}')
    return ('arity_from_the_function_table', f'{lo} <= args@.len() <= {hi}')


def build(repo=None):
    repo = repo or U.REPO
    ar = table_arities(repo)
    fns = {}
    C6 = ['C06']

    def add(name, rules=(), ensures=(), loops=None, inject=(), attrs=(), props=None, label=None, requires_extra=()):
        if name not in ar:
            raise rustscan.ScanError(f'lost anchor: func::table has no entry calling `{name}`')
        fns[name] = Fn(FF, None, name, props=props or C6, safety_props=C6, label=label or f'xpath::func::{name}', sig_rules=[R_UNUSED],
                       rules=list(rules), requires=[arity_req(ar[name])] + list(requires_extra), ensures=list(ensures), loops=loops, inject=list(inject), attrs=list(attrs))

    C5 = ['C05', 'C06']
    add('last', [R_ASVALUE])
    add('position', [R_ASVALUE])
    add('count', [R_ASVALUE], props=C5,
        ensures=[('C05:counts_the_nodes_of_the_argument', 'args@[0] is Node ==> r is Ok && r->Ok_0 is Number && r->Ok_0->Number_0 == model::f64_of_nat(args@[0]->Node_0@.len())'),
                 ('C05:anything_else_is_a_type_error', '!(args@[0] is Node) ==> r is Err')])
    for f in ('local_name', 'namespace_uri', 'name'):
        add(f, [R_NODEVEC, R_NODEVEC2, R_UNWRAP_DEFAULT,
                Rule('R8', r'prefix == "xmlns"', 'shim_str_is(&prefix, "xmlns")', 'String == &str -> shim'),
                Rule('R6', r'format!\("\{\}:\{\}", prefix, local_name\)', 'shim_format_qname(&prefix, &local_name)', 'format! -> shim with the concatenation contract')])
    add('string', [R_NODEARG, R_TOSTRING], props=C5, ensures=[('C05:string_value_of_the_argument', 'args@.len() >= 1 && r is Ok ==> r->Ok_0 is Text && r->Ok_0->Text_0@ == string_of(args@[0])')])
    add('concat', [R_TOSTRING, Rule('R40', r'let mut s = String::new\(\);', 'let mut s = shim_string_new();', 'String::new -> shim'),
                   Rule('R47', r'for arg in args \{', 'for arg in __it: args /*@loop*/ {', 'iterator named'),
                   Rule('R40', r's\.push_str\(&value_to_string\(&arg\)\?\);', 'let __piece = value_to_string(&arg)?; shim_push_str(&mut s, &__piece);', 'String::push_str -> shim (named temporary)')],
        loops={0: dict(invariant=[('C05:concatenated_so_far', 's@ == concat_of(__it.seq().take(__it.index@))')])},
        inject=[(r'let __piece = value_to_string', 'proof { assert(__it.seq().take(__it.index@ + 1).drop_last() =~= __it.seq().take(__it.index@)); }', 'before'),
                (r'^\s*Ok\(model::Value::Text\(s\)\)', 'proof { assert(args@.take(args@.len() as int) =~= args@); }', 'before')],
        props=C5, ensures=[('C05:concatenation_of_the_string_values', 'r is Ok ==> r->Ok_0 is Text && r->Ok_0->Text_0@ == concat_of(args@)')])
    add('starts_with', [R_TOSTRING, Rule('R8', r's1\.starts_with\(&s2\)', 'shim_starts_with(&s1, &s2)', 'str::starts_with -> shim')], props=C5,
        ensures=[('C05:true_exactly_when_the_second_string_is_a_prefix', 'r is Ok ==> r->Ok_0 is Boolean && r->Ok_0->Boolean_0 == is_prefix(string_of(args@[1]), string_of(args@[0]))')])
    add('contains', [R_TOSTRING, Rule('R8', r's1\.contains\(&s2\)', 'shim_contains(&s1, &s2)', 'str::contains -> shim')], props=C5,
        ensures=[('C05:true_exactly_when_the_second_string_occurs', 'r is Ok ==> r->Ok_0 is Boolean && r->Ok_0->Boolean_0 == occurs(string_of(args@[0]), string_of(args@[1]))')])
    for f, part, other in (('substring_before', '0', 'before'), ('substring_after', '1', 'after')):
        add(f, [R_TOSTRING,
                Rule('R8', r'let r = s1\.split_once\(&s2\)\.map\(\|v\| v\.' + part + r'\)\.unwrap_or_default\(\);', f'let r = shim_part_{other}(shim_split_once(&s1, &s2));', 'split_once(..).map(.. .' + part + ').unwrap_or_default() -> shims (first occurrence; empty when there is none)'),
                Rule('R6', r'r\.to_string\(\)', 'r', 'the shim already returns an owned String')],
            props=C5,
            ensures=[('C05:text_' + other + '_the_first_occurrence_or_empty',
                      'r is Ok ==> r->Ok_0 is Text && ({ let s = string_of(args@[0]); let p = string_of(args@[1]); let t = r->Ok_0->Text_0@;'
                      ' (!occurs(s, p) ==> t.len() == 0) && (occurs(s, p) ==> exists|i: int| occurs_at(s, p, i) && (forall|j: int| 0 <= j < i ==> !occurs_at(s, p, j)) && t == '
                      + ('s.subrange(0, i)' if other == 'before' else 's.subrange(i + p.len(), s.len() as int)') + ') })')])
    add('normalize_space', [R_NODEARG, R_TOSTRING,
                            Rule('R8', r'let w = r\.split_whitespace\(\)\.collect::<Vec<&str>>\(\);', 'let w = shim_normalize_space(&r);', 'split_whitespace().collect() + join(" ") -> one shim'),
                            Rule('R8', r'w\.join\(" "\)', 'w', 'see above')])
    add('boolean', [R_TOBOOL], props=C5, ensures=[('C05:boolean_value_of_the_argument', 'r is Ok ==> r->Ok_0 is Boolean && r->Ok_0->Boolean_0 == boolean_of(args@[0])')])
    add('not', [R_TOBOOL], props=C5, ensures=[('C05:negated_boolean_value_of_the_argument', 'r is Ok ==> r->Ok_0 is Boolean && r->Ok_0->Boolean_0 == !boolean_of(args@[0])')])
    add('ftrue', [], props=C5, ensures=[('C05:true', 'r is Ok && r->Ok_0 is Boolean && r->Ok_0->Boolean_0')])
    add('ffalse', [], props=C5, ensures=[('C05:false', 'r is Ok && r->Ok_0 is Boolean && !r->Ok_0->Boolean_0')])
    add('lang', [R_TOSTRING,
                 Rule('R8', r'let name = (value_to_string\([^\n;]*\)\?)\.to_lowercase\(\);', r'let name = shim_lower(&\1);', 'str::to_lowercase -> shim (uninterpreted `lower`)'),
                 Rule('R8', r'let value = attr\.value\(\)\?\.to_lowercase\(\);', 'let value = shim_lower(&attr.value()?);', 'str::to_lowercase -> shim'),
                 Rule('R48', r'element\.attributes\(\)\.and_then\(\|v\| v\.iter\(\)\.find\(is_xml_lang\)\)', 'element.shim_lang_attribute()', 'lookup of the xml:lang attribute (NamedNodeMap iteration + find with the helper is_xml_lang) -> shim'),
                 Rule('R8', r'value\.strip_prefix\(name\.as_str\(\)\)', 'shim_strip_prefix(&value, &name)', 'str::strip_prefix -> shim'),
                 Rule('R8', r"rest\.is_empty\(\) \|\| rest\.starts_with\('-'\)", 'shim_empty_or_dash(&rest)', 'str::is_empty / starts_with(char) -> shim'),
                 Rule('R48', r'attr\.owner_element\(\)\.map\(\|v\| v\.as_node\(\)\)', 'dom::shim_owner_node(attr)', 'Option::map(as_node) over owner_element() -> shim')],
        props=C5, requires_extra=[('the_dom_presents_a_tree', 'lang_tree_ok()')],
        loops={0: dict(invariant=[('frame', 'lang_tree_ok() && name@ == lower(string_of(args@[0]))'),
                                  ('C05:the_language_of_the_context_node_is_that_of_the_node_the_walk_has_reached', 'language_of(node) == (match n { Some(c) => language_of(c), None => None::<Seq<char>> })')],
                       ensures=[('C05:no_ancestor_or_self_carries_a_language', 'language_of(node) is None')],
                       decreases='(match n { Some(c) => dom::depth(c) + 1, None => 0 })')},
        ensures=[('C05:true_exactly_when_the_nearest_xml_lang_is_the_language_or_a_sublanguage_of_it_ignoring_case',
                  'r is Ok ==> r->Ok_0 is Boolean && r->Ok_0->Boolean_0 == (match language_of(node) { Some(v) => lang_matches(v, string_of(args@[0])), None => false })')])
    add('number', [R_NODEARG, R_TONUMBER], props=C5, ensures=[('C05:number_value_of_the_argument', 'args@.len() >= 1 && r is Ok ==> r->Ok_0 is Number && r->Ok_0->Number_0 == number_of(args@[0])')])
    add('sum', [R_TONUMBER, Rule('R22', r'let mut s = 0f64;', 'let mut s = shim_zero();', 'float literal -> shim'),
                Rule('R36', r's \+= value_to_number\(&model::Value::Node\(vec!\[node\.clone\(\)\]\)\)\?', 'let __v = shim_node_value(node.clone()); s = shim_add(s, value_to_number(&__v)?);', 'float += and temporary borrow -> shims'),
                Rule('R47', r'for node in nodes \{', 'for node in __it: nodes.iter() {', 'for over &Vec -> over its iterator')])
    add('floor', [R_TONUMBER, Rule('R22', r'arg\.floor\(\)', 'shim_floor(arg)', 'f64::floor -> shim')], props=C5,
        ensures=[('C05:floor_of_the_number_value', 'r is Ok ==> r->Ok_0 is Number && r->Ok_0->Number_0 == f64_floor(number_of(args@[0]))')])
    add('ceiling', [R_TONUMBER, Rule('R22', r'arg\.ceil\(\)', 'shim_ceil(arg)', 'f64::ceil -> shim')], props=C5,
        ensures=[('C05:ceiling_of_the_number_value', 'r is Ok ==> r->Ok_0 is Number && r->Ok_0->Number_0 == f64_ceil(number_of(args@[0]))')])
    add('round', [R_TONUMBER], props=C5,
        ensures=[('C05:xpath_round_of_the_number_value', 'r is Ok ==> r->Ok_0 is Number && r->Ok_0->Number_0 == f64_round_xpath(number_of(args@[0]))')])
    extra = r'''
pub open spec fn concat_of(args: Seq<model::Value>) -> Seq<char>
    decreases args.len(),
{
    if args.len() == 0 { Seq::<char>::empty() } else { concat_of(args.drop_last()) + string_of(args.last()) }
}
#[verifier::external_body]
pub fn shim_unwrap_or_default(v: Option<String>) -> (r: String)
    ensures v is Some ==> r == v->Some_0, v is None ==> r@ == Seq::<char>::empty(),
{ v.unwrap_or_default() }
pub fn shim_part_before(v: Option<(String, String)>) -> (r: String)
    ensures v is Some ==> r == v->Some_0.0, v is None ==> r@ == Seq::<char>::empty(),
{ match v { Some((a, _b)) => a, None => shim_string_new() } }
pub fn shim_part_after(v: Option<(String, String)>) -> (r: String)
    ensures v is Some ==> r == v->Some_0.1, v is None ==> r@ == Seq::<char>::empty(),
{ match v { Some((_a, b)) => b, None => shim_string_new() } }
'''
    slots = extra + '\n' + '\n\n'.join(f'//@@ {k}' for k in fns)
    return ENV.replace('@SLOTS@', slots), fns


try:
    TEMPLATE, FNS = build()
except rustscan.ScanError:
    TEMPLATE, FNS = ENV.replace('@SLOTS@', ''), {}


def _auto(name):
    """A private helper of func.rs that an extracted body calls and this unit does not list: extracted too, no panic (C06)."""
    return Fn(FF, None, name, props=['C06'], safety_props=['C06'], label=f'xpath::func::{name} (auto-extracted helper)', rules=[R_TOSTRING, R_TONUMBER, R_TOBOOL])


UNIT = dict(name='func_lib', template=TEMPLATE, fns=FNS, props=['C06', 'C05'], build=build, auto_extract=dict(file=FF, make=_auto))
