"""C12, the id -> item resolution every navigational view goes through: `Context::{node, add_item, register}`
(info/src/lib.rs).  `parent_node()`, the sibling lookups and `remove_from_parent()` reach a parent through
`context.node(parent_id)`.

Ownership facts the contract is stated over (uninterpreted: Rust's Rc/Weak semantics are not modelled):
  * an information item lives in an inner `Rc<RefCell<T>>`; DOM wrappers and child lists hold THAT (directly, or inside an
    `Rc<XmlItem>` they own); `inner_alive(id)` = some owner still holds the inner node of the item with this id;
  * an `Rc<XmlItem>` is a separate, short-lived wrapper allocation around the inner node (the DOM layer makes a fresh one
    per call; factories drop the one they registered); `wrapper_alive(w)` = that particular wrapper is still owned.
Obligation: an id that was registered resolves for as long as the ITEM is alive -- not merely for as long as one particular
wrapper of it is.
"""
from vf.unit import Fn, Rule

FI = 'info/src/lib.rs'

ENV = r'''use vstd::prelude::*;
verus! {

// ownership facts (uninterpreted)
pub uninterp spec fn inner_alive(id: usize) -> bool;
pub uninterp spec fn wrapper_alive(w: int) -> bool;

// Rc<XmlItem>: the item's id and which wrapper allocation this handle is
pub struct ItemRef { pub ident: usize, pub wrapper: Ghost<int> }
impl ItemRef {
    pub fn id(&self) -> (r: usize) ensures r == self.ident { self.ident }
}

// Weak<XmlItem>: upgrades while THAT wrapper is owned by somebody
pub struct WeakWrapper { pub ident: usize, pub wrapper: Ghost<int> }
#[verifier::external_body]
pub fn shim_downgrade_wrapper(node: &ItemRef) -> (r: WeakWrapper)
    ensures r.ident == node.ident, r.wrapper@ == node.wrapper@,
{ unimplemented!() /* Rc::downgrade(node) */ }
impl WeakWrapper {
    #[verifier::external_body]
    pub fn upgrade(&self) -> (r: Option<ItemRef>)
        ensures r is Some <==> wrapper_alive(self.wrapper@), r is Some ==> r->Some_0.ident == self.ident,
    { unimplemented!() }
}

// WeakItem (weak handle on the inner node): upgrades while the ITEM is owned by somebody; a fresh wrapper is built
pub struct WeakItem { pub ident: usize }
#[verifier::external_body]
pub fn shim_weak_item(node: &ItemRef) -> (r: WeakItem)
    ensures r.ident == node.ident,
{ unimplemented!() /* WeakItem::from(&**node) */ }
impl WeakItem {
    #[verifier::external_body]
    pub fn upgrade(&self) -> (r: Option<ItemRef>)
        ensures r is Some <==> inner_alive(self.ident), r is Some ==> r->Some_0.ident == self.ident,
    { unimplemented!() }
}

// HashMap<usize, V> behind the RefCell: modelled by its abstract map (A4)
pub struct IdMap<V> { pub m: Ghost<Map<usize, V>> }
impl<V> IdMap<V> {
    #[verifier::external_body]
    pub fn insert(&mut self, k: usize, v: V)
        ensures final(self).m@ == old(self).m@.insert(k, v),
    { unimplemented!() }
    #[verifier::external_body]
    pub fn get(&self, k: &usize) -> (r: Option<&V>)
        ensures r is Some <==> self.m@.dom().contains(*k), r is Some ==> *r->Some_0 == self.m@[*k],
    { unimplemented!() }
}

pub struct ContextInfo { pub id: usize }
pub struct Context {
    pub info: ContextInfo,
    pub id_map: IdMap<@VALUE@>,
}

impl Context {
    // every entry is filed under the id of the item it points to
    pub open spec fn wf(self) -> bool {
        forall|k: usize| self.id_map.m@.dom().contains(k) ==> (#[trigger] self.id_map.m@[k]).ident == k
    }

    //@@ add_item

    //@@ register

    //@@ node
}

} // verus!
fn main() {}
'''

CTX = 'impl Context'
PUB = Rule('R12', r'^fn ', 'pub fn ', 'visibility (no runtime meaning)')
R_MUT = Rule('R14', r'\(&self\b', '(&mut self', '&self of a method that mutates through RefCell -> &mut self (A4)')
R_RC = Rule('R11', r'&?Rc<XmlItem>', lambda m: ('&ItemRef' if m.group(0).startswith('&') else 'ItemRef'), 'Rc<XmlItem> -> environment handle (A4)')
R_BOR = Rule('R11', r'\.borrow(?:_mut)?\(\)\s*\.', '.', 'RefCell borrow dropped (A4)')
R_DOWN = Rule('R13', r'Rc::downgrade\(node\)', 'shim_downgrade_wrapper(node)', 'Rc::downgrade of the wrapper -> shim')
R_WEAKITEM = Rule('R13', r'WeakItem::from\(&\*\*node\)', 'shim_weak_item(node)', 'WeakItem::from (downgrade of the inner node) -> shim')
R_UPGRADE = Rule('R15', r'\.and_then\(\|v\| v\.upgrade\(\)\)(\.map\(Rc::new\))?', '.and_then(|v: &@VALUE@| -> (r: Option<ItemRef>) ensures r == v.upgrade_spec() { v.upgrade() })',
                 'closure gets an explicit contract (specification only)')


def unit_for(value_type):
    """The id map stores `Weak<XmlItem>` before the repair and `WeakItem` after it: the environment follows the field's type."""
    env = ENV.replace('@VALUE@', value_type)
    return env


def build(repo=None):
    import os
    import re
    from vf import unit as U
    src = open(os.path.join(repo or U.REPO, FI)).read()
    m = re.search(r'id_map:\s*Singleton<HashMap<usize,\s*([A-Za-z<>]+)>>', src)
    value = {'Weak<XmlItem>': 'WeakWrapper', 'WeakItem': 'WeakItem'}.get(m.group(1) if m else '', 'WeakWrapper')
    env = unit_for(value)
    fns = {}
    P = ['C12']
    COMMON = [R_BOR, R_DOWN, R_WEAKITEM]
    fns['add_item'] = Fn(FI, CTX, 'add_item', props=P, safety_props=P, sig_rules=[PUB, R_MUT, R_RC], rules=COMMON, label='Context::add_item',
                         requires=[('handle_is_the_items_own', 'node.ident == old(self).info.id'), ('map_is_keyed_by_item_id', 'old(self).wf()')],
                         ensures=[('C12:files_the_item_under_its_id', 'final(self).id_map.m@.dom().contains(old(self).info.id) && final(self).wf()')])
    fns['register'] = Fn(FI, CTX, 'register', props=P, safety_props=P, sig_rules=[PUB, R_MUT, R_RC], rules=COMMON, label='Context::register',
                         requires=[('map_is_keyed_by_item_id', 'old(self).wf()')],
                         ensures=[('C12:files_the_item_under_its_id', 'final(self).id_map.m@.dom().contains(node.ident) && final(self).wf()')])
    fns['node'] = Fn(FI, CTX, 'node', props=P, safety_props=P, sig_rules=[PUB, R_RC],
                     rules=[R_BOR, Rule('R15', r'\.and_then\(\|v\| v\.upgrade\(\)\)(?:\s*\.map\(Rc::new\))?',
                                        f'.and_then(|v: &{value}| -> (r: Option<ItemRef>) ensures (r is Some <==> {"wrapper_alive(v.wrapper@)" if value == "WeakWrapper" else "inner_alive(v.ident)"}), r is Some ==> r->Some_0.ident == v.ident {{ v.upgrade() }})',
                                        'closure gets an explicit contract (specification only): what upgrading this kind of weak handle means; `.map(Rc::new)` (a fresh wrapper) folded in')],
                     label='Context::node',
                     requires=[('map_is_keyed_by_item_id', 'self.wf()')],
                     ensures=[('C12:a_registered_id_resolves_while_the_item_is_alive', 'self.id_map.m@.dom().contains(id) && inner_alive(id) ==> r is Some && r->Some_0.ident == id'),
                              ('C12:resolves_to_the_item_with_that_id', 'r is Some ==> r->Some_0.ident == id')])
    return env, fns


TEMPLATE, FNS = build()
UNIT = dict(name='c12_idmap', template=TEMPLATE, fns=FNS, props=['C12'], build=build)
