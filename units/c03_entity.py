"""Attribute values: `info::attr_value_from_name(_within)` and `XmlAttribute::normalized_value` (info/src/lib.rs) -- reached
by `Attr::value`, `Element::get_attribute`, namespace lookup, XPath `string(@a)`.  Serves two properties.

C03: the recursion on entity references TERMINATES (Verus demands a `decreases` measure of a recursive exec function;
nothing in the data bounds a chain of references unless the code bounds it -- declarations that refer to each other in a
circle are ordinary parser output) and no panic site is reachable (parameter-entity references were `unimplemented!`).

C11 (XML 1.0 3.3.3): the value is the concatenation, piece by piece, of
  * the referenced character, unchanged, for a character reference in the attribute value;
  * the white-space-normalized text for literal text;
  * for an entity reference, the recursive expansion of the entity's REPLACEMENT TEXT with its white space normalized --
    a character reference inside the entity's literal value is part of that replacement text, so a referenced tab / CR / LF
    arrives as a space (the recommendation's own example: <!ENTITY d "&#xD;"> ... a="&d;" gives one space);
and, when the attribute is declared with a type other than CDATA, of that string with leading / trailing spaces dropped and
runs of spaces collapsed.

The entity table (`Context::entity`), the value list of an entity and the declared type are assumed callees over the live
document, tied to uninterpreted spec functions; `char_from_char10/16` and `normalize_ws` are verified in
units/info_helpers.py and assumed here with the contracts proved there."""
import os

from vf.unit import Fn, Rule
from vf import unit as U

FI = 'info/src/lib.rs'

ENV = r'''use vstd::prelude::*;
verus! {

pub mod error {
    pub enum Error {
        IsolatedNode,
        InvalidData(String),
        InvalidHierarchy,
        InvalidType,
        NotFoundDoumentElement,
        NotFoundReference(String),
        OufOfIndex(usize),
        Parse(String),
    }
    pub type Result<T> = core::result::Result<T, Error>;
}

// info/src/lib.rs: pub enum XmlEntityValue (real)
pub enum XmlEntityValue {
    Character(String, u32),
    Entity(String),
    Parameter(String),
    Text(String),
}

// info/src/lib.rs: pub enum XmlDeclarationAttType (real)
pub enum XmlDeclarationAttType {
    CData,
    Entities,
    Entity,
    Id,
    IdRef,
    IdRefs,
    NmToken,
    NmTokens,
    Notation(Vec<String>),
    Enumeration(Vec<String>),
}

// ---- the specification (XML 1.0 3.3.3), over an abstract entity table ----

pub open spec fn is_xml_ws(c: char) -> bool { c == ' ' || c == '\t' || c == '\n' || c == '\r' }
pub open spec fn ws_norm(c: char) -> char { if is_xml_ws(c) { ' ' } else { c } }
pub open spec fn ws_normalized(s: Seq<char>) -> Seq<char> {
    Seq::new(s.len(), |i: int| if is_xml_ws(s[i]) { ' ' } else { s[i] })
}

// the character a reference &#digits; / &#xdigits; denotes (None: not a number, or not a legal character) -- what
// char_from_char10/16 compute (units/info_helpers.py, C02)
pub uninterp spec fn char_ref_value(digits: Seq<char>, radix: u32) -> Option<char>;
// the declared entities of the document behind a context, by name (then the five predefined ones)
pub uninterp spec fn entity_values(ctx: Context, name: Seq<char>) -> Option<Seq<XmlEntityValue>>;
// the bound the code puts on a chain of entity references (number of declared entities + 1)
pub uninterp spec fn chain_bound(ctx: Context) -> nat;

// replacement text of the entity `name`, following at most `depth` further levels of references; literal text is white-space
// normalized; `nc` says whether characters given by character references are normalized too.  nc = true is what 3.3.3
// prescribes for an entity referenced from an attribute value (the replacement text is normalized as a whole); nc = false
// is what the expansion function computes on its own.
pub open spec fn expand_name(ctx: Context, name: Seq<char>, depth: nat, nc: bool) -> Option<Seq<char>>
    decreases depth, 1nat, 0nat,
{
    match entity_values(ctx, name) {
        None => None,
        Some(vals) => expand_values(ctx, vals, depth, nc),
    }
}
pub open spec fn expand_values(ctx: Context, vals: Seq<XmlEntityValue>, depth: nat, nc: bool) -> Option<Seq<char>>
    decreases depth, 0nat, vals.len(),
{
    if vals.len() == 0 {
        Some(Seq::<char>::empty())
    } else {
        match (expand_values(ctx, vals.drop_last(), depth, nc), expand_piece(ctx, vals.last(), depth, nc)) {
            (Some(a), Some(b)) => Some(a + b),
            _ => None,
        }
    }
}
pub open spec fn expand_piece(ctx: Context, v: XmlEntityValue, depth: nat, nc: bool) -> Option<Seq<char>>
    decreases depth, 0nat, 0nat,
{
    match v {
        XmlEntityValue::Character(digits, radix) => match char_ref_value(digits@, radix) {
            Some(c) => Some(seq![if nc { ws_norm(c) } else { c }]),
            None => None,
        },
        XmlEntityValue::Entity(n) => if depth == 0 { None } else { expand_name(ctx, n@, (depth - 1) as nat, nc) },
        XmlEntityValue::Parameter(_) => None,   // not supported: an error
        XmlEntityValue::Text(t) => Some(ws_normalized(t@)),
    }
}
// normalizing the white space of the expansion as a whole IS the prescribed value
pub proof fn lemma_normalize_whole(ctx: Context, vals: Seq<XmlEntityValue>, depth: nat)
    ensures expand_values(ctx, vals, depth, false) is Some <==> expand_values(ctx, vals, depth, true) is Some,
            expand_values(ctx, vals, depth, false) is Some ==> ws_normalized(expand_values(ctx, vals, depth, false)->Some_0) =~= expand_values(ctx, vals, depth, true)->Some_0,
    decreases depth, vals.len(),
{
    if vals.len() > 0 {
        lemma_normalize_whole(ctx, vals.drop_last(), depth);
        match vals.last() {
            XmlEntityValue::Entity(n) => {
                if depth > 0 {
                    match entity_values(ctx, n@) {
                        Some(v2) => { lemma_normalize_whole(ctx, v2, (depth - 1) as nat); }
                        None => {}
                    }
                }
            }
            _ => {}
        }
        let a = expand_values(ctx, vals.drop_last(), depth, false);
        let b = expand_piece(ctx, vals.last(), depth, false);
        if a is Some && b is Some {
            assert(ws_normalized(a->Some_0 + b->Some_0) =~= ws_normalized(a->Some_0) + ws_normalized(b->Some_0));
            assert(ws_normalized(b->Some_0) =~= expand_piece(ctx, vals.last(), depth, true)->Some_0);
        }
    }
}
pub proof fn lemma_normalize_name(ctx: Context, name: Seq<char>, depth: nat)
    ensures expand_name(ctx, name, depth, false) is Some <==> expand_name(ctx, name, depth, true) is Some,
            expand_name(ctx, name, depth, false) is Some ==> ws_normalized(expand_name(ctx, name, depth, false)->Some_0) =~= expand_name(ctx, name, depth, true)->Some_0,
{
    match entity_values(ctx, name) {
        Some(v) => { lemma_normalize_whole(ctx, v, depth); }
        None => {}
    }
}
pub proof fn lemma_expand_step(ctx: Context, vals: Seq<XmlEntityValue>, i: int, depth: nat, nc: bool)
    requires 0 <= i < vals.len(),
    ensures expand_values(ctx, vals.take(i + 1), depth, nc) == match (expand_values(ctx, vals.take(i), depth, nc), expand_piece(ctx, vals[i], depth, nc)) {
                (Some(a), Some(b)) => Some(a + b),
                _ => None,
            },
{
    assert(vals.take(i + 1).drop_last() =~= vals.take(i));
    assert(vals.take(i + 1).last() == vals[i]);
}
// a piece without a value makes the whole list valueless
pub proof fn lemma_expand_none(ctx: Context, vals: Seq<XmlEntityValue>, i: int, depth: nat, nc: bool)
    requires 0 <= i <= vals.len(),
    ensures expand_values(ctx, vals.take(i), depth, nc) is None ==> expand_values(ctx, vals, depth, nc) is None,
    decreases vals.len() - i,
{
    if i == vals.len() {
        assert(vals.take(i) =~= vals);
    } else {
        lemma_expand_step(ctx, vals, i, depth, nc);
        lemma_expand_none(ctx, vals, i + 1, depth, nc);
    }
}

// ---- the attribute's own pieces ----
pub struct CharRefItem { pub code: String }      // XmlCharReference: `character_code()` is the referenced character
pub struct EntityRefItem { pub name: String }    // XmlUnexpandedEntityReference
pub struct TextItem { pub text: String }         // XmlText
pub enum XmlAttributeValue {
    Char(CharRefItem),
    Entity(EntityRefItem),
    Text(TextItem),
}
pub open spec fn attr_piece(ctx: Context, v: XmlAttributeValue) -> Option<Seq<char>> {
    match v {
        XmlAttributeValue::Char(c) => Some(c.code@),                                      // the referenced character, unchanged
        XmlAttributeValue::Entity(e) => expand_name(ctx, e.name@, chain_bound(ctx), true),     // replacement text, normalized as a whole
        XmlAttributeValue::Text(t) => Some(ws_normalized(t.text@)),
    }
}
pub open spec fn attr_pieces(ctx: Context, vals: Seq<XmlAttributeValue>) -> Option<Seq<char>>
    decreases vals.len(),
{
    if vals.len() == 0 {
        Some(Seq::<char>::empty())
    } else {
        match (attr_pieces(ctx, vals.drop_last()), attr_piece(ctx, vals.last())) {
            (Some(a), Some(b)) => Some(a + b),
            _ => None,
        }
    }
}
pub proof fn lemma_pieces_step(ctx: Context, vals: Seq<XmlAttributeValue>, i: int)
    requires 0 <= i < vals.len(),
    ensures attr_pieces(ctx, vals.take(i + 1)) == match (attr_pieces(ctx, vals.take(i)), attr_piece(ctx, vals[i])) {
                (Some(a), Some(b)) => Some(a + b),
                _ => None,
            },
{
    assert(vals.take(i + 1).drop_last() =~= vals.take(i));
    assert(vals.take(i + 1).last() == vals[i]);
}
pub proof fn lemma_pieces_none(ctx: Context, vals: Seq<XmlAttributeValue>, i: int)
    requires 0 <= i <= vals.len(),
    ensures attr_pieces(ctx, vals.take(i)) is None ==> attr_pieces(ctx, vals) is None,
    decreases vals.len() - i,
{
    if i == vals.len() {
        assert(vals.take(i) =~= vals);
    } else {
        lemma_pieces_step(ctx, vals, i);
        lemma_pieces_none(ctx, vals, i + 1);
    }
}

// tokens separated by single spaces: what `split(' ').filter(non-empty).collect::<Vec<&str>>().join(" ")` returns
pub open spec fn first_space(s: Seq<char>) -> int
    decreases s.len(),
{
    if s.len() == 0 || s[0] == ' ' { 0 } else { 1 + first_space(s.drop_first()) }
}
pub open spec fn collapsed(s: Seq<char>) -> Seq<char>
    decreases s.len(),
{
    if s.len() == 0 {
        s
    } else if s[0] == ' ' {
        collapsed(s.drop_first())
    } else {
        let k = first_space(s);
        if 0 < k <= s.len() {
            let rest = collapsed(s.subrange(k, s.len() as int));
            if rest.len() == 0 { s.subrange(0, k) } else { s.subrange(0, k) + seq![' '] + rest }
        } else {
            s   // unreachable: 0 < first_space(s) <= s.len() when s[0] is not a space
        }
    }
}
#[verifier::external_body]
pub fn shim_collapse_spaces(s: String) -> (r: String)
    ensures r@ == collapsed(s@),
{
    s.split(' ').filter(|v| !v.is_empty()).collect::<Vec<&str>>().join(" ")
}

#[derive(Clone, Copy)]
pub struct Context { pub h: usize }
pub struct EntityRef { pub vals: Ghost<Seq<XmlEntityValue>> }
impl Context {
    // the entity table of the live document: an assumed callee, tied to `entity_values`
    #[verifier::external_body]
    pub fn entity(&self, name: &str) -> (r: error::Result<EntityRef>)
        ensures (r is Ok <==> entity_values(*self, name@) is Some),
                r is Ok ==> r->Ok_0.vals@ == entity_values(*self, name@)->Some_0,
    { unimplemented!() }
    #[verifier::external_body]
    pub fn shim_entity_chain_bound(&self) -> (r: usize)
        ensures r as nat == chain_bound(*self),
    { unimplemented!() }
}
pub open spec fn radix_ok(v: XmlEntityValue) -> bool { v is Character ==> (v->Character_1 == 10 || v->Character_1 == 16) }
// entity.borrow().values().unwrap_or_default()
#[verifier::external_body]
pub fn shim_entity_values(entity: &EntityRef) -> (r: Vec<XmlEntityValue>)
    ensures r@ == entity.vals@,
            forall|i: int| 0 <= i < r@.len() ==> radix_ok(#[trigger] r@[i]),
{ unimplemented!() }

// verified in units/info_helpers.py (C02, C11); assumed here with the contracts proved there
#[verifier::external_body]
pub fn char_from_char10(value: &str) -> (r: error::Result<char>)
    ensures (r is Ok <==> char_ref_value(value@, 10) is Some), r is Ok ==> r->Ok_0 == char_ref_value(value@, 10)->Some_0,
{ unimplemented!() }
#[verifier::external_body]
pub fn char_from_char16(value: &str) -> (r: error::Result<char>)
    ensures (r is Ok <==> char_ref_value(value@, 16) is Some), r is Ok ==> r->Ok_0 == char_ref_value(value@, 16)->Some_0,
{ unimplemented!() }
#[verifier::external_body]
pub fn normalize_ws(value: &str) -> (r: String)
    ensures r@ == ws_normalized(value@),
{ unimplemented!() }

#[verifier::external_body]
pub fn shim_push(s: &mut String, c: char)
    ensures final(s)@ == old(s)@.push(c),
{ s.push(c) }
#[verifier::external_body]
pub fn shim_push_str(s: &mut String, t: &str)
    ensures final(s)@ == old(s)@ + t@,
{ s.push_str(t) }
#[verifier::external_body]
pub fn shim_string_new() -> (r: String)
    ensures r@ == Seq::<char>::empty(),
{ String::new() }
#[verifier::external_body]
pub fn shim_char_to_string(c: char) -> (r: String)
    ensures r@ == seq![c],
{ c.to_string() }
#[verifier::external_body]
pub fn shim_error_payload(prefix: &str, v: &str) -> (r: String) { unimplemented!() /* format!("&{};", v) / format!("%{};", v) */ }

// `unimplemented!(..)` / `unreachable!()`: reaching one is a panic, so the call site must be provably dead
#[verifier::external_body]
pub fn shim_unimplemented<T>() -> (r: T)
    requires false,
    ensures false,
{ unimplemented!() }

// a measure for the recursion on the entity NAME: nothing is known about it (there is no such measure when entity
// declarations refer to each other in a circle)
pub uninterp spec fn entity_rank(name: Seq<char>) -> nat;

@FNS@

// the slice borrowed from the RefCell, seen as a list of the same elements
#[verifier::external_body]
pub fn shim_values_of(v: &Vec<XmlAttributeValue>) -> (r: Vec<XmlAttributeValue>)
    ensures r@ == v@,
{ unimplemented!() }

pub struct XmlAttribute {
    pub values: Vec<XmlAttributeValue>,
    pub ctx: Context,
    pub declared: Option<XmlDeclarationAttType>,
}
impl XmlAttribute {
    pub fn context(&self) -> (r: &Context) ensures *r == self.ctx { &self.ctx }
    // the type of the ATTLIST declaration for this attribute, if one has been read (declaration_def: live document)
    #[verifier::external_body]
    pub fn declaration_type(&self) -> (r: Option<XmlDeclarationAttType>)
        ensures r == self.declared,
    { unimplemented!() }
    pub open spec fn tokenized(self) -> bool { self.declared is Some && !(self.declared->Some_0 is CData) }

    //@@ normalized_value
}

} // verus!
fn main() {}
'''

RULES = [
    Rule('R48', r'entity\.borrow\(\)\.values\(\)\.unwrap_or_default\(\)', 'shim_entity_values(&entity)', 'RefCell borrow dropped (A4); Option::unwrap_or_default of the value list -> shim'),
    Rule('R48', r'let mut parsed = String::new\(\);', 'let mut parsed = shim_string_new();', 'String::new -> shim'),
    Rule('R48', r'parsed\.push\(', 'shim_push(&mut parsed, ', 'String::push -> shim'),
    Rule('R48', r'parsed\.push_str\(', 'shim_push_str(&mut parsed, ', 'String::push_str -> shim'),
    Rule('R6', r'format!\("&\{\};", v\)', 'shim_error_payload("&", v)', 'format! of an error payload -> unconstrained shim'),
    Rule('R6', r'format!\("%\{\};", v\)', 'shim_error_payload("%", v)', 'format! of an error payload -> unconstrained shim'),
    Rule('R21', r'(unimplemented|unreachable)!\([^)]*\)', 'shim_unimplemented()', 'panic site -> call of a function with `requires false`'),
    Rule('R48', r'match r \{\s*10 =>', 'match *r { 10 =>', 'match on a reference to an integer -> on the integer'),
]
R_FOR = Rule('R47', r'for value in shim_entity_values\(&entity\) \{', 'for value in __it: shim_entity_values(&entity) /*@loop*/ {', 'iterator named so that the invariant can refer to the values')

LOOP_WITHIN = [
    ('values_have_a_legal_radix', 'forall|i: int| 0 <= i < __it.seq().len() ==> radix_ok(#[trigger] __it.seq()[i])'),
    ('C11:expanded_so_far_is_the_normalized_prefix', '__it.seq() == entity.vals@ && entity_values(*context, name@) == Some(entity.vals@) && expand_values(*context, __it.seq().take(__it.index@), DEPTH, false) == Some(parsed@)'),
]

NV_RULES = [
    Rule('R48', r'let mut normalized = String::new\(\);', 'let mut normalized = shim_string_new();', 'String::new -> shim'),
    Rule('R47', r'for value in self\.values\.borrow\(\)\.as_slice\(\) \{', 'for value in __it: shim_values_of(&self.values) /*@loop*/ {', 'RefCell borrow dropped (A4); for over the slice -> for over a copy of the list (same elements, same order), iterator named'),
    Rule('R48', r'v\.as_char_reference\(\)\.unwrap\(\)\.borrow\(\)\.character_code\(\)', 'v.code.as_str()',
         'the Char variant always holds a character-reference item (XmlAttributeValue::try_from): item access -> field of the environment item'),
    Rule('R48', r'v\.as_unexpanded\(\)\.unwrap\(\)\.borrow\(\)\.name\(\)', 'v.name.as_str()', 'the Entity variant always holds an unexpanded entity reference: item access -> field'),
    Rule('R48', r'v\.as_text\(\)\.unwrap\(\)\.borrow\(\)\.text\.as_str\(\)', 'v.text.as_str()', 'the Text variant always holds a text item: item access -> field'),
    Rule('R48', r'normalized\.push_str\(', 'shim_push_str(&mut normalized, ', 'String::push_str -> shim'),
    Rule('R48', r'normalized = normalized\s*\.split\(\' \'\)\s*\.filter\(\|v\| !v\.is_empty\(\)\)\s*\.collect::<Vec<&str>>\(\)\s*\.join\(" "\);', 'normalized = shim_collapse_spaces(normalized);',
         'split / filter / join -> shim whose body is that expression and whose contract is "the tokens separated by single spaces"'),
]
LOOP_NV = {0: dict(invariant=[
    ('C11:normalized_so_far_is_the_concatenation_of_the_pieces', '__it.seq() == self.values@ && attr_pieces(self.ctx, __it.seq().take(__it.index@)) == Some(normalized@)'),
])}


def build(repo=None):
    src = open(os.path.join(repo or U.REPO, FI)).read()
    repaired = 'fn attr_value_from_name_within(' in src
    fns = {}
    P3, P11 = ['C03'], ['C11']
    both = ['C03', 'C11']
    depth = 'depth as nat'
    step = f'proof {{ lemma_expand_step(*context, entity.vals@, __it.index@, {depth}, false); lemma_expand_none(*context, entity.vals@, __it.index@ + 1, {depth}, false); }}'
    if repaired:
        fns['within'] = Fn(
            FI, None, 'attr_value_from_name_within', props=both, safety_props=P3, label='info::attr_value_from_name_within',
            rules=RULES + [R_FOR], loops={0: dict(invariant=[(l, e.replace('DEPTH', depth)) for (l, e) in LOOP_WITHIN])},
            decreases='depth',
            inject=[(r'match &value \{', step, 'before'),
                    (r'Ok\(parsed\)', 'proof { assert(entity.vals@.take(entity.vals@.len() as int) =~= entity.vals@); }', 'before')],
            ensures=[('C11:value_is_the_replacement_text_with_literal_text_normalized', f'r is Ok ==> expand_name(*context, name@, {depth}, false) == Some(r->Ok_0@)'),
                     ('C11:error_only_when_the_expansion_has_no_value', f'r is Err ==> expand_name(*context, name@, {depth}, false) is None')])
        fns['outer'] = Fn(FI, None, 'attr_value_from_name', props=both, safety_props=P3, label='info::attr_value_from_name',
                          rules=[Rule('R48', r'let depth = context\s*\.document\(\).*?\+ 1;', 'let depth = context.shim_entity_chain_bound();',
                                      'count of the declared entities over the live document -> shim tied to chain_bound (any bound terminates the recursion)')],
                          ensures=[('C11:value_is_the_replacement_text_with_literal_text_normalized', 'r is Ok ==> expand_name(*context, name@, chain_bound(*context), false) == Some(r->Ok_0@)'),
                                   ('C11:error_only_when_the_expansion_has_no_value', 'r is Err ==> expand_name(*context, name@, chain_bound(*context), false) is None')])
        fns['normalized_value'] = Fn(
            FI, 'impl Attribute for XmlAttribute', 'normalized_value', props=P11, safety_props=P11, label='XmlAttribute::normalized_value',
            sig_rules=[Rule('R12', r'^fn ', 'pub fn ', 'visibility (no runtime meaning)')],
            rules=NV_RULES, loops=LOOP_NV,
            inject=[(r'match value \{', 'proof { lemma_pieces_step(self.ctx, self.values@, __it.index@); lemma_pieces_none(self.ctx, self.values@, __it.index@ + 1); if let XmlAttributeValue::Entity(e) = self.values@[__it.index@] { lemma_normalize_name(self.ctx, e.name@, chain_bound(self.ctx)); } }', 'before'),
                    (r'if let Some\(ty\) = self\.declaration_type\(\) \{', 'proof { assert(self.values@.take(self.values@.len() as int) =~= self.values@); }', 'before')],
            ensures=[('C11:value_is_the_concatenation_of_the_normalized_pieces_collapsed_for_tokenized_types',
                      'r is Ok ==> attr_pieces(self.ctx, self.values@) is Some && r->Ok_0@ == (if self.tokenized() { collapsed(attr_pieces(self.ctx, self.values@)->Some_0) } else { attr_pieces(self.ctx, self.values@)->Some_0 })'),
                     ('C11:error_only_when_a_piece_has_no_value', 'r is Err ==> attr_pieces(self.ctx, self.values@) is None')])
        slots = '//@@ within\n\n//@@ outer\n'
        env = ENV
    else:
        fns['outer'] = Fn(FI, None, 'attr_value_from_name', props=P3, safety_props=P3, label='info::attr_value_from_name',
                          rules=RULES + [R_FOR], loops={0: dict(invariant=[LOOP_WITHIN[0]])}, decreases='entity_rank(name@)')
        slots = '//@@ outer\n'
        env = ENV.replace('    //@@ normalized_value\n', '')
    return env.replace('@FNS@', slots), fns


TEMPLATE, FNS = build()
UNIT = dict(name='c03_entity', template=TEMPLATE, fns=FNS, props=['C03', 'C11'], build=build)
