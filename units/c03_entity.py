"""C03, one slice: recursive entity expansion in attribute values, `info::attr_value_from_name` (info/src/lib.rs) -- reached by
`Attr::value`, `Element::get_attribute`, XPath `string(@a)` on any attribute whose value contains an entity reference.

Obligations: the recursion TERMINATES (Verus demands a `decreases` measure for a recursive exec function; nothing in the
data bounds a chain of entity references unless the code bounds it -- cyclic declarations are ordinary parser output) and the
function cannot panic (parameter-entity references are `unimplemented!`).  The entity table and the values of an entity are
assumed callees (live document); of the values only "the radix of a character reference is 10 or 16" is assumed, which is
what the parser produces."""
import os
import re

from vf.unit import Fn, Rule
from vf import unit as U

FI = 'info/src/lib.rs'

ENV = r'''use vstd::prelude::*;
verus! {

pub mod error {
    pub enum Error {
        IsolatedNode,
        InvalidData(String),
        InvalidHierarchy,
        InvalidType,
        NotFoundDoumentElement,
        NotFoundReference(String),
        OufOfIndex(usize),
        Parse(String),
    }
    pub type Result<T> = core::result::Result<T, Error>;
}

// info/src/lib.rs: pub enum XmlEntityValue (real)
pub enum XmlEntityValue {
    Character(String, u32),
    Entity(String),
    Parameter(String),
    Text(String),
}

pub struct Context { pub h: usize }
pub struct EntityRef { pub h: usize }
impl Context {
    // the entity table of the live document (declared entities, then the five predefined ones): nothing is promised
    #[verifier::external_body]
    pub fn entity(&self, name: &str) -> (r: error::Result<EntityRef>) { unimplemented!() }
    // number of declared entities + 1 (post-repair bound of the reference chain)
    #[verifier::external_body]
    pub fn shim_entity_chain_bound(&self) -> (r: usize) { unimplemented!() }
}
pub open spec fn radix_ok(v: XmlEntityValue) -> bool { v is Character ==> (v->Character_1 == 10 || v->Character_1 == 16) }
// entity.borrow().values().unwrap_or_default()
#[verifier::external_body]
pub fn shim_entity_values(entity: &EntityRef) -> (r: Vec<XmlEntityValue>)
    ensures forall|i: int| 0 <= i < r@.len() ==> radix_ok(#[trigger] r@[i]),
{ unimplemented!() }

// verified elsewhere (units/info_helpers.py): assumed callees here
#[verifier::external_body]
pub fn char_from_char10(value: &str) -> (r: error::Result<char>) { unimplemented!() }
#[verifier::external_body]
pub fn char_from_char16(value: &str) -> (r: error::Result<char>) { unimplemented!() }
#[verifier::external_body]
pub fn normalize_ws(value: &str) -> (r: String) { unimplemented!() }

#[verifier::external_body]
pub fn shim_push(s: &mut String, c: char) { s.push(c) }
#[verifier::external_body]
pub fn shim_push_str(s: &mut String, t: &str) { s.push_str(t) }
#[verifier::external_body]
pub fn shim_string_new() -> (r: String) { String::new() }
#[verifier::external_body]
pub fn shim_error_payload(prefix: &str, v: &str) -> (r: String) { unimplemented!() /* format!("&{};", v) / format!("%{};", v) */ }

// `unimplemented!(..)` / `unreachable!()`: reaching one is a panic, so the call site must be provably dead
#[verifier::external_body]
pub fn shim_unimplemented<T>() -> (r: T)
    requires false,
    ensures false,
{ unimplemented!() }

// a measure for the recursion on the entity NAME: nothing is known about it (there is no such measure when entity
// declarations refer to each other in a circle)
pub uninterp spec fn entity_rank(name: Seq<char>) -> nat;

@FNS@

} // verus!
fn main() {}
'''

RULES = [
    Rule('R48', r'entity\.borrow\(\)\.values\(\)\.unwrap_or_default\(\)', 'shim_entity_values(&entity)', 'RefCell borrow dropped (A4); Option::unwrap_or_default of the value list -> shim'),
    Rule('R48', r'let mut parsed = String::new\(\);', 'let mut parsed = shim_string_new();', 'String::new -> shim'),
    Rule('R48', r'parsed\.push\(((?:char_from_char1[06]\(v\)\?))\)', r'shim_push(&mut parsed, \1)', 'String::push -> shim'),
    Rule('R48', r'parsed\.push_str\(v\.as_str\(\)\)', 'shim_push_str(&mut parsed, v.as_str())', 'String::push_str -> shim'),
    Rule('R48', r'parsed\.push_str\(normalize_ws\(v\)\.as_str\(\)\)', 'shim_push_str(&mut parsed, normalize_ws(v).as_str())', 'String::push_str -> shim'),
    Rule('R6', r'format!\("&\{\};", v\)', 'shim_error_payload("&", v)', 'format! of an error payload -> unconstrained shim'),
    Rule('R6', r'format!\("%\{\};", v\)', 'shim_error_payload("%", v)', 'format! of an error payload -> unconstrained shim'),
    Rule('R21', r'(unimplemented|unreachable)!\([^)]*\)', 'shim_unimplemented()', 'panic site -> call of a function with `requires false`'),
    Rule('R48', r'match r \{\s*10 =>', 'match *r { 10 =>', 'match on a reference to an integer -> on the integer'),
]
LOOP = {0: dict(invariant=[('values_have_a_legal_radix', 'forall|i: int| 0 <= i < __it.seq().len() ==> radix_ok(#[trigger] __it.seq()[i])')])}
R_FOR = Rule('R47', r'for value in shim_entity_values\(&entity\) \{', 'for value in __it: shim_entity_values(&entity) /*@loop*/ {', 'iterator named so that the invariant can refer to the values')


def build(repo=None):
    src = open(os.path.join(repo or U.REPO, FI)).read()
    repaired = 'fn attr_value_from_name_within(' in src
    fns = {}
    P = ['C03']
    if repaired:
        fns['within'] = Fn(FI, None, 'attr_value_from_name_within', props=P, safety_props=P, label='info::attr_value_from_name_within',
                           rules=RULES + [R_FOR], loops=LOOP, decreases='depth')
        fns['outer'] = Fn(FI, None, 'attr_value_from_name', props=P, safety_props=P, label='info::attr_value_from_name',
                          rules=[Rule('R48', r'let depth = context\s*\.document\(\).*?\+ 1;', 'let depth = context.shim_entity_chain_bound();',
                                      'count of the declared entities over the live document -> shim (any bound terminates the recursion)')])
        slots = '//@@ within\n\n//@@ outer\n'
    else:
        fns['outer'] = Fn(FI, None, 'attr_value_from_name', props=P, safety_props=P, label='info::attr_value_from_name',
                          rules=RULES + [R_FOR], loops=LOOP, decreases='entity_rank(name@)')
        slots = '//@@ outer\n'
    return ENV.replace('@FNS@', slots), fns


TEMPLATE, FNS = build()
UNIT = dict(name='c03_entity', template=TEMPLATE, fns=FNS, props=['C03'], build=build)
