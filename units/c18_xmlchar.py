"""C18 (classification half): nom/src/xmlchar.rs is_* against productions [2] [4] [4a] [13] [81]."""
import json
import os

from vf.unit import Fn, Rule

HERE = os.path.dirname(os.path.abspath(__file__))
SPEC = json.load(open(os.path.join(HERE, '..', 'spec', 'xml_chars.json')))


def ranges_spec(name, ranges):
    terms = []
    for a, b in ranges:
        if a == b:
            terms.append(f'c == {a:#x}')
        else:
            terms.append(f'({a:#x} <= c && c <= {b:#x})')
    return f'pub open spec fn {name}(c: u32) -> bool {{\n    ' + '\n    || '.join(terms) + '\n}\n'


def char_specs():
    s = ''
    s += ranges_spec('p2_char', SPEC['p2_char'])
    s += ranges_spec('p4_name_start_char', SPEC['p4_name_start_char'])
    s += ranges_spec('p4a_extra', SPEC['p4a_name_char_extra'])
    s += 'pub open spec fn p4a_name_char(c: u32) -> bool { p4_name_start_char(c) || p4a_extra(c) }\n'
    s += ranges_spec('p13_pubid_char', SPEC['p13_pubid_char'])
    s += ranges_spec('p81_enc_name_tail', SPEC['p81_enc_name_tail'])
    return s


ASCII_ASSUMED = '''
// assumed contracts of three std functions (A2): documented behaviour of char::is_ascii_*
pub assume_specification [<char>::is_ascii_digit] (c: &char) -> (r: bool)
    ensures r == ('0' <= *c && *c <= '9');
pub assume_specification [<char>::is_ascii_lowercase] (c: &char) -> (r: bool)
    ensures r == ('a' <= *c && *c <= 'z');
pub assume_specification [<char>::is_ascii_uppercase] (c: &char) -> (r: bool)
    ensures r == ('A' <= *c && *c <= 'Z');
'''

TEMPLATE = '''use vstd::prelude::*;
verus! {
''' + char_specs() + ASCII_ASSUMED + '''
// std `str::contains(char)` as used by the *_except helpers: shim whose body is the original expression (A2)
#[verifier::external_body]
pub fn shim_str_contains_char(excepts: &str, value: char) -> (r: bool)
    ensures r == excepts@.contains(value),
{
    excepts.contains(value)
}

//@@ is_char
//@@ is_name_start_char
//@@ is_name_char
//@@ is_pubid_char
//@@ is_enc_name
//@@ is_char_except
//@@ is_name_char_except
//@@ is_pubid_char_except
} // verus!
fn main() {}
'''

F = 'nom/src/xmlchar.rs'
R8 = Rule('R8', r'excepts\.contains\(value\)', 'shim_str_contains_char(excepts, value)',
          'str::contains(char) -> shim with contract r == excepts@.contains(value)')

FNS = {
    'is_char': Fn(F, None, 'is_char', ensures=[('matches_production_2', 'r == p2_char(value as u32)')]),
    'is_name_start_char': Fn(F, None, 'is_name_start_char',
                             ensures=[('matches_production_4', 'r == p4_name_start_char(value as u32)')]),
    'is_name_char': Fn(F, None, 'is_name_char',
                       ensures=[('matches_production_4a', 'r == p4a_name_char(value as u32)')]),
    'is_pubid_char': Fn(F, None, 'is_pubid_char',
                        ensures=[('matches_production_13', 'r == p13_pubid_char(value as u32)')]),
    'is_enc_name': Fn(F, None, 'is_enc_name',
                      ensures=[('matches_production_81_tail', 'r == p81_enc_name_tail(value as u32)')]),
    'is_char_except': Fn(F, None, 'is_char_except', rules=[R8],
                         ensures=[('char_minus_excepts', 'r == (p2_char(value as u32) && !excepts@.contains(value))')]),
    'is_name_char_except': Fn(F, None, 'is_name_char_except', rules=[R8],
                              ensures=[('namechar_minus_excepts', 'r == (p4a_name_char(value as u32) && !excepts@.contains(value))')]),
    'is_pubid_char_except': Fn(F, None, 'is_pubid_char_except', rules=[R8],
                               ensures=[('pubidchar_minus_excepts', 'r == (p13_pubid_char(value as u32) && !excepts@.contains(value))')]),
}

UNIT = dict(name='c18_xmlchar', template=TEMPLATE, fns=FNS, props=['C18'])
