"""C16 (and the character-data part of C13): DOM Level 1 CharacterData on text, comment and CDATA nodes.

Three layers, each verified against the contracts of the layer below (never its body):
  info helpers  delete_char_range / insert_char_at            (info/src/lib.rs, top level)
  info methods  Xml{Text,Comment,CData}::{len,substring,delete,insert}   (info/src/lib.rs)
  DOM methods   {length,substring_data,insert_data,delete_data} x 3 node kinds (dom/src/lib.rs) and the
                CharacterDataMut trait defaults {append_data,set_data,replace_data}, instantiated per kind.

Abstract state of a node: its data as Seq<char>.  `accepts_K(s)` is the (assumed, A3) verdict of the nom-based
validity checker of node kind K on an inserted fragment."""
from vf.unit import Fn, Rule
from units import info_helpers as H
from units.c18_xmlchar import ranges_spec, SPEC

KINDS = [
    # key, info type, info field, insert-param, dom type, checker
    ('text', 'XmlText', 'text', 'text', 'XmlText', 'check_text', 'accepts_text'),
    ('comment', 'XmlComment', 'comment', 'comment', 'XmlComment', 'check_comment', 'accepts_comment'),
    ('cdata', 'XmlCData', 'data', 'data', 'XmlCDataSection', 'check_cdata', 'accepts_cdata'),
]

INFO_ENV = '''
pub mod info {
    use vstd::prelude::*;
    use core::ops::Range;

    pub mod error {
        use vstd::prelude::*;
        // info/src/error.rs, variants only
        pub enum Error {
            IsolatedNode,
            InvalidData(String),
            InvalidHierarchy,
            InvalidType,
            NotFoundDoumentElement,
            NotFoundReference(String),
            OufOfIndex(usize),
            Parse(String),
        }
        pub type Result<T> = core::result::Result<T, Error>;
    }

    pub open spec fn min_int(a: int, b: int) -> int { if a < b { a } else { b } }

    // the DOM Level 1 meaning of deleteData / insertData / substringData over the character sequence
    pub open spec fn deleted(s: Seq<char>, o: int, c: int) -> Seq<char> {
        s.subrange(0, min_int(o, s.len() as int)) + s.subrange(min_int(o + c, s.len() as int), s.len() as int)
    }
    pub open spec fn spliced(s: Seq<char>, o: int, n: Seq<char>) -> Seq<char> {
        s.subrange(0, min_int(o, s.len() as int)) + n + s.subrange(min_int(o, s.len() as int), s.len() as int)
    }
    pub open spec fn clipped(s: Seq<char>, a: int, b: int) -> Seq<char> {
        s.subrange(min_int(a, s.len() as int), min_int(b, s.len() as int))
    }

    // ---- std shims (A2): body = the original std expression, contract = its documented behaviour ----
    #[verifier::external_body]
    pub fn shim_chars_vec(s: &str) -> (r: Vec<char>)
        ensures r@ == s@,
    {
        s.chars().collect::<Vec<char>>()
    }

    #[verifier::external_body]
    pub fn shim_string_of(v: &Vec<char>) -> (r: String)
        ensures r@ == v@, r@.len() <= usize::MAX,   // a String holds at most isize::MAX bytes, hence characters
    {
        v.iter().collect()
    }

    // Vec::drain(a..b) panics unless a <= b <= len: the panic condition is the shim's precondition
    #[verifier::external_body]
    pub fn shim_drain(v: &mut Vec<char>, a: usize, b: usize)
        requires a <= b, b <= old(v)@.len(),
        ensures final(v)@ == old(v)@.subrange(0, a as int) + old(v)@.subrange(b as int, old(v)@.len() as int),
    {
        v.drain(a..b);
    }

    #[verifier::external_body]
    pub fn shim_to_string(s: &str) -> (r: String)
        ensures r@ == s@,
    {
        s.to_string()
    }

    #[verifier::external_body]
    pub fn shim_char_count(s: &String) -> (r: usize)
        ensures r == s@.len(),
    {
        s.chars().count()
    }

    #[verifier::external_body]
    pub fn shim_str_char_count(s: &str) -> (r: usize)
        ensures r == s@.len(),
    {
        s.chars().count()
    }

    #[verifier::external_body]
    pub fn shim_as_str(s: &String) -> (r: &str)
        ensures r@ == s@,
    {
        s.as_str()
    }

    // s.chars().skip(a).take(n).collect(): saturating at the end of the string, never panics
    #[verifier::external_body]
    pub fn shim_skip_take(s: &String, a: usize, n: usize) -> (r: String)
        ensures r@ == clipped(s@, a as int, a as int + n as int),
    {
        s.chars().skip(a).take(n).collect()
    }

    // String::len is the UTF-8 BYTE length: given its real contract so that byte/character confusion is refuted,
    // not merely unsupported
    pub open spec fn utf8_width(c: char) -> nat {
        if (c as u32) < 0x80 { 1 } else if (c as u32) < 0x800 { 2 } else if (c as u32) < 0x10000 { 3 } else { 4 }
    }
    pub open spec fn utf8_len(s: Seq<char>) -> nat
        decreases s.len(),
    {
        if s.len() == 0 { 0 } else { utf8_width(s[0]) + utf8_len(s.subrange(1, s.len() as int)) }
    }
    pub assume_specification [String::len] (s: &String) -> (r: usize)
        ensures r == utf8_len(s@);

    // ---- lexical validity of stored character data (XML 1.0 productions [14] CharData, [15] Comment, [20] CData) ----
@P2CHAR@
    pub open spec fn all_chars(s: Seq<char>) -> bool { forall|i: int| 0 <= i < s.len() ==> p2_char(#[trigger] s[i] as u32) }
    pub open spec fn has_cdata_end(s: Seq<char>) -> bool {
        exists|i: int| 0 <= i && i + 2 < s.len() && #[trigger] s[i] == ']' && s[i + 1] == ']' && s[i + 2] == '>'
    }
    pub open spec fn has_double_hyphen(s: Seq<char>) -> bool {
        exists|i: int| 0 <= i && i + 1 < s.len() && #[trigger] s[i] == '-' && s[i + 1] == '-'
    }
    pub open spec fn valid_text(s: Seq<char>) -> bool {
        all_chars(s) && (forall|i: int| 0 <= i < s.len() ==> #[trigger] s[i] != '<' && s[i] != '&') && !has_cdata_end(s)
    }
    pub open spec fn valid_comment(s: Seq<char>) -> bool {
        all_chars(s) && !has_double_hyphen(s) && (s.len() > 0 ==> s.last() != '-')
    }
    pub open spec fn valid_cdata(s: Seq<char>) -> bool { all_chars(s) && !has_cdata_end(s) }

    // ---- A3: the nom-based validity checkers passed to insert_char_at (xml_parser::content/comment/cdsect) are
    //      assumed to DECIDE the lexical validity of their argument; the parser itself is not verified ----
    pub open spec fn accepts_text(s: Seq<char>) -> bool { valid_text(s) }
    pub open spec fn accepts_comment(s: Seq<char>) -> bool { valid_comment(s) }
    pub open spec fn accepts_cdata(s: Seq<char>) -> bool { valid_cdata(s) }

    #[verifier::external_body]
    pub fn check_text(value: &str) -> (r: error::Result<bool>)
        ensures r is Ok ==> r->Ok_0 == accepts_text(value@), r is Err ==> !accepts_text(value@),
    {
        unimplemented!()
    }

    #[verifier::external_body]
    pub fn check_comment(value: &str) -> (r: error::Result<bool>)
        ensures r is Ok ==> r->Ok_0 == accepts_comment(value@), r is Err ==> !accepts_comment(value@),
    {
        unimplemented!()
    }

    #[verifier::external_body]
    pub fn check_cdata(value: &str) -> (r: error::Result<bool>)
        ensures r is Ok ==> r->Ok_0 == accepts_cdata(value@), r is Err ==> !accepts_cdata(value@),
    {
        unimplemented!()
    }

    // what a checker passed as a closure / fn item answered about a character sequence
    pub open spec fn check_says<F: Fn(&str) -> error::Result<bool>>(check: F, s: Seq<char>, verdict: error::Result<bool>) -> bool {
        exists|p: &str| p@ == s && #[trigger] check.ensures((p,), verdict)
    }

    // ---- extracted from /repo/info/src/lib.rs: helpers ----
    //@@ delete_char_range

    //@@ insert_char_at

    // ---- environment receivers: only the field the extracted bodies touch (parent_id, context dropped) ----
    pub struct XmlText { pub text: String }
    pub struct XmlComment { pub comment: String }
    pub struct XmlCData { pub data: String }

    // XmlText::node(..) / XmlCData::node(..) + as_text()/as_cdata(): the freshly built sibling item holds the string
    pub fn shim_sibling_text(text: String) -> (r: XmlText) ensures r.text@ == text@ { XmlText { text } }
    pub fn shim_sibling_cdata(data: String) -> (r: XmlCData) ensures r.data@ == data@ { XmlCData { data } }

    // ---- extracted from /repo/info/src/lib.rs: methods ----
@INFO_IMPLS@
}
'''

DOM_ENV = '''
pub mod error {
    use vstd::prelude::*;
    use crate::info;
    // dom/src/error.rs
    pub enum DomException {
        IndexSizeErr,
        DomStringSizeErr,
        HierarchyRequestErr,
        WrongDocumentErr,
        InvalidCharacterErr,
        NoDataAllowedErr,
        NoModificationAllowedErr,
        NotFoundErr,
        NotSupportErr,
        InuseAttributeErr,
    }
    pub enum Error {
        Dom(DomException),
        Info(info::error::Error),
        Parse(String),
    }
    pub type Result<T> = core::result::Result<T, Error>;

    impl vstd::std_specs::convert::FromSpecImpl<DomException> for Error {
        open spec fn obeys_from_spec() -> bool { true }
        open spec fn from_spec(v: DomException) -> Error { Error::Dom(v) }
    }
    impl vstd::std_specs::convert::FromSpecImpl<info::error::Error> for Error {
        open spec fn obeys_from_spec() -> bool { true }
        open spec fn from_spec(v: info::error::Error) -> Error { Error::Info(v) }
    }
    impl From<DomException> for Error {
        //@@ from_dom_exception
    }
    impl From<info::error::Error> for Error {
        //@@ from_info_error
    }

    pub open spec fn index_size(e: Error) -> bool { e == Error::Dom(DomException::IndexSizeErr) }
}

use info::{deleted, spliced, clipped, min_int, shim_str_char_count};

// ---- environment receivers (R11/R14): Rc<RefCell<info::X>> becomes the value itself; borrow()/borrow_mut() are
//      dropped by the rewrite rules, mutating `&self` methods take `&mut self` (A4) ----
pub struct XmlText { pub data: info::XmlText }
pub struct XmlComment { pub data: info::XmlComment }
pub struct XmlCDataSection { pub data: info::XmlCData }

// Result<String, _>::unwrap_or_default(): the string, or the empty string on Err
#[verifier::external_body]
pub fn shim_string_or_default(r: error::Result<String>) -> (out: String)
    ensures r is Ok ==> out@ == r->Ok_0@, r is Err ==> out@ == Seq::<char>::empty(),
{
    r.unwrap_or_default()
}

// the merged-text view (text_expanded): its data() concatenates the pieces it stands for and can fail (assumed callee)
pub struct XmlExpandedText { pub pieces: Ghost<Seq<char>>, pub fails: Ghost<bool> }
impl XmlExpandedText {
    pub open spec fn view_data(self) -> Seq<char> { if self.fails@ { Seq::<char>::empty() } else { self.pieces@ } }
    #[verifier::external_body]
    pub fn data(&self) -> (r: error::Result<String>)
        ensures self.fails@ ==> r is Err, !self.fails@ ==> r is Ok && r->Ok_0@ == self.pieces@ && r->Ok_0@.len() <= usize::MAX,
    { unimplemented!() }

    //@@ dom_expanded_length

    //@@ dom_expanded_substring_data
}

// ---- extracted from /repo/dom/src/lib.rs ----
@DOM_IMPLS@
'''

FI = 'info/src/lib.rs'
FD = 'dom/src/lib.rs'

R_BORROW = Rule('R11', r'self\.data\.borrow(?:_mut)?\(\)\.', 'self.data.',
                'RefCell borrow dropped: receiver field holds the value itself (A4)')
R_MUTSELF = Rule('R14', r'\(&self\b', '(&mut self', '&self of a method that mutates through RefCell -> &mut self (A4)')
R_ERRQ = Rule('R16', r'Err\((error::DomException::\w+)\)\?', r'return Err(error::Error::from(\1))',
              '`Err(x)?` desugared by hand to `return Err(From::from(x))` (definition of `?`; Verus does not link the From impl at `?`)')
R_CALLQ = Rule('R16', r'(self\.data\.insert\(offset, arg\))\?;',
               r'match \1 { Ok(v) => v, Err(e) => return Err(error::Error::from(e)) };',
               '`call?;` with error conversion desugared by hand to its match form')
R_REPLQ = Rule('R16', r'(self\.delete_data\(offset, count\))\?;',
               r'match \1 { Ok(v) => v, Err(e) => return Err(e) };',
               '`call?;` (same error type) desugared to its match form')


def strip_check(checker):
    return [Rule('R17', r'fn check\(value: &str\) -> error::Result<bool> \{.*?\n        \}', '',
                 'nested nom-based `fn check` removed; the environment supplies it as an assumed callee (A3)'),
            Rule('R17', r', check\)\?;', f', {checker})?;', 'the nested checker is the environment function of this node kind')]


PUB = Rule('R12', r'^fn ', 'pub fn ', 'visibility inside the environment module (no runtime meaning)')


def build():
    fns = {}
    info_impls = []
    dom_impls = []
    # helpers: same contracts as in units/info_helpers.py, inside `mod info`
    fns['delete_char_range'] = Fn(
        FI, None, 'delete_char_range', props=['C16'], safety_props=['C16'],
        sig_rules=[Rule('R12', r'^fn ', 'pub fn ', 'visibility inside the environment module')],
        ensures=[('C16:deletes_clipped_range', 'r@ == deleted(value@, offset as int, count as int)')])
    SP = 'spliced(value@, offset as int, new@)'
    fns['insert_char_at'] = Fn(
        FI, None, 'insert_char_at', props=['C16'], safety_props=['C16'],
        sig_rules=[Rule('R12', r'^fn ', 'pub fn ', 'visibility inside the environment module')],
        requires=[('check_total', 'forall|s: &str| check.requires((s,))')],
        ensures=[('C16:ok_is_spliced', f'r is Ok ==> r->Ok_0@ == {SP}'),
                 ('C16:length_fits_usize', 'r is Ok ==> r->Ok_0@.len() <= usize::MAX'),
                 ('C16+C15:ok_only_if_checker_accepts_the_joined_string', f'r is Ok ==> check_says(check, {SP}, Ok::<bool, error::Error>(true))'),
                 ('C16+C13:refusal_is_invalid_data_or_checker_error',
                  f'r is Err ==> (r->Err_0 is InvalidData && check_says(check, {SP}, Ok::<bool, error::Error>(false)))'
                  f' || check_says(check, {SP}, Err::<bool, error::Error>(r->Err_0))')],
        rules=[H.R_TOSTR, Rule('R37', r'joined\.as_str\(\)', 'shim_as_str(&joined)', 'String::as_str -> shim returning a &str with the same characters')])
    fns['from_dom_exception'] = Fn('dom/src/error.rs', 'impl From<DomException> for Error', 'from', props=['C16'], no_twin=True,
                                   label='dom::error::From<DomException>::from')
    fns['from_info_error'] = Fn('dom/src/error.rs', 'impl From<xml_info::error::Error> for Error', 'from', props=['C16'], no_twin=True,
                                sig_rules=[Rule('R12', r'xml_info::error::Error', 'info::error::Error', 'crate path of the environment module')],
                                label='dom::error::From<info::Error>::from')
    for (k, ity, fld, par, dty, checker, accepts) in KINDS:
        S = f'self.{fld}@'
        O = f'old(self).{fld}@'
        N = f'final(self).{fld}@'
        own = f'impl {ity}'
        L = f'info::{ity}'
        split = f'\n\n        //@@ info_{k}_split_at' if k != 'comment' else ''
        info_impls.append(f'    impl {ity} {{\n        //@@ info_{k}_len\n\n        //@@ info_{k}_substring\n\n'
                          f'        //@@ info_{k}_delete\n\n        //@@ info_{k}_insert{split}\n    }}\n')
        if k != 'comment':
            var = 'text2' if k == 'text' else 'data2'
            getter = 'as_text' if k == 'text' else 'as_cdata'
            fns[f'info_{k}_split_at'] = Fn(
                FI, own, 'split_at', props=['C16'], label=f'{L}::split_at',
                sig_rules=[PUB, Rule('R41', r'-> XmlNode<Self>', f'-> {ity}', 'XmlNode<Self> (Rc<RefCell<Self>>) -> the new item itself (A4)')],
                skip_global=['R1'],
                rules=[Rule('R1', rf'self\.{fld}\.chars\(\)\.collect::<Vec<char>>\(\)', f'shim_chars_vec(self.{fld}.as_str())', 'std iterator adapter -> shim (receiver is a String field)'),
                       Rule('R41', rf'let node = {ity}::node\({var}\.as_str\(\), self\.parent_id\(\), self\.context\(\)\);\s*node\.{getter}\(\)\.unwrap\(\)',
                            f'shim_sibling_{k}({var})', 'construction of the sibling item (context registration, parent id) -> environment constructor holding the same string')],
                ensures=[('C16:two_halves_concatenate_to_the_original', f'{N} + r.{fld}@ == {O}'),
                         ('C16:split_point_is_the_clipped_offset', f'{N}.len() == min_int(offset as int, {O}.len() as int)'),
                         ('C15:both_halves_stay_valid', f'{accepts}({O}) ==> {accepts}({N}) && {accepts}(r.{fld}@)')])
        fns[f'info_{k}_len'] = Fn(FI, own, 'len', props=['C16'], label=f'{L}::len', sig_rules=[PUB],
                                  ensures=[('C16:counts_characters', f'r == {S}.len()')])
        fns[f'info_{k}_substring'] = Fn(
            FI, own, 'substring', props=['C16'], label=f'{L}::substring', sig_rules=[PUB],
            requires=[('ordered_range', 'range.start <= range.end')],
            ensures=[('C16:clipped_subsequence', f'r@ == clipped({S}, range.start as int, range.end as int)')])
        fns[f'info_{k}_delete'] = Fn(
            FI, own, 'delete', props=['C16'], label=f'{L}::delete', sig_rules=[PUB],
            ensures=[('C16:deletes_clipped_range', f'{N} == deleted({O}, offset as int, count as int)'),
                     ('C15:stored_data_stays_valid', f'{accepts}({O}) ==> {accepts}({N})')])
        fns[f'info_{k}_insert'] = Fn(
            FI, own, 'insert', props=['C16'], label=f'{L}::insert', rules=strip_check(checker), sig_rules=[PUB],
            ensures=[('C16:valid_result_is_stored', f'{accepts}(spliced({O}, offset as int, {par}@)) ==> r is Ok && {N} == spliced({O}, offset as int, {par}@)'),
                     ('C16+C13:invalid_result_is_refused_and_changes_nothing', f'!{accepts}(spliced({O}, offset as int, {par}@)) ==> r is Err && {N} == {O}'),
                     ('C16:length_fits_usize', f'r is Ok ==> {N}.len() <= usize::MAX'),
                     ('C13:error_changes_nothing', f'r is Err ==> {N} == {O}'),
                     ('C15:stored_data_stays_valid', f'r is Ok ==> {accepts}({N})')])
        # DOM layer
        D = f'self.data.{fld}@'
        DO = f'old(self).data.{fld}@'
        DN = f'final(self).data.{fld}@'
        LD = f'dom::{dty}'
        dom_impls.append(f'impl {dty} {{\n    //@@ dom_{k}_length\n\n    //@@ dom_{k}_substring_data\n\n    //@@ dom_{k}_insert_data\n\n'
                         f'    //@@ dom_{k}_delete_data\n\n    //@@ dom_{k}_append_data\n\n    //@@ dom_{k}_replace_data\n\n    //@@ dom_{k}_set_data\n}}\n')
        fns[f'dom_{k}_length'] = Fn(FD, f'impl CharacterData for {dty}', 'length', props=['C16'], label=f'{LD}::length',
                                    rules=[R_BORROW], ensures=[('C16:counts_characters', f'r == {D}.len()')])
        fns[f'dom_{k}_substring_data'] = Fn(
            FD, f'impl CharacterData for {dty}', 'substring_data', props=['C16'], label=f'{LD}::substring_data',
            rules=[R_BORROW, R_ERRQ],
            ensures=[('C16:offset_past_end_is_index_size_err', f'offset > {D}.len() ==> r is Err && error::index_size(r->Err_0)'),
                     ('C16:count_clipped_to_end', f'offset <= {D}.len() ==> r is Ok && r->Ok_0@ == {D}.subrange(offset as int, min_int(offset as int + count as int, {D}.len() as int))')])
        fns[f'dom_{k}_insert_data'] = Fn(
            FD, f'impl CharacterDataMut for {dty}', 'insert_data', props=['C16'], label=f'{LD}::insert_data',
            rules=[R_BORROW, R_ERRQ, R_CALLQ], sig_rules=[R_MUTSELF],
            ensures=[('C16+C13:offset_past_end_is_index_size_err', f'offset > {DO}.len() ==> r is Err && error::index_size(r->Err_0) && {DN} == {DO}'),
                     ('C16:inserts_at_offset', f'offset <= {DO}.len() && info::{accepts}({DO}.subrange(0, offset as int) + arg@ + {DO}.subrange(offset as int, {DO}.len() as int)) ==> r is Ok && {DN} == {DO}.subrange(0, offset as int) + arg@ + {DO}.subrange(offset as int, {DO}.len() as int)'),
                     ('C16:length_fits_usize', f'r is Ok ==> {DN}.len() <= usize::MAX'),
                     ('C13:error_changes_nothing', f'r is Err ==> {DN} == {DO}'),
                     ('C13:invalid_result_is_error', f'offset <= {DO}.len() && !info::{accepts}({DO}.subrange(0, offset as int) + arg@ + {DO}.subrange(offset as int, {DO}.len() as int)) ==> r is Err'),
                     ('C15:stored_data_stays_valid', f'r is Ok ==> info::{accepts}({DN})')])
        fns[f'dom_{k}_delete_data'] = Fn(
            FD, f'impl CharacterDataMut for {dty}', 'delete_data', props=['C16'], label=f'{LD}::delete_data',
            rules=[R_BORROW, R_ERRQ], sig_rules=[R_MUTSELF],
            ensures=[('C16+C13:offset_past_end_is_index_size_err', f'offset > {DO}.len() ==> r is Err && error::index_size(r->Err_0) && {DN} == {DO}'),
                     ('C16:count_clipped_to_end', f'offset <= {DO}.len() ==> r is Ok && {DN} == {DO}.subrange(0, offset as int) + {DO}.subrange(min_int(offset as int + count as int, {DO}.len() as int), {DO}.len() as int)'),
                     ('C13:error_changes_nothing', f'r is Err ==> {DN} == {DO}')])
        TR = 'pub trait CharacterDataMut: CharacterData + NodeMut'
        fns[f'dom_{k}_append_data'] = Fn(
            FD, TR, 'append_data', props=['C16'], label=f'{LD}::append_data (trait default)', sig_rules=[R_MUTSELF],
            ensures=[('C16:appends', f'info::{accepts}({DO}.subrange(0, {DO}.len() as int) + arg@ + {DO}.subrange({DO}.len() as int, {DO}.len() as int)) ==> r is Ok && {DN} == {DO} + arg@'),
                     ('C15:stored_data_stays_valid', f'r is Ok ==> info::{accepts}({DN})'),
                     ('C13:error_changes_nothing', f'r is Err ==> {DN} == {DO}')])
        fns[f'dom_{k}_replace_data'] = Fn(
            FD, TR, 'replace_data', props=['C16'], label=f'{LD}::replace_data (trait default)', sig_rules=[R_MUTSELF], rules=[R_REPLQ],
            ensures=[('C16+C13:offset_past_end_is_index_size_err', f'offset > {DO}.len() ==> r is Err && error::index_size(r->Err_0) && {DN} == {DO}'),
                     ('C16:replaces_clipped_range', f'offset <= {DO}.len() && info::{accepts}({DO}.subrange(0, offset as int) + arg@ + {DO}.subrange(offset as int, {DO}.len() as int)) ==> r is Ok && {DN} == {DO}.subrange(0, offset as int) + arg@ + {DO}.subrange(min_int(offset as int + count as int, {DO}.len() as int), {DO}.len() as int)'),
                     ('C13:error_changes_nothing', f'r is Err ==> {DN} == {DO}')])
        fns[f'dom_{k}_set_data'] = Fn(
            FD, TR, 'set_data', props=['C16'], label=f'{LD}::set_data (trait default)', sig_rules=[R_MUTSELF],
            ensures=[('C16:replaces_everything', f'info::{accepts}({DO}.subrange(0, 0) + data@ + {DO}.subrange(0, {DO}.len() as int)) ==> r is Ok && {DN} == data@'),
                     ('C13:error_changes_nothing', f'r is Err ==> {DN} == {DO}')])
    EX = 'impl CharacterData for XmlExpandedText'
    fns['dom_expanded_length'] = Fn(FD, EX, 'length', props=['C16'], label='dom::XmlExpandedText::length', sig_rules=[PUB],
                                    rules=[Rule('R5', r'self\.data\(\)\.unwrap_or_default\(\)\.chars\(\)\.count\(\)', 'info::shim_char_count(&shim_string_or_default(self.data()))', 'unwrap_or_default + chars().count() -> shims')],
                                    skip_global=['R5'],
                                    ensures=[('C16:counts_characters', 'r == self.view_data().len()')])
    fns['dom_expanded_substring_data'] = Fn(
        FD, EX, 'substring_data', props=['C16'], label='dom::XmlExpandedText::substring_data', sig_rules=[PUB], skip_global=['R5', 'R4'],
        rules=[Rule('R5', r'data\.chars\(\)\.count\(\)', 'info::shim_char_count(&data)', 'chars().count() -> shim'),
               Rule('R42', r'self\.data\(\)\.unwrap_or_default\(\)', 'shim_string_or_default(self.data())', 'Result::unwrap_or_default -> shim'),
               Rule('R4', r'data\.chars\(\)\.skip\(offset\)\.take\(count\)\.collect\(\)', 'info::shim_skip_take(&data, offset, count)', 'chars().skip().take().collect() -> shim'),
               Rule('R16', r'Err\((error::DomException::\w+)\)\?', r'return Err(error::Error::from(\1))', '`Err(x)?` desugared by hand')],
        ensures=[('C16:offset_past_end_is_index_size_err', 'offset > self.view_data().len() ==> r is Err && error::index_size(r->Err_0)'),
                 ('C16:count_clipped_to_end', 'offset <= self.view_data().len() ==> r is Ok && r->Ok_0@ == self.view_data().subrange(offset as int, min_int(offset as int + count as int, self.view_data().len() as int))')])
    template = ('use vstd::prelude::*;\nverus! {\n' + INFO_ENV.replace('@P2CHAR@', '    ' + ranges_spec('p2_char', SPEC['p2_char']).replace('\n', '\n    ')).replace('@INFO_IMPLS@', '\n'.join(info_impls))
                + DOM_ENV.replace('@DOM_IMPLS@', '\n'.join(dom_impls)) + '\n} // verus!\nfn main() {}\n')
    return template, fns


TEMPLATE, FNS = build()
UNIT = dict(name='c16_chardata', template=TEMPLATE, fns=FNS, props=['C16'])
