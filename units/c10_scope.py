"""C10, the document side: namespace scoping in the information set -- `XmlElement::{namespaces, in_scope_namespace,
find_nameapce_uri, namespace_name}` and `XmlAttribute::namespace_name` (info/src/lib.rs).

Model: an element is a concrete recursive value: its own namespace-declaration attributes (name, normalized value) and its
parent item (`Box<XmlElement>`, the document, or nothing), so the walk up the ancestors is structural recursion (RefCell / id
map dropped as everywhere, A4).  Specification, Namespaces in XML 1.0, written without reference to the code:

  own_decl(attrs, key)   the declaration the element itself carries for a key ("xmlns" stands for the default namespace)
  lookup(e, key)         the NEAREST enclosing declaration; at the document the xml prefix is bound
  resolve(e, key)        lookup, where a declaration with an empty value un-declares

Contracts: `namespaces` lists the element's own declarations as namespace items; `in_scope_namespace` returns exactly one item
per key that resolves, with the resolved URI (sound, complete, no key twice) -- by induction through the contract of the
recursive call on the parent; `find_nameapce_uri(prefix)` = resolve(e, prefix); the element's `namespace_name()` =
resolve(e, its prefix or "xmlns") -- so the default namespace applies to unprefixed elements and is inherited;
`XmlAttribute::namespace_name()` is None for an unprefixed attribute (the default namespace never applies to attributes) and
resolve(owner, prefix) otherwise.  Preconditions: at most one declaration per key on an element (a well-formedness
constraint), no prefix spelled "xmlns"."""
from vf.unit import Fn, Rule

FI = 'info/src/lib.rs'

ENV = r'''use vstd::prelude::*;
verus! {
pub mod error {
    pub enum Error { IsolatedNode, InvalidData(String), InvalidHierarchy, InvalidType, NotFoundDoumentElement, NotFoundReference(String), OufOfIndex(usize), Parse(String) }
    pub type Result<T> = core::result::Result<T, Error>;
}

// a namespace-declaration attribute (an attribute whose `namespace()` is true): `xmlns="u"` has local name "xmlns",
// `xmlns:p="u"` has local name "p"; `value`: what normalized_value() answers (None: an error)
pub struct NsAttr { pub name: String, pub value: Ghost<Option<Seq<char>>> }
impl NsAttr {
    #[verifier::external_body]
    pub fn local_name(&self) -> (r: &str) ensures r@ == self.name@ { unimplemented!() }
    #[verifier::external_body]
    pub fn normalized_value(&self) -> (r: error::Result<String>)
        ensures r is Ok <==> self.value@ is Some, r is Ok ==> r->Ok_0@ == self.value@->Some_0,
    { unimplemented!() }
}
pub enum ParentItem { Element(Box<XmlElement>), Document, Other }
pub struct XmlElement { pub local_name: String, pub prefix: Option<String>, pub ns_attrs: Vec<NsAttr>, pub parent: Option<ParentItem> }
// XmlNamespace information item
pub struct XmlNamespace { pub prefix: Option<String>, pub namespace_name: String, pub implicit: bool }

pub open spec fn xmlns_key() -> Seq<char> { seq!['x', 'm', 'l', 'n', 's'] }
pub open spec fn xml_key() -> Seq<char> { seq!['x', 'm', 'l'] }
pub uninterp spec fn xml_ns() -> Seq<char>;   // http://www.w3.org/XML/1998/namespace

// Namespaces in XML 1.0.  Keys: "xmlns" stands for the default namespace, any other key is a prefix.
// the declaration an element itself carries for a key (the first one; well-formed elements have at most one)
pub open spec fn own_decl(attrs: Seq<NsAttr>, key: Seq<char>) -> Option<Seq<char>>
    decreases attrs.len(),
{
    if attrs.len() == 0 { None } else if attrs[0].name@ == key && attrs[0].value@ is Some { attrs[0].value@ } else { own_decl(attrs.subrange(1, attrs.len() as int), key) }
}
// the nearest enclosing declaration; at the document the xml prefix is bound
pub open spec fn lookup(e: XmlElement, key: Seq<char>) -> Option<Seq<char>>
    decreases e,
{
    match own_decl(e.ns_attrs@, key) {
        Some(u) => Some(u),
        None => match e.parent {
            Some(ParentItem::Element(p)) => lookup(*p, key),
            Some(ParentItem::Document) => if key == xml_key() { Some(xml_ns()) } else { None },
            _ => None,
        },
    }
}
// a declaration with an empty value un-declares
pub open spec fn resolve(e: XmlElement, key: Seq<char>) -> Option<Seq<char>> {
    match lookup(e, key) { Some(u) => if u.len() > 0 { Some(u) } else { None }, None => None }
}
pub open spec fn key_of(n: XmlNamespace) -> Seq<char> { match n.prefix { Some(p) => p@, None => xmlns_key() } }

// ---- shims ----
#[verifier::external_body]
pub fn shim_is_xmlns(s: &str) -> (r: bool) ensures r == (s@ == xmlns_key()) { s == "xmlns" }
#[verifier::external_body]
pub fn shim_str_eq(a: &str, b: &str) -> (r: bool) ensures r == (a@ == b@) { a == b }
#[verifier::external_body]
pub fn shim_to_string(s: &str) -> (r: String) ensures r@ == s@ { s.to_string() }
pub fn node<T>(t: T) -> (r: T) ensures r == t { t }
pub struct UnorderedSet {}
impl UnorderedSet { pub fn new<T>(items: Vec<T>) -> (r: Vec<T>) ensures r == items { items } }

// what a list of namespace items says about a key
pub open spec fn has_key(items: Seq<XmlNamespace>, key: Seq<char>) -> bool { exists|i: int| 0 <= i < items.len() && key_of(#[trigger] items[i]) == key }
pub open spec fn distinct_keys(items: Seq<XmlNamespace>) -> bool { forall|i: int, j: int| 0 <= i < j < items.len() ==> key_of(#[trigger] items[i]) != key_of(#[trigger] items[j]) }
// items.iter().any(|v| v.prefix() == ns.prefix())
#[verifier::external_body]
pub fn shim_any_same_prefix(items: &Vec<XmlNamespace>, ns: &XmlNamespace) -> (r: bool)
    ensures r == (exists|i: int| 0 <= i < items@.len() && same_prefix(#[trigger] items@[i], *ns)),
{ unimplemented!() }
// items.retain(|v| !v.namespace_name().is_empty())
#[verifier::external_body]
pub fn shim_retain_declared(items: &mut Vec<XmlNamespace>)
    ensures final(items)@ == old(items)@.filter(|v: XmlNamespace| v.namespace_name@.len() > 0),
{ unimplemented!() }

impl XmlNamespace {
    #[verifier::external_body]
    pub fn xml() -> (r: XmlNamespace)
        ensures r.prefix is Some && r.prefix->Some_0@ == xml_key() && r.namespace_name@ == xml_ns() && r.implicit,
    { unimplemented!() }
}
pub open spec fn same_prefix(a: XmlNamespace, b: XmlNamespace) -> bool {
    match (a.prefix, b.prefix) { (None, None) => true, (Some(x), Some(y)) => x@ == y@, _ => false }
}
// no item spells the reserved prefix "xmlns" (then: same prefix <==> same key)
pub open spec fn plain(n: XmlNamespace) -> bool { n.prefix is Some ==> n.prefix->Some_0@ != xmlns_key() }
pub open spec fn all_plain(items: Seq<XmlNamespace>) -> bool { forall|i: int| 0 <= i < items.len() ==> plain(#[trigger] items[i]) }
pub proof fn lemma_same_prefix_key(a: XmlNamespace, b: XmlNamespace)
    requires plain(a), plain(b),
    ensures same_prefix(a, b) <==> key_of(a) == key_of(b),
{}

pub open spec fn decl_items(items: Seq<XmlNamespace>, attrs: Seq<NsAttr>) -> bool {
    items.len() == attrs.len() && forall|i: int| 0 <= i < items.len() ==> attrs[i].value@ is Some && key_of(#[trigger] items[i]) == attrs[i].name@ && items[i].namespace_name@ == attrs[i].value@->Some_0 && plain(items[i])
}
// own_decl finds exactly the declaration with that name (names are distinct)
pub proof fn lemma_own_decl_at(attrs: Seq<NsAttr>, i: int)
    requires distinct_decls(attrs), 0 <= i < attrs.len(), attrs[i].value@ is Some,
    ensures own_decl(attrs, attrs[i].name@) == attrs[i].value@,
    decreases attrs.len(),
{
    if i > 0 {
        let t = attrs.subrange(1, attrs.len() as int);
        assert(t[i - 1] == attrs[i]);
        assert(distinct_decls(t)) by { assert forall|a: int, b: int| 0 <= a < b < t.len() implies (#[trigger] t[a]).name@ != (#[trigger] t[b]).name@ by { assert(t[a] == attrs[a + 1]); assert(t[b] == attrs[b + 1]); } }
        lemma_own_decl_at(t, i - 1);
        assert(attrs[0].name@ != attrs[i].name@);
    }
}
pub proof fn lemma_own_decl_none(attrs: Seq<NsAttr>, key: Seq<char>)
    requires forall|i: int| 0 <= i < attrs.len() ==> (#[trigger] attrs[i]).name@ != key,
    ensures own_decl(attrs, key) is None,
    decreases attrs.len(),
{
    if attrs.len() > 0 {
        let t = attrs.subrange(1, attrs.len() as int);
        assert forall|i: int| 0 <= i < t.len() implies (#[trigger] t[i]).name@ != key by { assert(t[i] == attrs[i + 1]); }
        lemma_own_decl_none(t, key);
    }
}
pub proof fn lemma_own_decl_some(attrs: Seq<NsAttr>, key: Seq<char>) -> (i: int)
    requires own_decl(attrs, key) is Some,
    ensures 0 <= i < attrs.len() && attrs[i].name@ == key && attrs[i].value@ == own_decl(attrs, key),
    decreases attrs.len(),
{
    if attrs[0].name@ == key && attrs[0].value@ is Some { 0 } else {
        let t = attrs.subrange(1, attrs.len() as int);
        let j = lemma_own_decl_some(t, key);
        assert(t[j] == attrs[j + 1]);
        j + 1
    }
}
// well-formedness the code relies on: at most one declaration per key, no prefix spelled "xmlns" (reserved), "xml" never empty
pub open spec fn distinct_decls(attrs: Seq<NsAttr>) -> bool { forall|i: int, j: int| 0 <= i < j < attrs.len() ==> (#[trigger] attrs[i]).name@ != (#[trigger] attrs[j]).name@ }
pub open spec fn wf(e: XmlElement) -> bool
    decreases e,
{
    distinct_decls(e.ns_attrs@) && xml_ns().len() > 0 && match e.parent { Some(ParentItem::Element(p)) => wf(*p), _ => true }
}
pub open spec fn in_scope_ok(items: Seq<XmlNamespace>, e: XmlElement) -> bool {
    distinct_keys(items) && all_plain(items)
    && (forall|i: int| 0 <= i < items.len() ==> resolve(e, key_of(#[trigger] items[i])) == Some(items[i].namespace_name@))
    && (forall|key: Seq<char>| resolve(e, key) is Some ==> #[trigger] has_key(items, key))
}

// one item of the list being built: it is an own declaration, or an inherited one no own declaration overrides
pub open spec fn item_ok(it: XmlNamespace, e: XmlElement) -> bool {
    plain(it) && (own_decl(e.ns_attrs@, key_of(it)) == Some(it.namespace_name@)
        || (own_decl(e.ns_attrs@, key_of(it)) is None && it.namespace_name@.len() > 0 && match e.parent {
                Some(ParentItem::Element(p)) => resolve(*p, key_of(it)) == Some(it.namespace_name@),
                Some(ParentItem::Document) => key_of(it) == xml_key() && it.namespace_name@ == xml_ns(),
                _ => false,
            }))
}
pub open spec fn all_ok(items: Seq<XmlNamespace>, e: XmlElement) -> bool { forall|i: int| 0 <= i < items.len() ==> item_ok(#[trigger] items[i], e) }
pub open spec fn own_present(items: Seq<XmlNamespace>, e: XmlElement) -> bool { forall|key: Seq<char>| own_decl(e.ns_attrs@, key) is Some ==> #[trigger] has_key(items, key) }

pub open spec fn complete(items: Seq<XmlNamespace>, e: XmlElement) -> bool { forall|key: Seq<char>| resolve(e, key) is Some ==> #[trigger] has_key(items, key) }
pub proof fn lemma_item_ok_resolves(it: XmlNamespace, e: XmlElement)
    requires item_ok(it, e), it.namespace_name@.len() > 0,
    ensures resolve(e, key_of(it)) == Some(it.namespace_name@),
{}
// filtering out the un-declarations keeps what matters
pub proof fn lemma_retain(items: Seq<XmlNamespace>)
    ensures ({ let f = items.filter(|v: XmlNamespace| v.namespace_name@.len() > 0);
        (forall|i: int| 0 <= i < f.len() ==> (#[trigger] f[i]).namespace_name@.len() > 0 && items.contains(f[i]))
        && (forall|i: int| 0 <= i < items.len() && (#[trigger] items[i]).namespace_name@.len() > 0 ==> f.contains(items[i]))
        && (distinct_keys(items) ==> distinct_keys(f)) }),
    decreases items.len(),
{
    reveal(Seq::filter);
    let p = |v: XmlNamespace| v.namespace_name@.len() > 0;
    let f = items.filter(p);
    if items.len() > 0 {
        let d = items.drop_last();
        lemma_retain(d);
        let fd = d.filter(p);
        assert forall|i: int| 0 <= i < d.len() implies items.contains(#[trigger] d[i]) by { assert(items[i] == d[i]); }
        if p(items.last()) {
            assert(f =~= fd.push(items.last()));
            assert forall|i: int| 0 <= i < f.len() implies (#[trigger] f[i]).namespace_name@.len() > 0 && items.contains(f[i]) by {
                if i < fd.len() { assert(fd[i] == f[i]); assert(d.contains(fd[i])); let j = choose|j: int| 0 <= j < d.len() && d[j] == fd[i]; assert(items[j] == f[i]); } else { assert(items[items.len() - 1] == f[i]); }
            }
            assert forall|i: int| 0 <= i < items.len() && (#[trigger] items[i]).namespace_name@.len() > 0 implies f.contains(items[i]) by {
                if i < d.len() { assert(d[i] == items[i]); assert(fd.contains(d[i])); let j = choose|j: int| 0 <= j < fd.len() && fd[j] == d[i]; assert(f[j] == items[i]); } else { assert(f[f.len() - 1] == items[i]); }
            }
            if distinct_keys(items) {
                assert(distinct_keys(d)) by { assert forall|a: int, b: int| 0 <= a < b < d.len() implies key_of(#[trigger] d[a]) != key_of(#[trigger] d[b]) by { assert(d[a] == items[a]); assert(d[b] == items[b]); } }
                assert forall|a: int, b: int| 0 <= a < b < f.len() implies key_of(#[trigger] f[a]) != key_of(#[trigger] f[b]) by {
                    if b < fd.len() { assert(fd[a] == f[a]); assert(fd[b] == f[b]); }
                    else { assert(fd[a] == f[a]); assert(d.contains(fd[a])); let j = choose|j: int| 0 <= j < d.len() && d[j] == fd[a]; assert(items[j] == f[a]); assert(key_of(items[j]) != key_of(items[items.len() - 1])); }
                }
            }
        } else {
            assert(f =~= fd);
            assert forall|i: int| 0 <= i < f.len() implies (#[trigger] f[i]).namespace_name@.len() > 0 && items.contains(f[i]) by {
                assert(d.contains(fd[i])); let j = choose|j: int| 0 <= j < d.len() && d[j] == fd[i]; assert(items[j] == f[i]);
            }
            assert forall|i: int| 0 <= i < items.len() && (#[trigger] items[i]).namespace_name@.len() > 0 implies f.contains(items[i]) by {
                assert(i < d.len()); assert(d[i] == items[i]);
            }
            if distinct_keys(items) {
                assert(distinct_keys(d)) by { assert forall|a: int, b: int| 0 <= a < b < d.len() implies key_of(#[trigger] d[a]) != key_of(#[trigger] d[b]) by { assert(d[a] == items[a]); assert(d[b] == items[b]); } }
            }
        }
    }
}

pub struct NamespaceUri { pub value: String }
impl NamespaceUri {
    // TryFrom<&XmlNode<XmlAttribute>>: the normalized value of the declaration
    pub fn try_from_attr(a: &NsAttr) -> (r: error::Result<NamespaceUri>)
        ensures r is Ok <==> a.value@ is Some, r is Ok ==> r->Ok_0.value@ == a.value@->Some_0,
    { let value = a.normalized_value()?; Ok(NamespaceUri { value }) }
    // From<&XmlNode<XmlNamespace>>
    #[verifier::external_body]
    pub fn from_ns(n: &XmlNamespace) -> (r: NamespaceUri) ensures r.value@ == n.namespace_name@ { unimplemented!() }
    #[verifier::external_body]
    pub fn is_empty(&self) -> (r: bool) ensures r == (self.value@.len() == 0) { unimplemented!() }
}
pub open spec fn uri_of(v: Option<NamespaceUri>) -> Option<Seq<char>> { match v { Some(u) => Some(u.value@), None => None } }
// namespace.prefix().unwrap_or("xmlns") / .unwrap_or_default()
#[verifier::external_body]
pub fn shim_prefix_or_xmlns(n: &XmlNamespace) -> (r: String) ensures r@ == key_of(*n) { unimplemented!() }
#[verifier::external_body]
pub fn shim_prefix_or_default(n: &XmlNamespace) -> (r: String) ensures r@ == (match n.prefix { Some(p) => p@, None => Seq::<char>::empty() }) { unimplemented!() }

pub proof fn lemma_own_decl_at_or_err(attrs: Seq<NsAttr>, i: int)
    requires distinct_decls(attrs), 0 <= i < attrs.len(),
    ensures attrs[i].value@ is Some ==> own_decl(attrs, attrs[i].name@) == attrs[i].value@,
{
    if attrs[i].value@ is Some { lemma_own_decl_at(attrs, i); }
}

impl ParentItem {
    pub fn as_element(&self) -> (r: Option<&XmlElement>) ensures r is Some <==> self is Element, r is Some ==> *r->Some_0 == *self->Element_0
    { match self { ParentItem::Element(e) => Some(&**e), _ => None } }
    pub fn is_document(&self) -> (r: bool) ensures r == (self is Document) { match self { ParentItem::Document => true, _ => false } }
}

impl XmlElement {
    // Element::namespace_attributes(): the attributes whose `namespace()` is true (filter over the attribute list)
    #[verifier::external_body]
    pub fn namespace_attributes(&self) -> (r: Vec<NsAttr>) ensures r@ == self.ns_attrs@ { unimplemented!() }
    // self.parent().ok().as_ref(): the parent item, through the id map (units/c12_idmap.py)
    pub fn shim_parent_item(&self) -> (r: Option<&ParentItem>) ensures r is Some <==> self.parent is Some, r is Some ==> *r->Some_0 == self.parent->Some_0
    { self.parent.as_ref() }
    // the key an element's own name is looked up under: its prefix, or "xmlns" for the default namespace
    pub open spec fn name_key(self) -> Seq<char> { match self.prefix { Some(p) => p@, None => xmlns_key() } }
    #[verifier::external_body]
    pub fn shim_prefix_or_xmlns(&self) -> (r: &str) ensures r@ == self.name_key() { unimplemented!() /* self.prefix().unwrap_or("xmlns") */ }

    #[verifier::external_body]
    pub fn local_name(&self) -> (r: &str) ensures r@ == self.local_name@ { unimplemented!() }
    #[verifier::external_body]
    pub fn prefix(&self) -> (r: Option<&str>) ensures r is Some <==> self.prefix is Some, r is Some ==> r->Some_0@ == self.prefix->Some_0@ { unimplemented!() }

    //@@ namespaces

    //@@ in_scope_namespace

    //@@ find_nameapce_uri

    //@@ element_namespace_name
}

// an attribute: a namespace declaration itself, or an ordinary attribute with an optional prefix and an owner element
pub struct XmlAttribute { pub local_name: String, pub is_ns: bool, pub prefix: Option<String>, pub owner: Option<XmlElement> }
pub uninterp spec fn xmlns_ns() -> Seq<char>;   // http://www.w3.org/2000/xmlns/
impl NamespaceUri {
    #[verifier::external_body]
    pub fn xmlns() -> (r: NamespaceUri) ensures r.value@ == xmlns_ns() { unimplemented!() }
}
#[verifier::external_body]
pub fn shim_as_deref(p: &Option<String>) -> (r: Option<&str>)
    ensures r is Some <==> p is Some, r is Some ==> r->Some_0@ == p->Some_0@,
{ p.as_deref() }
pub fn shim_ok_or_isolated(e: Option<&XmlElement>) -> (r: error::Result<&XmlElement>)
    ensures r is Ok <==> e is Some, r is Ok ==> r->Ok_0 == e->Some_0,
{ match e { Some(v) => Ok(v), None => Err(error::Error::IsolatedNode) } }
impl XmlAttribute {
    #[verifier::external_body]
    pub fn local_name(&self) -> (r: &str) ensures r@ == self.local_name@ { unimplemented!() }
    #[verifier::external_body]
    pub fn prefix(&self) -> (r: Option<&str>) ensures r is Some <==> self.prefix is Some, r is Some ==> r->Some_0@ == self.prefix->Some_0@ { unimplemented!() }
    // Attribute::owner_element: the element the attribute is attached to, or IsolatedNode
    pub fn owner_element(&self) -> (r: error::Result<&XmlElement>) ensures r is Ok <==> self.owner is Some, r is Ok ==> *r->Ok_0 == self.owner->Some_0
    { match self.owner.as_ref() { Some(v) => Ok(v), None => Err(error::Error::IsolatedNode) } }
    pub fn namespace(&self) -> (r: bool) ensures r == self.is_ns { self.is_ns }
    pub fn element(&self) -> (r: Option<&XmlElement>) ensures r is Some <==> self.owner is Some, r is Some ==> *r->Some_0 == self.owner->Some_0
    { self.owner.as_ref() }

    //@@ attribute_namespace_name
}

// ---- the DOM layer (dom/src/lib.rs): what XPath name tests see ----
pub mod dom {
    use vstd::prelude::*;
    use crate::*;
    pub type ExpandedName = (String, Option<String>, Option<String>);   // dom/src/lib.rs
    // dom::XmlNamespace wraps the information item
    pub struct XmlNamespace { pub namespace: crate::XmlNamespace }
    impl XmlNamespace {
        // Node::node_name: the prefix, or "xmlns" for the default namespace; Node::node_value: the URI
        #[verifier::external_body]
        pub fn node_name(&self) -> (r: String) ensures r@ == key_of(self.namespace) { unimplemented!() }
        #[verifier::external_body]
        pub fn node_value(&self) -> (r: error::Result<Option<String>>) ensures r is Ok && r->Ok_0 is Some && r->Ok_0->Some_0@ == self.namespace.namespace_name@ { unimplemented!() }
    }
    pub open spec fn wrapped(d: Seq<XmlNamespace>, i: Seq<crate::XmlNamespace>) -> bool { d.len() == i.len() && forall|k: int| 0 <= k < d.len() ==> (#[trigger] d[k]).namespace == i[k] }
    // .iter().map(XmlNamespace::from).collect()
    #[verifier::external_body]
    pub fn shim_wrap_all(items: Vec<crate::XmlNamespace>) -> (r: Vec<XmlNamespace>) ensures wrapped(r@, items@) { unimplemented!() }
    // namespaces.iter().find(|v| v.node_name() == prefix): the first item with that name
    #[verifier::external_body]
    pub fn shim_find_named<'a>(items: &'a Vec<XmlNamespace>, name: &String) -> (r: Option<&'a XmlNamespace>)
        ensures match r {
            Some(n) => exists|k: int| 0 <= k < items@.len() && items@[k] == *n && key_of(n.namespace) == name@,
            None => forall|k: int| 0 <= k < items@.len() ==> key_of((#[trigger] items@[k]).namespace) != name@,
        },
    { unimplemented!() }
    #[verifier::external_body]
    pub fn shim_key_string(p: Option<&str>) -> (r: String) ensures r@ == (match p { Some(x) => x@, None => xmlns_key() }) { unimplemented!() /* p.unwrap_or("xmlns").to_string() */ }
    pub open spec fn opt_view(v: Option<String>) -> Option<Seq<char>> { match v { Some(u) => Some(u@), None => None } }

    pub struct XmlElement { pub element: crate::XmlElement }
    impl XmlElement {
        pub open spec fn scope_of(items: Seq<XmlNamespace>, e: crate::XmlElement) -> bool { exists|i: Seq<crate::XmlNamespace>| in_scope_ok(i, e) && wrapped(items, i) }
        //@@ dom_in_scope_namespace

        //@@ dom_element_as_expanded_name
    }
    // XmlElement::from(element).in_scope_namespace(): the function above on the owner element (same contract, assumed here
    // because the model cannot build a wrapper around a borrowed element)
    #[verifier::external_body]
    pub fn in_scope_of(e: &crate::XmlElement) -> (r: error::Result<Vec<XmlNamespace>>)
        requires wf(*e),
        ensures r is Ok ==> XmlElement::scope_of(r->Ok_0@, *e),
    { unimplemented!() }
    pub struct XmlAttr { pub attribute: crate::XmlAttribute }
    impl XmlAttr {
        //@@ dom_attr_as_expanded_name
    }
}

} // verus!
fn main() {}
'''

KEEP_NL = lambda text: (lambda m: text + '\n' * m.group(0).count('\n'))
R_BOR = Rule('R11', r'\.borrow(?:_mut)?\(\)\s*\.', '.', 'RefCell borrow dropped (A4)')
R_NSTYPE = Rule('R11', r'UnorderedSet<XmlNode<XmlNamespace>>|Vec<XmlNode<XmlNamespace>>', 'Vec<XmlNamespace>', 'XmlNode<T> (Rc<RefCell<T>>) -> T (A4); UnorderedSet<T> is a wrapper around Vec<T> (UnorderedSet::new is the identity here)')
PUB = Rule('R12', r'^fn ', 'pub fn ', 'visibility (no runtime meaning)')

LOOP_PARENT = [
    ('frame', '__it.seq() == __pitems@ && in_scope_ok(__pitems@, *parent) && self.parent == Some(ParentItem::Element(Box::new(*parent))) && wf(*self)'),
    ('C10:no_key_twice', 'distinct_keys(items@)'),
    ('C10:every_item_is_an_own_declaration_or_an_inherited_one_not_overridden', 'all_ok(items@, *self)'),
    ('C10:own_declarations_are_listed', 'own_present(items@, *self)'),
    ('C10:inherited_declarations_seen_so_far_are_listed_unless_overridden', 'forall|j: int| 0 <= j < __it.index@ ==> own_decl(self.ns_attrs@, key_of(#[trigger] __pitems@[j])) is None ==> has_key(items@, key_of(__pitems@[j]))'),
]

AFTER_OWN = """proof {
    assert(decl_items(items@, self.ns_attrs@));
    assert forall|i: int| 0 <= i < items@.len() implies item_ok(#[trigger] items@[i], *self) by {
        assert(key_of(items@[i]) == self.ns_attrs@[i].name@ && self.ns_attrs@[i].value@ is Some);
        lemma_own_decl_at(self.ns_attrs@, i);
    }
    assert forall|a: int, b: int| 0 <= a < b < items@.len() implies key_of(#[trigger] items@[a]) != key_of(#[trigger] items@[b]) by {
        assert(key_of(items@[a]) == self.ns_attrs@[a].name@ && key_of(items@[b]) == self.ns_attrs@[b].name@);
    }
    assert forall|key: Seq<char>| own_decl(self.ns_attrs@, key) is Some implies #[trigger] has_key(items@, key) by {
        let j = lemma_own_decl_some(self.ns_attrs@, key); assert(key_of(items@[j]) == key);
    }
    if self.parent is None || self.parent->Some_0 is Other { assert(complete(items@, *self)); }
}"""
# before the `if !shim_any_same_prefix(&items, &X)`: remember the list, relate "same prefix" to "same key"
def before_if(x):
    return ("let ghost __before = items@; let ghost __x = " + x + "; proof { assert(xml_key() != xmlns_key()) by { assert(xml_key().len() != xmlns_key().len()); } assert(plain(__x)); "
            "assert forall|i: int| 0 <= i < items@.len() implies (same_prefix(#[trigger] items@[i], __x) <==> key_of(items@[i]) == key_of(__x)) by { lemma_same_prefix_key(items@[i], __x); } }")
# after the if statement (its closing brace): whichever way it went, the invariants hold again
AFTER_IF = """proof {
    if items@.len() == __before.len() + 1 {
        if own_decl(self.ns_attrs@, key_of(__x)) is Some { assert(has_key(__before, key_of(__x))); }
        assert(items@[items@.len() - 1] == __x);
        assert forall|i: int| 0 <= i < items@.len() implies item_ok(#[trigger] items@[i], *self) by { if i < __before.len() { assert(items@[i] == __before[i]); } }
        assert forall|a: int, b: int| 0 <= a < b < items@.len() implies key_of(#[trigger] items@[a]) != key_of(#[trigger] items@[b]) by {
            assert(items@[a] == __before[a]); if b < __before.len() { assert(items@[b] == __before[b]); }
        }
        assert forall|key: Seq<char>| has_key(__before, key) implies has_key(items@, key) by {
            let i = choose|i: int| 0 <= i < __before.len() && key_of(#[trigger] __before[i]) == key; assert(items@[i] == __before[i]);
        }
        assert forall|key: Seq<char>| own_decl(self.ns_attrs@, key) is Some implies #[trigger] has_key(items@, key) by { assert(has_key(__before, key)); }
    } else {
        let i = choose|i: int| 0 <= i < items@.len() && same_prefix(#[trigger] items@[i], __x);
        assert(key_of(items@[i]) == key_of(__x));
    }
    assert(has_key(items@, key_of(__x)));
}"""
LOOP_END = """proof {
    assert forall|j: int| 0 <= j < __k ==> own_decl(self.ns_attrs@, key_of(#[trigger] __pitems@[j])) is None ==> has_key(items@, key_of(__pitems@[j])) by {
        if 0 <= j < __k && own_decl(self.ns_attrs@, key_of(__pitems@[j])) is None && items@.len() == __before.len() + 1 {
            assert(has_key(__before, key_of(__pitems@[j])));
            let i = choose|i: int| 0 <= i < __before.len() && key_of(#[trigger] __before[i]) == key_of(__pitems@[j]); assert(items@[i] == __before[i]);
        }
    }
}"""
AFTER_PARENT_LOOP = """proof {
    assert forall|key: Seq<char>| resolve(*self, key) is Some implies #[trigger] has_key(items@, key) by {
        if own_decl(self.ns_attrs@, key) is None {
            assert(resolve(*parent, key) is Some);
            assert(has_key(__pitems@, key));
            let j = choose|j: int| 0 <= j < __pitems@.len() && key_of(#[trigger] __pitems@[j]) == key;
            assert(has_key(items@, key_of(__pitems@[j])));
        }
    }
    assert(complete(items@, *self));
}"""
AFTER_DOC = """proof {
    assert forall|key: Seq<char>| resolve(*self, key) is Some implies #[trigger] has_key(items@, key) by {
        if own_decl(self.ns_attrs@, key) is None { assert(key == xml_key()); }
    }
    assert(complete(items@, *self));
}"""
RETAIN = """let ghost __full = items@; proof { assert(complete(__full, *self)); assert(all_ok(__full, *self)); assert(distinct_keys(__full)); }"""
AFTER_RETAIN = """proof {
    lemma_retain(__full);
    let f = items@;
    assert forall|i: int| 0 <= i < f.len() implies resolve(*self, key_of(#[trigger] f[i])) == Some(f[i].namespace_name@) && plain(f[i]) by {
        assert(__full.contains(f[i])); let j = choose|j: int| 0 <= j < __full.len() && __full[j] == f[i]; assert(item_ok(__full[j], *self));
    }
    assert forall|key: Seq<char>| resolve(*self, key) is Some implies #[trigger] has_key(f, key) by {
        assert(has_key(__full, key));
        let j = choose|j: int| 0 <= j < __full.len() && key_of(#[trigger] __full[j]) == key;
        assert(item_ok(__full[j], *self));
        assert(__full[j].namespace_name@.len() > 0);
        assert(f.contains(__full[j])); let m = choose|m: int| 0 <= m < f.len() && f[m] == __full[j]; assert(key_of(f[m]) == key);
    }
}"""


def build():
    P = ['C10']
    fns = {}
    fns['namespaces'] = Fn(
        FI, 'impl XmlElement', 'namespaces', props=P, safety_props=P, label='XmlElement::namespaces', sig_rules=[R_NSTYPE],
        rules=[R_BOR,
               Rule('R47', r'for attr in self\.namespace_attributes\(\)\.iter\(\) \{', 'for attr in __it: self.namespace_attributes() /*@loop*/ {', 'UnorderedSet::iter() (clones each handle) -> for over the list, iterator named'),
               Rule('R8', r'attr\.local_name\(\) == "xmlns"', 'shim_is_xmlns(attr.local_name())', '&str == "xmlns" -> shim'),
               Rule('R6', r'attr\.local_name\(\)\.to_string\(\)', 'shim_to_string(attr.local_name())', 'str::to_string -> shim'),
               Rule('R48', r'context: attr\.context\(\)\.clone\(\),', '', 'the Context handle of the new item: not part of the model')],
        loops={0: dict(invariant=[('C10:one_item_per_own_declaration_so_far', '__it.seq() == self.ns_attrs@ && decl_items(items@, self.ns_attrs@.take(__it.index@))')])},
        inject=[(r'^\s*Ok\(items\)', 'proof { assert(self.ns_attrs@.take(self.ns_attrs@.len() as int) =~= self.ns_attrs@); }', 'before')],
        ensures=[('C10:the_own_declarations_as_namespace_items', 'r is Ok ==> decl_items(r->Ok_0@, self.ns_attrs@)')])
    fns['in_scope_namespace'] = Fn(
        FI, 'impl Element for XmlElement', 'in_scope_namespace', props=P, safety_props=P, label='XmlElement::in_scope_namespace', sig_rules=[R_NSTYPE, PUB], decreases='*self',
        rules=[R_BOR,
               Rule('R43', r'self\.parent\(\)\.ok\(\)\.as_ref\(\)', 'self.shim_parent_item()', 'the parent item through the id map -> the parent link of the model'),
               Rule('R47', r'if let Some\(parent\) = parent\.as_element\(\) \{', 'if let Some(parent) = parent.as_element() { let __pitems = parent.in_scope_namespace()?;', 'the recursive call gets a name (it is iterated below)'),
               Rule('R47', r'for ns in parent\.in_scope_namespace\(\)\?\.iter\(\) \{', 'for ns in __it: __pitems /*@loop*/ {', 'UnorderedSet::iter() -> for over the named list'),
               Rule('R48', r'!items\s*\.iter\(\)\s*\.any\(\|v\| v\.prefix\(\) == (ns|implicity)\.prefix\(\)\)', lambda m: f'!shim_any_same_prefix(&items, &{m.group(1)})' + '\n' * m.group(0).count('\n'), 'iter().any(closure comparing prefixes) -> shim'),
               Rule('R48', r'parent\.as_document\(\)\.is_some\(\)', 'parent.is_document()', 'as_document().is_some() -> kind test of the model'),
               Rule('R48', r'XmlNamespace::xml\(self\.context\(\)\)', 'XmlNamespace::xml()', 'the Context handle is not part of the model'),
               Rule('R48', r'items\.retain\(\|v\| !v\.namespace_name\(\)\.is_empty\(\)\);', 'shim_retain_declared(&mut items);', 'Vec::retain(non-empty URI) -> shim (filter)')],
        requires=[('at_most_one_declaration_per_key_on_every_ancestor', 'wf(*self)')],
        loops={0: dict(invariant=LOOP_PARENT)},
        inject=[(r'if !shim_any_same_prefix\(&items, &ns\)', AFTER_IF + ' ' + LOOP_END, 'after_block'),
                (r'if !shim_any_same_prefix\(&items, &implicity\)', AFTER_IF + ' ' + AFTER_DOC, 'after_block'),
                (r'for ns in __it: __pitems', AFTER_PARENT_LOOP, 'after_block'),
                (r'let mut items = self\.namespaces\(\)\?;', AFTER_OWN),
                (r'if !shim_any_same_prefix\(&items, &ns\)', 'let ghost __k = __it.index@; ' + before_if('ns'), 'before'),
                (r'if !shim_any_same_prefix\(&items, &implicity\)', before_if('implicity'), 'before'),
                (r'let implicity = XmlNamespace::xml\(\);', 'proof { assert(xml_ns().len() > 0); }'),
                (r'shim_retain_declared\(&mut items\);', RETAIN, 'before'),
                (r'shim_retain_declared\(&mut items\);', AFTER_RETAIN)],
        ensures=[('C10:exactly_the_declarations_that_resolve_one_item_per_key', 'r is Ok ==> in_scope_ok(r->Ok_0@, *self)')])
    fns['find_nameapce_uri'] = Fn(
        FI, 'impl XmlElement', 'find_nameapce_uri', props=P, safety_props=P, label='XmlElement::find_nameapce_uri', sig_rules=[PUB],
        rules=[R_BOR,
               Rule('R47', r'for namespace in self\.namespace_attributes\(\)\.iter\(\) \{', 'for namespace in __it: self.namespace_attributes() /*@loop*/ {', 'UnorderedSet::iter() -> for over the list, iterator named'),
               Rule('R47', r'\n\n(\s*)for namespace in self\.in_scope_namespace\(\)\?\.iter\(\) \{',
                    lambda m: '\n' + m.group(1) + 'let __scope = self.in_scope_namespace()?;\n' + m.group(1) + 'for namespace in __it: __scope /*@loop*/ {', 'the list being iterated gets a name (on the blank line above)'),
               Rule('R19', r'NamespaceUri::try_from\(&namespace\)', 'NamespaceUri::try_from_attr(&namespace)', 'TryFrom<&XmlNode<XmlAttribute>> (the normalized value of the declaration) -> named constructor of the model'),
               Rule('R19', r'NamespaceUri::from\(&namespace\)', 'NamespaceUri::from_ns(&namespace)', 'From<&XmlNode<XmlNamespace>> -> named constructor of the model'),
               Rule('R48', r'namespace\.prefix\(\)\.unwrap_or_default\(\)', 'shim_prefix_or_default(&namespace).as_str()', 'Option<&str>::unwrap_or_default -> shim: the prefix, or the empty string'),
               Rule('R48', r'namespace\.prefix\(\)\.unwrap_or\("xmlns"\)', 'shim_prefix_or_xmlns(&namespace).as_str()', 'Option<&str>::unwrap_or("xmlns") -> shim: the key of the item'),
               Rule('R8', r'if prefix == ([^{]+?) \{', r'if shim_str_eq(prefix, \1) {', '&str == &str -> shim')],
        requires=[('at_most_one_declaration_per_key_on_every_ancestor', 'wf(*self)')],
        loops={0: dict(invariant=[('frame', 'wf(*self) && __it.seq() == self.ns_attrs@'),
                                  ('C10:no_own_declaration_for_the_key_so_far', 'forall|j: int| 0 <= j < __it.index@ ==> (#[trigger] self.ns_attrs@[j]).name@ != prefix@')]),
               1: dict(invariant=[('frame', '__it.seq() == __scope@ && in_scope_ok(__scope@, *self) && own_decl(self.ns_attrs@, prefix@) is None'),
                                  ('C10:no_in_scope_item_for_the_key_so_far', 'forall|j: int| 0 <= j < __it.index@ ==> key_of(#[trigger] __scope@[j]) != prefix@')])},
        inject=[(r'if shim_str_eq\(prefix, namespace\.local_name\(\)\)', 'proof { lemma_own_decl_at_or_err(self.ns_attrs@, __it.index@); }', 'before'),
                (r'let __scope = self\.in_scope_namespace\(\)\?;', 'proof { lemma_own_decl_none(self.ns_attrs@, prefix@); }', 'before'),
                (r'^\s*Ok\(None\)', 'proof { if resolve(*self, prefix@) is Some { assert(has_key(__scope@, prefix@)); let j = choose|j: int| 0 <= j < __scope@.len() && key_of(#[trigger] __scope@[j]) == prefix@; } }', 'before')],
        ensures=[('C10:the_nearest_enclosing_declaration_empty_means_undeclared', 'r is Ok ==> uri_of(r->Ok_0) == resolve(*self, prefix@)')])
    fns['element_namespace_name'] = Fn(
        FI, 'impl Element for XmlElement', 'namespace_name', props=P, safety_props=P, label='XmlElement::namespace_name', sig_rules=[PUB],
        rules=[Rule('R48', r'self\.prefix\(\)\.unwrap_or\("xmlns"\)', 'self.shim_prefix_or_xmlns()', 'Option<&str>::unwrap_or("xmlns") -> shim: the key of the element name')],
        requires=[('at_most_one_declaration_per_key_on_every_ancestor', 'wf(*self)')],
        ensures=[('C10:prefix_resolves_to_the_nearest_declaration_default_namespace_applies_to_unprefixed_elements', 'r is Ok ==> uri_of(r->Ok_0) == resolve(*self, self.name_key())')])
    fns['attribute_namespace_name'] = Fn(
        FI, 'impl Attribute for XmlAttribute', 'namespace_name', props=P, safety_props=P, label='XmlAttribute::namespace_name', sig_rules=[PUB],
        rules=[R_BOR, Rule('R48', r'self\.prefix\.as_deref\(\)', 'shim_as_deref(&self.prefix)', 'Option<String>::as_deref -> shim'),
               Rule('R48', r'self\.element\(\)\s*\.as_ref\(\)\s*\.ok_or\(error::Error::IsolatedNode\)\?\s*\.find_nameapce_uri\(prefix\)',
                    lambda m: 'shim_ok_or_isolated(self.element())?.find_nameapce_uri(prefix)' + '\n' * m.group(0).count('\n'), 'Option::as_ref().ok_or(IsolatedNode) -> shim')],
        requires=[('at_most_one_declaration_per_key_on_every_ancestor', 'self.owner is Some ==> wf(self.owner->Some_0)')],
        ensures=[('C10:the_default_namespace_never_applies_to_attributes', '!self.is_ns && self.prefix is None ==> r is Ok && r->Ok_0 is None'),
                 ('C10:a_prefixed_attribute_resolves_in_the_scope_of_its_element', '!self.is_ns && self.prefix is Some && self.owner is Some && r is Ok ==> uri_of(r->Ok_0) == resolve(self.owner->Some_0, self.prefix->Some_0@)'),
                 ('C10:a_namespace_declaration_is_in_the_xmlns_namespace', 'self.is_ns ==> r is Ok && uri_of(r->Ok_0) == Some(xmlns_ns())')])
    FD = 'dom/src/lib.rs'
    R_KEYSTR = Rule('R48', r'self\s*\.(element|attribute)\s*\.borrow\(\)\s*\.prefix\(\)\s*\.unwrap_or\("xmlns"\)\s*\.to_string\(\)', lambda m: f'shim_key_string(self.{m.group(1)}.prefix())' + '\n' * m.group(0).count('\n'), 'prefix().unwrap_or("xmlns").to_string() -> shim: the key the name is looked up under')
    R_LOCAL = Rule('R6', r'self\.(element|attribute)\.borrow\(\)\.local_name\(\)\.to_string\(\)', r'shim_to_string(self.\1.local_name())', 'str::to_string -> shim')
    R_FIND = Rule('R48', r'namespaces\.iter\(\)\.find\(\|v\| v\.node_name\(\) == prefix\)', 'shim_find_named(&namespaces, &prefix)', 'iter().find(closure on node_name) -> shim: the first item with that name')
    EXP = 'r is Ok ==> r->Ok_0 is Some && r->Ok_0->Some_0.0@ == '
    HINT_E = 'proof { let __i = choose|i: Seq<crate::XmlNamespace>| in_scope_ok(i, self.element) && wrapped(namespaces@, i); if resolve(self.element, prefix@) is Some { assert(has_key(__i, prefix@)); let j = choose|j: int| 0 <= j < __i.len() && key_of(#[trigger] __i[j]) == prefix@; assert(namespaces@[j].namespace == __i[j]); } assert forall|k: int| 0 <= k < namespaces@.len() implies resolve(self.element, key_of((#[trigger] namespaces@[k]).namespace)) == Some(namespaces@[k].namespace.namespace_name@) by { assert(namespaces@[k].namespace == __i[k]); } }'
    fns['dom_in_scope_namespace'] = Fn(
        FD, 'impl XmlElement', 'in_scope_namespace', props=P, safety_props=P, label='dom::XmlElement::in_scope_namespace',
        rules=[Rule('R48', r'Ok\(self\s*\.element\s*\.borrow\(\)\s*\.in_scope_namespace\(\)\?\s*\.iter\(\)\s*\.map\(XmlNamespace::from\)\s*\.collect\(\)\)',
                           lambda m: 'Ok(shim_wrap_all(self.element.in_scope_namespace()?))' + '\n' * m.group(0).count('\n'), 'RefCell borrow dropped (A4); iter().map(XmlNamespace::from).collect() -> shim: one wrapper per item, same order')],
        requires=[('at_most_one_declaration_per_key_on_every_ancestor', 'wf(self.element)')],
        ensures=[('C10:the_in_scope_namespaces_of_the_information_item_wrapped', 'r is Ok ==> XmlElement::scope_of(r->Ok_0@, self.element)')])
    fns['dom_element_as_expanded_name'] = Fn(
        FD, 'impl AsExpandedName for XmlElement', 'as_expanded_name', props=P, safety_props=P, label='dom::XmlElement::as_expanded_name', sig_rules=[PUB],
        rules=[R_KEYSTR, R_LOCAL, R_BOR, R_FIND],
        inject=[(r'let namespaces = self\.in_scope_namespace\(\)\?;', HINT_E)],
        requires=[('at_most_one_declaration_per_key_on_every_ancestor', 'wf(self.element)')],
        ensures=[('C10:local_part', EXP + 'self.element.local_name@'),
                 ('C10:namespace_is_the_nearest_declaration_for_the_prefix_or_the_default_namespace', 'r is Ok ==> r->Ok_0 is Some && opt_view(r->Ok_0->Some_0.2) == resolve(self.element, self.element.name_key())')])
    fns['dom_attr_as_expanded_name'] = Fn(
        FD, 'impl AsExpandedName for XmlAttr', 'as_expanded_name', props=P, safety_props=P, label='dom::XmlAttr::as_expanded_name', sig_rules=[PUB],
        rules=[R_KEYSTR, R_LOCAL, R_BOR, R_FIND,
               Rule('R48', r'XmlElement::from\(element\)\.in_scope_namespace\(\)\?', 'in_scope_of(element)?', 'wrapper around the owner element + the method above -> the same contract on the borrowed element')],
        inject=[(r'let namespaces = in_scope_of\(element\)\?;', HINT_E.replace('self.element', '(*element)'))],
        requires=[('at_most_one_declaration_per_key_on_every_ancestor', 'self.attribute.owner is Some ==> wf(self.attribute.owner->Some_0)')],
        ensures=[('C10:local_part', EXP + 'self.attribute.local_name@'),
                 ('C10:the_default_namespace_never_applies_to_attributes', 'r is Ok && self.attribute.prefix is None ==> r->Ok_0 is Some && r->Ok_0->Some_0.2 is None'),
                 ('C10:a_prefixed_attribute_resolves_in_the_scope_of_its_element', 'r is Ok && self.attribute.prefix is Some && self.attribute.owner is Some ==> r->Ok_0 is Some && opt_view(r->Ok_0->Some_0.2) == resolve(self.attribute.owner->Some_0, self.attribute.prefix->Some_0@)')])
    return ENV, fns


TEMPLATE, FNS = build()
UNIT = dict(name='c10_scope', template=TEMPLATE, fns=FNS, props=['C10'])
