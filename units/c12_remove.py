"""C12, detaching a node: `XmlItem::remove_from_parent` (info/src/lib.rs) -- the first thing every `insert_by_id` does with
the node it is given, and what units/c13_tree.py uses as the assumed callee `world_remove_from_parent`.

World model (the part of the live document the function touches, made an explicit `&mut World` parameter, R43): the parent
link of every item (`parent_of`) and the child list of every node (`lists`), both ghost maps by id.  `delete_by_id` of the
parent carries the contract proved for `XmlElement::delete_by_id` in units/c13_tree.py (the child with that id leaves the
list and loses its parent link; an unknown id changes nothing); `Context::node` the one proved in units/c12_idmap.py (a
registered id resolves while the item is alive).

Obligation ("a removed node has no parent", "no node occurs twice"): when the item's parent link names a live node that
lists it, afterwards that node does not list it any more, the item has no parent, and nothing else has changed; an item
without a parent link changes nothing.  The `unreachable!()` arm needs "the parent link of an item points to an
attribute, a document or an element" -- stated as a precondition (only their insert_by_id ever sets a parent link)."""
from vf.unit import Fn, Rule

FI = 'info/src/lib.rs'

ENV = r'''use vstd::prelude::*;
verus! {

pub uninterp spec fn inner_alive(id: usize) -> bool;   // some owner still holds the item with this id (units/c12_idmap.py)

pub open spec fn without_id(s: Seq<usize>, x: usize) -> Seq<usize> { s.filter(|v: usize| v != x) }

// a node that can have children, as the id map hands it out
pub struct ParentNode { pub ident: usize }
pub enum XmlItem {
    Attribute(ParentNode), CData(ParentNode), CharReference(ParentNode), Comment(ParentNode), DeclarationAttList(ParentNode), Document(ParentNode),
    DocumentType(ParentNode), Element(ParentNode), Entity(ParentNode), Namespace(ParentNode), Notation(ParentNode), PI(ParentNode), Text(ParentNode),
    Unexpanded(ParentNode), Unparsed(ParentNode),
}
pub open spec fn node_of(i: XmlItem) -> ParentNode {
    match i {
        XmlItem::Attribute(v) => v, XmlItem::CData(v) => v, XmlItem::CharReference(v) => v, XmlItem::Comment(v) => v, XmlItem::DeclarationAttList(v) => v,
        XmlItem::Document(v) => v, XmlItem::DocumentType(v) => v, XmlItem::Element(v) => v, XmlItem::Entity(v) => v, XmlItem::Namespace(v) => v,
        XmlItem::Notation(v) => v, XmlItem::PI(v) => v, XmlItem::Text(v) => v, XmlItem::Unexpanded(v) => v, XmlItem::Unparsed(v) => v,
    }
}
pub open spec fn has_children(i: XmlItem) -> bool { i is Attribute || i is Document || i is Element }

pub struct World {
    pub parent_of: Ghost<Map<usize, Option<usize>>>,   // the parent link of every item
    pub lists: Ghost<Map<usize, Seq<usize>>>,          // the child list (value list of an attribute) of every node, as ids
    pub kind_of: Ghost<Map<usize, XmlItem>>,           // what the id map hands out for an id
}
impl World {
    pub open spec fn link(self, id: usize) -> Option<usize> { if self.parent_of@.dom().contains(id) { self.parent_of@[id] } else { None } }
    pub open spec fn list(self, id: usize) -> Seq<usize> { if self.lists@.dom().contains(id) { self.lists@[id] } else { Seq::<usize>::empty() } }

    // item.parent_id(): a 15-arm match reading the link stored in the item
    #[verifier::external_body]
    pub fn parent_id_of(&self, item: &Item) -> (r: Option<usize>)
        ensures r == self.link(item.ident),
    { unimplemented!() }
    // item.context().node(id): units/c12_idmap.py (registered ids resolve while the item is alive)
    #[verifier::external_body]
    pub fn node(&self, id: usize) -> (r: Option<XmlItem>)
        ensures r is Some <==> (inner_alive(id) && self.kind_of@.dom().contains(id)),
                r is Some ==> r->Some_0 == self.kind_of@[id] && node_of(r->Some_0).ident == id,
    { unimplemented!() }
    // v.borrow().delete_by_id(id) of an element, a document, an attribute: units/c13_tree.py (XmlElement::delete_by_id)
    #[verifier::external_body]
    pub fn delete_by_id(&mut self, parent: &ParentNode, id: usize) -> (r: Option<usize>)
        ensures final(self).kind_of@ == old(self).kind_of@,
                !old(self).list(parent.ident).contains(id) ==> r is None && final(self).parent_of@ == old(self).parent_of@ && final(self).lists@ == old(self).lists@,
                old(self).list(parent.ident).contains(id) ==> r is Some && final(self).parent_of@ == old(self).parent_of@.insert(id, None)
                    && final(self).lists@ == old(self).lists@.insert(parent.ident, without_id(old(self).list(parent.ident), id)),
    { unimplemented!() }
}

// the item being detached (any kind)
pub struct Item { pub ident: usize }
impl Item {
    pub fn id(&self) -> (r: usize) ensures r == self.ident { self.ident }
    // its cached document-order key: nothing is known about it here
    #[verifier::external_body]
    pub fn order(&self) -> (r: usize) { unimplemented!() }

    //@@ remove_from_parent
}

#[verifier::external_body]
pub fn shim_unreachable<T>() -> (r: T)
    requires false,
    ensures false,
{ unreachable!() }

} // verus!
fn main() {}
'''

RULES = [
    Rule('R43', r'self\.parent_id\(\)', 'world.parent_id_of(self)', 'the parent link lives in the shared world: read through the explicit world parameter'),
    Rule('R43', r'self\.context\(\)\.node\(parent_id\)', 'world.node(parent_id)', 'the id map of the shared Context: explicit world parameter'),
    Rule('R44', r'match &\*parent \{', 'match &parent {', 'deref of Rc<XmlItem> -> the handle itself'),
    Rule('R43', r'v\.borrow\(\)\.delete_by_id\(self\.id\(\)\);', 'let __gone = world.delete_by_id(v, self.id());', 'the parent edits ITS list and the child link in the shared world: explicit world parameter (RefCell borrow dropped, A4)'),
    Rule('R21', r'unreachable!\(\)', 'shim_unreachable()', 'panic site -> call of a function with `requires false`'),
]


def build():
    P = ['C12']
    fns = {}
    ME = 'self.ident'
    fns['remove_from_parent'] = Fn(
        FI, 'impl XmlItem', 'remove_from_parent', props=P, safety_props=P, label='XmlItem::remove_from_parent',
        sig_rules=[Rule('R43', r'\(&self\)', '(&self, world: &mut World)', 'the shared document state the item reaches through its Context: made an explicit parameter'),
                   Rule('R12', r'^fn ', 'pub fn ', 'visibility (no runtime meaning)')],
        rules=RULES,
        requires=[('a_parent_link_points_to_a_node_with_children', f'old(world).link({ME}) is Some && old(world).kind_of@.dom().contains(old(world).link({ME})->Some_0) ==> has_children(old(world).kind_of@[old(world).link({ME})->Some_0])')],
        ensures=[('C12:a_listed_node_leaves_its_parent_and_has_no_parent_afterwards',
                  f'(old(world).link({ME}) is Some && inner_alive(old(world).link({ME})->Some_0) && old(world).kind_of@.dom().contains(old(world).link({ME})->Some_0) && old(world).list(old(world).link({ME})->Some_0).contains({ME}))'
                  f' ==> final(world).link({ME}) is None && final(world).parent_of@ == old(world).parent_of@.insert({ME}, None)'
                  f' && final(world).lists@ == old(world).lists@.insert(old(world).link({ME})->Some_0, without_id(old(world).list(old(world).link({ME})->Some_0), {ME}))'),
                 ('C12:a_node_without_a_parent_changes_nothing', f'old(world).link({ME}) is None ==> final(world).parent_of@ == old(world).parent_of@ && final(world).lists@ == old(world).lists@'),
                 ('C12:no_other_list_or_link_changes', f'forall|k: usize| old(world).link({ME}) != Some(k) ==> #[trigger] final(world).list(k) == old(world).list(k)')])
    return ENV, fns


TEMPLATE, FNS = build()
UNIT = dict(name='c12_remove', template=TEMPLATE, fns=FNS, props=['C12'])
