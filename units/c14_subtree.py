"""C14, the subtree layer: `XmlItem::{sub_items, last_descendant_or_self_id, place_descendants, place_subtree_after,
place_subtree_before}` (info/src/lib.rs) -- what `HasChildren::append / insert_before` and `append_attribute` call to number an
inserted or moved subtree.  Until now these were ASSUMED callees of units/c13_tree.py.

Model: the item tree is a concrete recursive datatype (an element owns its attribute and child lists, an attribute its value
items, a document its children; every other kind is a leaf) -- RefCell/Rc dropped as everywhere (A4) -- and the document's
order vector, which the items share through their Context, is an explicit `&mut DocOrder` parameter (R43).  `pre(item)` is the
list of ids of the subtree in document order: the item, its namespace declarations, its other attributes, its children, each
with everything below it (the order `init_order_recursive` numbers a parsed document in, units/c14_init.py).

Proved, by induction through the contract of the recursive call (termination: `decreases *self`, structural):
  * sub_items           = namespace declarations, then other attributes, then children (value items / children for the others)
  * last_descendant_..  = the last id of pre(item)
  * place_descendants   : the order vector becomes `placed_after(order, item, pre(item) without its head)` -- every id below
                          the item taken out and put back, contiguously and in document order, directly after the item
  * place_subtree_after / _before(anchor): `placed_after / placed_before(order, anchor, pre(item))`
The sequence surgery (filter distributes over concatenation, composes, keeps duplicate-freeness; the position of an id in a
duplicate-free vector) is proved in the lemmas of the environment; `DocOrder::set_after / set_before` carry the contracts
verified in units/c14_order.py (`DocumentOrder::set_after/_before`: the id is removed and re-inserted next to the reference)."""
from vf.unit import Fn, Rule

FI = 'info/src/lib.rs'

ENV = r'''use vstd::prelude::*;
verus! {


pub open spec fn without_block(s: Seq<usize>, block: Seq<usize>) -> Seq<usize> { s.filter(|v: usize| !block.contains(v)) }
pub open spec fn placed_after(s: Seq<usize>, anchor: usize, block: Seq<usize>) -> Seq<usize> {
    let rest = without_block(s, block);
    let k = rest.index_of(anchor);
    rest.subrange(0, k + 1) + block + rest.subrange(k + 1, rest.len() as int)
}
pub open spec fn last_of(a: usize, b: Seq<usize>) -> usize { (seq![a] + b).last() }
pub open spec fn disjoint(a: Seq<usize>, b: Seq<usize>) -> bool { forall|x: usize| !(a.contains(x) && b.contains(x)) }

// ---- filter facts (by induction on the definition) ----
pub proof fn lemma_wb_add(x: Seq<usize>, y: Seq<usize>, c: Seq<usize>)
    ensures without_block(x + y, c) == without_block(x, c) + without_block(y, c),
    decreases y.len(),
{
    reveal(Seq::filter);
    let p = |v: usize| !c.contains(v);
    if y.len() == 0 {
        assert(x + y =~= x);
        assert(without_block(y, c) =~= Seq::<usize>::empty());
        assert(without_block(x, c) + without_block(y, c) =~= without_block(x, c));
    } else {
        assert((x + y).drop_last() =~= x + y.drop_last());
        assert((x + y).last() == y.last());
        lemma_wb_add(x, y.drop_last(), c);
        if p(y.last()) {
            assert(without_block(x + y, c) =~= without_block(x + y.drop_last(), c).push(y.last()));
            assert(without_block(y, c) =~= without_block(y.drop_last(), c).push(y.last()));
            assert(without_block(x, c) + without_block(y.drop_last(), c).push(y.last()) =~= (without_block(x, c) + without_block(y.drop_last(), c)).push(y.last()));
        } else {
            assert(without_block(x + y, c) =~= without_block(x + y.drop_last(), c));
            assert(without_block(y, c) =~= without_block(y.drop_last(), c));
        }
    }
}
pub proof fn lemma_wb_contains(s: Seq<usize>, c: Seq<usize>, x: usize)
    ensures without_block(s, c).contains(x) <==> (s.contains(x) && !c.contains(x)),
    decreases s.len(),
{
    reveal(Seq::filter);
    let p = |v: usize| !c.contains(v);
    if s.len() == 0 {
    } else {
        lemma_wb_contains(s.drop_last(), c, x);
        let f = without_block(s.drop_last(), c);
        if p(s.last()) {
            assert(without_block(s, c) =~= f.push(s.last()));
            if without_block(s, c).contains(x) {
                let i = choose|i: int| 0 <= i < without_block(s, c).len() && without_block(s, c)[i] == x;
                if i < f.len() { assert(f[i] == x); assert(f.contains(x)); } else { assert(x == s.last()); }
            }
            if s.contains(x) && !c.contains(x) {
                let i = choose|i: int| 0 <= i < s.len() && s[i] == x;
                if i < s.len() - 1 { assert(s.drop_last()[i] == x); assert(s.drop_last().contains(x)); let j = choose|j: int| 0 <= j < f.len() && f[j] == x; assert(f.push(s.last())[j] == x); }
                else { assert(f.push(s.last())[f.len() as int] == x); }
            }
        } else {
            assert(without_block(s, c) =~= f);
            if s.contains(x) && !c.contains(x) {
                let i = choose|i: int| 0 <= i < s.len() && s[i] == x;
                assert(i < s.len() - 1);
                assert(s.drop_last()[i] == x);
            }
            if f.contains(x) {
                let i = choose|i: int| 0 <= i < s.drop_last().len() && s.drop_last()[i] == x;
                assert(s[i] == x);
            }
        }
    }
}
pub proof fn lemma_wb_disjoint(b: Seq<usize>, c: Seq<usize>)
    requires disjoint(b, c),
    ensures without_block(b, c) == b,
    decreases b.len(),
{
    reveal(Seq::filter);
    if b.len() > 0 {
        assert forall|x: usize| !(b.drop_last().contains(x) && c.contains(x)) by {
            if b.drop_last().contains(x) { let i = choose|i: int| 0 <= i < b.drop_last().len() && b.drop_last()[i] == x; assert(b[i] == x); }
        }
        lemma_wb_disjoint(b.drop_last(), c);
        assert(b.contains(b.last()));
        assert(without_block(b, c) =~= without_block(b.drop_last(), c).push(b.last()));
        assert(b.drop_last().push(b.last()) =~= b);
    } else {
        assert(without_block(b, c) =~= b);
    }
}
pub proof fn lemma_wb_twice(o: Seq<usize>, b: Seq<usize>, c: Seq<usize>)
    ensures without_block(without_block(o, b), c) == without_block(o, b + c),
    decreases o.len(),
{
    reveal(Seq::filter);
    if o.len() == 0 {
        assert(without_block(o, b) =~= Seq::<usize>::empty());
        assert(without_block(without_block(o, b), c) =~= Seq::<usize>::empty());
        assert(without_block(o, b + c) =~= Seq::<usize>::empty());
    } else {
        lemma_wb_twice(o.drop_last(), b, c);
        let x = o.last();
        assert((b + c).contains(x) <==> (b.contains(x) || c.contains(x))) by {
            if (b + c).contains(x) { let i = choose|i: int| 0 <= i < (b + c).len() && (b + c)[i] == x; if i < b.len() { assert(b[i] == x); } else { assert(c[i - b.len()] == x); } }
            if b.contains(x) { let i = choose|i: int| 0 <= i < b.len() && b[i] == x; assert((b + c)[i] == x); }
            if c.contains(x) { let i = choose|i: int| 0 <= i < c.len() && c[i] == x; assert((b + c)[b.len() + i] == x); }
        }
        let ob = without_block(o.drop_last(), b);
        if !b.contains(x) {
            assert(without_block(o, b) =~= ob.push(x));
            assert(ob.push(x).drop_last() =~= ob);
            if !c.contains(x) {
                assert(without_block(ob.push(x), c) =~= without_block(ob, c).push(x));
                assert(without_block(o, b + c) =~= without_block(o.drop_last(), b + c).push(x));
            } else {
                assert(without_block(ob.push(x), c) =~= without_block(ob, c));
                assert(without_block(o, b + c) =~= without_block(o.drop_last(), b + c));
            }
        } else {
            assert(without_block(o, b) =~= ob);
            assert(without_block(o, b + c) =~= without_block(o.drop_last(), b + c));
        }
    }
}
pub proof fn lemma_wb_nodup(s: Seq<usize>, c: Seq<usize>)
    requires s.no_duplicates(),
    ensures without_block(s, c).no_duplicates(),
    decreases s.len(),
{
    reveal(Seq::filter);
    if s.len() > 0 {
        lemma_wb_nodup(s.drop_last(), c);
        let f = without_block(s.drop_last(), c);
        if !c.contains(s.last()) {
            assert(without_block(s, c) =~= f.push(s.last()));
            lemma_wb_contains(s.drop_last(), c, s.last());
            assert(!s.drop_last().contains(s.last())) by {
                if s.drop_last().contains(s.last()) { let i = choose|i: int| 0 <= i < s.drop_last().len() && s.drop_last()[i] == s.last(); assert(s[i] == s[s.len() - 1]); }
            }
            assert forall|i: int, j: int| 0 <= i < j < f.push(s.last()).len() implies f.push(s.last())[i] != f.push(s.last())[j] by {
                if j == f.len() { assert(f.contains(f[i])); }
            }
        } else {
            assert(without_block(s, c) =~= f);
        }
    }
}
// in a duplicate-free sequence the position of an element is THE index where it sits
pub proof fn lemma_index_of(s: Seq<usize>, i: int)
    requires s.no_duplicates(), 0 <= i < s.len(),
    ensures s.index_of(s[i]) == i,
{
    let j = s.index_of(s[i]);
    assert(s.contains(s[i]));
}

// placing C directly after the last item of a block B that was itself placed after a  ==  placing B + C after a
pub proof fn lemma_place_more(o: Seq<usize>, a: usize, b: Seq<usize>, c: Seq<usize>)
    requires o.no_duplicates(), o.contains(a), !b.contains(a), !c.contains(a), (b + c).no_duplicates(),
    ensures placed_after(placed_after(o, a, b), last_of(a, b), c) == placed_after(o, a, b + c),
{
    let r = without_block(o, b);
    lemma_wb_contains(o, b, a);
    lemma_wb_nodup(o, b);
    let k = r.index_of(a);
    assert(0 <= k < r.len() && r[k] == a);
    let x = r.subrange(0, k + 1);
    let y = r.subrange(k + 1, r.len() as int);
    assert(r =~= x + y);
    let o1 = x + b + y;
    assert(placed_after(o, a, b) == o1);
    // disjointness of b and c (from no_duplicates of b + c)
    assert(disjoint(b, c)) by {
        assert forall|v: usize| !(b.contains(v) && c.contains(v)) by {
            if b.contains(v) && c.contains(v) {
                let i = choose|i: int| 0 <= i < b.len() && b[i] == v;
                let j = choose|j: int| 0 <= j < c.len() && c[j] == v;
                assert((b + c)[i] == v && (b + c)[b.len() + j] == v);
            }
        }
    }
    // LHS
    lemma_wb_add(x + b, y, c);
    lemma_wb_add(x, b, c);
    lemma_wb_disjoint(b, c);
    let xc = without_block(x, c);
    let yc = without_block(y, c);
    let r1 = xc + b + yc;
    assert(without_block(o1, c) == r1);
    // a is the last element of xc
    assert(x.last() == a);
    lemma_wb_contains(x, c, a);
    assert(x.contains(a)) by { assert(x[k] == a); }
    assert(xc.len() > 0 && xc.last() == a) by {
        reveal(Seq::filter);
        assert(xc =~= without_block(x.drop_last(), c).push(a));
    }
    // r1 has no duplicates: it is a filter of o1, which is a permutation-like arrangement; prove directly
    lemma_wb_twice(o, b, c);
    lemma_wb_add(x, y, c);
    let r2 = without_block(o, b + c);
    assert(r2 == xc + yc);
    lemma_wb_nodup(o, b + c);
    assert(r2.no_duplicates());
    // position of a in r2
    assert(r2[xc.len() - 1] == a);
    lemma_index_of(r2, xc.len() - 1);
    let k2 = r2.index_of(a);
    assert(k2 == xc.len() - 1);
    assert(r2.subrange(0, k2 + 1) =~= xc);
    assert(r2.subrange(k2 + 1, r2.len() as int) =~= yc);
    let rhs = xc + (b + c) + yc;
    assert(placed_after(o, a, b + c) == rhs);
    // position of l in r1
    let l = last_of(a, b);
    assert(r1.no_duplicates()) by {
        // elements of xc, yc come from r2 (no duplicates, none in b + c); b has no duplicates
        assert forall|i: int, j: int| 0 <= i < j < r1.len() implies r1[i] != r1[j] by {
            let nx = xc.len() as int; let nb = b.len() as int;
            lemma_wb_contains(o, b + c, r1[i]);
            lemma_wb_contains(o, b + c, r1[j]);
            if i < nx {
                assert(r2[i] == r1[i]); assert(r2.contains(r1[i]));
                if j < nx { assert(r2[j] == r1[j]); }
                else if j < nx + nb { assert(b[j - nx] == r1[j]); assert((b + c)[j - nx] == r1[j]); assert((b + c).contains(r1[j])); }
                else { assert(r2[j - nb] == r1[j]); }
            } else if i < nx + nb {
                assert(b[i - nx] == r1[i]); assert((b + c)[i - nx] == r1[i]); assert((b + c).contains(r1[i]));
                if j < nx + nb { assert((b + c)[j - nx] == r1[j]); }
                else { assert(r2[j - nb] == r1[j]); assert(r2.contains(r1[j])); }
            } else {
                assert(r2[i - nb] == r1[i]); assert(r2[j - nb] == r1[j]);
            }
        }
    }
    let kl = xc.len() + b.len() - 1;
    assert(r1[kl] == l) by {
        if b.len() == 0 { assert((seq![a] + b) =~= seq![a]); } else { assert((seq![a] + b).last() == b.last()); }
    }
    lemma_index_of(r1, kl);
    assert(r1.index_of(l) == kl);
    assert(r1.subrange(0, kl + 1) =~= xc + b);
    assert(r1.subrange(kl + 1, r1.len() as int) =~= yc);
    assert(placed_after(o1, l, c) == xc + b + c + yc);
    assert(xc + b + c + yc =~= rhs);
}


pub struct AttrNode { pub ident: usize, pub is_ns: bool, pub values: Vec<XmlAttributeValue> }
pub struct ElemNode { pub ident: usize, pub attributes: Vec<XmlItem>, pub children: Vec<XmlItem> }
pub struct DocNode { pub ident: usize, pub children: Vec<XmlItem> }
pub enum XmlAttributeValue { Char(XmlItem), Entity(XmlItem), Text(XmlItem) }
pub enum XmlItem { Attribute(AttrNode), Document(DocNode), Element(ElemNode), Other(usize) }

pub open spec fn item_of(v: XmlAttributeValue) -> XmlItem {
    match v { XmlAttributeValue::Char(i) => i, XmlAttributeValue::Entity(i) => i, XmlAttributeValue::Text(i) => i }
}
pub open spec fn id_of(i: XmlItem) -> usize {
    match i { XmlItem::Attribute(a) => a.ident, XmlItem::Document(d) => d.ident, XmlItem::Element(e) => e.ident, XmlItem::Other(id) => id }
}
pub open spec fn is_ns_item(i: XmlItem) -> bool { i is Attribute && i->Attribute_0.is_ns }

pub open spec fn subs(i: XmlItem) -> Seq<XmlItem> {
    match i {
        XmlItem::Attribute(a) => a.values@.map_values(|v: XmlAttributeValue| item_of(v)),
        XmlItem::Document(d) => d.children@,
        XmlItem::Element(e) => e.attributes@.filter(|a: XmlItem| is_ns_item(a)) + e.attributes@.filter(|a: XmlItem| !is_ns_item(a)) + e.children@,
        XmlItem::Other(_) => Seq::<XmlItem>::empty(),
    }
}

pub open spec fn pre(i: XmlItem) -> Seq<usize>
    decreases i,
{
    match i {
        XmlItem::Attribute(a) => seq![a.ident] + flat_vals(a.values@),
        XmlItem::Document(d) => seq![d.ident] + flat(d.children@),
        XmlItem::Element(e) => seq![e.ident] + flat_sel(e.attributes@, true) + flat_sel(e.attributes@, false) + flat(e.children@),
        XmlItem::Other(id) => seq![id],
    }
}
pub open spec fn flat(s: Seq<XmlItem>) -> Seq<usize>
    decreases s,
{
    if s.len() == 0 { Seq::<usize>::empty() } else { flat(s.drop_last()) + pre(s.last()) }
}
pub open spec fn flat_sel(s: Seq<XmlItem>, ns: bool) -> Seq<usize>
    decreases s,
{
    if s.len() == 0 { Seq::<usize>::empty() } else { flat_sel(s.drop_last(), ns) + (if is_ns_item(s.last()) == ns { pre(s.last()) } else { Seq::<usize>::empty() }) }
}
pub open spec fn flat_vals(s: Seq<XmlAttributeValue>) -> Seq<usize>
    decreases s,
{
    if s.len() == 0 { Seq::<usize>::empty() } else {
        flat_vals(s.drop_last()) + (match s.last() {
            XmlAttributeValue::Char(i) => pre(i),
            XmlAttributeValue::Entity(i) => pre(i),
            XmlAttributeValue::Text(i) => pre(i),
        })
    }
}

// a flat list that does not go through `pre`'s structural recursion: over any sequence of items
pub open spec fn flat_any(s: Seq<XmlItem>) -> Seq<usize>
    decreases s.len(),
{
    if s.len() == 0 { Seq::<usize>::empty() } else { flat_any(s.drop_last()) + pre(s.last()) }
}

pub proof fn lemma_flat_any_is_flat(s: Seq<XmlItem>)
    ensures flat_any(s) == flat(s),
    decreases s.len(),
{
    if s.len() > 0 { lemma_flat_any_is_flat(s.drop_last()); }
}
pub proof fn lemma_flat_add(a: Seq<XmlItem>, b: Seq<XmlItem>)
    ensures flat_any(a + b) == flat_any(a) + flat_any(b),
    decreases b.len(),
{
    if b.len() == 0 {
        assert(a + b =~= a);
    } else {
        assert((a + b).drop_last() =~= a + b.drop_last());
        assert((a + b).last() == b.last());
        lemma_flat_add(a, b.drop_last());
    }
}
pub proof fn lemma_flat_filter(s: Seq<XmlItem>, ns: bool)
    ensures flat_any(s.filter(|a: XmlItem| is_ns_item(a) == ns)) == flat_sel(s, ns),
    decreases s.len(),
{
    let p = |a: XmlItem| is_ns_item(a) == ns;
    reveal(Seq::filter);
    if s.len() > 0 {
        lemma_flat_filter(s.drop_last(), ns);
        if p(s.last()) {
            assert(s.filter(p) =~= s.drop_last().filter(p).push(s.last()));
            assert(s.filter(p).drop_last() =~= s.drop_last().filter(p));
        } else {
            assert(s.filter(p) =~= s.drop_last().filter(p));
        }
    }
}
pub proof fn lemma_flat_vals(s: Seq<XmlAttributeValue>)
    ensures flat_any(s.map_values(|v: XmlAttributeValue| item_of(v))) == flat_vals(s),
    decreases s.len(),
{
    let m = s.map_values(|v: XmlAttributeValue| item_of(v));
    if s.len() > 0 {
        lemma_flat_vals(s.drop_last());
        assert(m.drop_last() =~= s.drop_last().map_values(|v: XmlAttributeValue| item_of(v)));
        assert(m.last() == item_of(s.last()));
    }
}
// the ids of a subtree in document order: the item, then the subtrees of the items directly below it, in order
pub proof fn lemma_pre_subs(i: XmlItem)
    ensures pre(i) == seq![id_of(i)] + flat_any(subs(i)),
{
    match i {
        XmlItem::Attribute(a) => { lemma_flat_vals(a.values@); }
        XmlItem::Document(d) => { lemma_flat_any_is_flat(d.children@); }
        XmlItem::Element(e) => {
            let f1 = e.attributes@.filter(|a: XmlItem| is_ns_item(a));
            let f2 = e.attributes@.filter(|a: XmlItem| !is_ns_item(a));
            lemma_flat_filter(e.attributes@, true);
            lemma_flat_filter(e.attributes@, false);
            assert(f1 =~= e.attributes@.filter(|a: XmlItem| is_ns_item(a) == true)) by {
                assert forall|a: XmlItem| (#[trigger] is_ns_item(a)) == (is_ns_item(a) == true) by {}
                assert((|a: XmlItem| is_ns_item(a)) =~= (|a: XmlItem| is_ns_item(a) == true));
            }
            assert(f2 =~= e.attributes@.filter(|a: XmlItem| is_ns_item(a) == false)) by {
                assert((|a: XmlItem| !is_ns_item(a)) =~= (|a: XmlItem| is_ns_item(a) == false));
            }
            lemma_flat_add(f1 + f2, e.children@);
            lemma_flat_add(f1, f2);
            lemma_flat_any_is_flat(e.children@);
            assert(seq![e.ident] + flat_sel(e.attributes@, true) + flat_sel(e.attributes@, false) + flat(e.children@)
                =~= seq![e.ident] + (flat_sel(e.attributes@, true) + flat_sel(e.attributes@, false) + flat(e.children@)));
        }
        XmlItem::Other(_) => {}
    }
}

// an element of a filtered list is an element of the list
pub proof fn lemma_filter_elem(s: Seq<XmlItem>, p: spec_fn(XmlItem) -> bool, k: int) -> (j: int)
    requires 0 <= k < s.filter(p).len(),
    ensures 0 <= j < s.len() && s[j] == s.filter(p)[k],
    decreases s.len(),
{
    reveal(Seq::filter);
    if p(s.last()) {
        assert(s.filter(p) =~= s.drop_last().filter(p).push(s.last()));
        if k == s.filter(p).len() - 1 {
            s.len() - 1
        } else {
            lemma_filter_elem(s.drop_last(), p, k)
        }
    } else {
        assert(s.filter(p) =~= s.drop_last().filter(p));
        lemma_filter_elem(s.drop_last(), p, k)
    }
}

pub proof fn lemma_subs_smaller(i: XmlItem, k: int)
    requires 0 <= k < subs(i).len(),
    ensures decreases_to!(i => subs(i)[k]),
{
    match i {
        XmlItem::Attribute(a) => {
            let v = a.values@[k];
            assert(subs(i)[k] == item_of(v));
            assert(decreases_to!(i => a.values@[k]));
        }
        XmlItem::Document(d) => { assert(decreases_to!(i => d.children@[k])); }
        XmlItem::Element(e) => {
            let p1 = |a: XmlItem| is_ns_item(a);
            let p2 = |a: XmlItem| !is_ns_item(a);
            let f1 = e.attributes@.filter(p1);
            let f2 = e.attributes@.filter(p2);
            if k < f1.len() {
                let j = lemma_filter_elem(e.attributes@, p1, k);
                assert(decreases_to!(i => e.attributes@[j]));
            } else if k < f1.len() + f2.len() {
                let j = lemma_filter_elem(e.attributes@, p2, k - f1.len());
                assert(decreases_to!(i => e.attributes@[j]));
            } else {
                assert(decreases_to!(i => e.children@[k - f1.len() - f2.len()]));
            }
        }
        XmlItem::Other(_) => {}
    }
}

// the document's order vector (ids in document order), shared by all items through the Context
pub struct DocOrder { pub seq: Ghost<Seq<usize>> }
impl DocOrder {
    #[verifier::external_body]
    pub fn set_before(&mut self, item: usize, anchor: usize) -> (r: Option<usize>)
        ensures r is Some <==> (old(self).seq@.contains(anchor) && anchor != item),
                r is None ==> final(self).seq@ == old(self).seq@,
                r is Some ==> final(self).seq@ == placed_before(old(self).seq@, anchor, seq![item]),
    { unimplemented!() }
    #[verifier::external_body]
    pub fn set_after(&mut self, item: usize, anchor: usize) -> (r: Option<usize>)
        ensures r is Some <==> (old(self).seq@.contains(anchor) && anchor != item),
                r is None ==> final(self).seq@ == old(self).seq@,
                r is Some ==> final(self).seq@ == placed_after(old(self).seq@, anchor, seq![item]),
    { unimplemented!() }
}

pub open spec fn placed_before(s: Seq<usize>, anchor: usize, block: Seq<usize>) -> Seq<usize> {
    let rest = without_block(s, block);
    let k = rest.index_of(anchor);
    rest.subrange(0, k) + block + rest.subrange(k, rest.len() as int)
}
// placing t directly after an item v that was itself placed before a  ==  placing [v] + t before a
pub proof fn lemma_place_more_before(o: Seq<usize>, a: usize, v: usize, t: Seq<usize>)
    requires o.no_duplicates(), o.contains(a), v != a, !t.contains(a), (seq![v] + t).no_duplicates(),
    ensures placed_after(placed_before(o, a, seq![v]), v, t) == placed_before(o, a, seq![v] + t),
            placed_before(o, a, seq![v]).contains(v), placed_before(o, a, seq![v]).no_duplicates(),
{
    let b = seq![v];
    assert(!b.contains(a));
    let r = without_block(o, b);
    lemma_wb_contains(o, b, a);
    lemma_wb_nodup(o, b);
    let k = r.index_of(a);
    assert(0 <= k < r.len() && r[k] == a);
    let x = r.subrange(0, k);
    let y = r.subrange(k, r.len() as int);
    assert(r =~= x + y);
    let o1 = x + b + y;
    assert(placed_before(o, a, b) == o1);
    assert(o1[x.len() as int] == v);
    assert(!t.contains(v)) by {
        if t.contains(v) { let i = choose|i: int| 0 <= i < t.len() && t[i] == v; assert((seq![v] + t)[0] == v && (seq![v] + t)[1 + i] == v); }
    }
    assert(disjoint(b, t)) by {
        assert forall|w: usize| !(b.contains(w) && t.contains(w)) by {
            if b.contains(w) { let i = choose|i: int| 0 <= i < b.len() && b[i] == w; assert(w == v); }
        }
    }
    lemma_wb_add(x + b, y, t);
    lemma_wb_add(x, b, t);
    lemma_wb_disjoint(b, t);
    let xt = without_block(x, t);
    let yt = without_block(y, t);
    let r1 = xt + b + yt;
    assert(without_block(o1, t) == r1);
    // a is the first element of yt
    assert(y =~= seq![a] + y.skip(1));
    lemma_wb_add(seq![a], y.skip(1), t);
    assert(without_block(seq![a], t) =~= seq![a]) by {
        reveal(Seq::filter);
        assert(seq![a].drop_last() =~= Seq::<usize>::empty());
        assert(without_block(Seq::<usize>::empty(), t) =~= Seq::<usize>::empty());
    }
    assert(yt.len() > 0 && yt[0] == a);
    lemma_wb_twice(o, b, t);
    lemma_wb_add(x, y, t);
    let r2 = without_block(o, b + t);
    assert(r2 == xt + yt);
    lemma_wb_nodup(o, b + t);
    assert(r2[xt.len() as int] == a);
    lemma_index_of(r2, xt.len() as int);
    assert(r2.subrange(0, xt.len() as int) =~= xt);
    assert(r2.subrange(xt.len() as int, r2.len() as int) =~= yt);
    let rhs = xt + (b + t) + yt;
    assert(placed_before(o, a, b + t) == rhs);
    // o1 and r1 have no duplicates
    assert forall|w: usize| #![auto] r.contains(w) ==> w != v by { lemma_wb_contains(o, b, w); }
    assert(o1.no_duplicates()) by {
        assert forall|i: int, j: int| 0 <= i < j < o1.len() implies o1[i] != o1[j] by {
            let nx = x.len() as int;
            if i < nx { assert(r[i] == o1[i]); assert(r.contains(o1[i])); if j < nx { assert(r[j] == o1[j]); } else if j == nx {} else { assert(r[j - 1] == o1[j]); } }
            else if i == nx { assert(r[j - 1] == o1[j]); assert(r.contains(o1[j])); }
            else { assert(r[i - 1] == o1[i]); assert(r[j - 1] == o1[j]); }
        }
    }
    lemma_wb_nodup(o1, t);
    assert(r1[xt.len() as int] == v);
    lemma_index_of(r1, xt.len() as int);
    assert(r1.subrange(0, xt.len() as int + 1) =~= xt + b);
    assert(r1.subrange(xt.len() as int + 1, r1.len() as int) =~= yt);
    assert(placed_after(o1, v, t) == xt + b + t + yt);
    assert(xt + b + t + yt =~= rhs);
    assert(o1.contains(v));
}

pub proof fn lemma_place_nothing(o: Seq<usize>, a: usize)
    requires o.contains(a),
    ensures placed_after(o, a, Seq::<usize>::empty()) == o, last_of(a, Seq::<usize>::empty()) == a,
{
    let e = Seq::<usize>::empty();
    lemma_wb_disjoint(o, e);
    let k = o.index_of(a);
    assert(o.subrange(0, k + 1) + e + o.subrange(k + 1, o.len() as int) =~= o);
    assert(seq![a] + e =~= seq![a]);
}
pub proof fn lemma_flat_split(s: Seq<XmlItem>, k: int)
    requires 0 <= k < s.len(),
    ensures flat_any(s) == flat_any(s.take(k)) + pre(s[k]) + flat_any(s.skip(k + 1)),
            flat_any(s.take(k + 1)) == flat_any(s.take(k)) + pre(s[k]),
{
    assert(s =~= s.take(k + 1) + s.skip(k + 1));
    lemma_flat_add(s.take(k + 1), s.skip(k + 1));
    assert(s.take(k + 1).drop_last() =~= s.take(k));
    assert(s.take(k + 1).last() == s[k]);
}
// the parts of a duplicate-free  [me] + b + [x] + t + rest
pub proof fn lemma_nodup_parts(me: usize, b: Seq<usize>, x: usize, t: Seq<usize>, rest: Seq<usize>)
    requires (seq![me] + b + seq![x] + t + rest).no_duplicates(),
    ensures !b.contains(me), !t.contains(me), me != x, !b.contains(x), !t.contains(x),
            (b + seq![x]).no_duplicates(), (b + seq![x] + t).no_duplicates(), b.no_duplicates(), (seq![x] + t).no_duplicates(), t.no_duplicates(),
            !(b + seq![x]).contains(me), !(b + seq![x] + t).contains(me),
{
    let w = seq![me] + b + seq![x] + t + rest;
    let nb = b.len() as int; let nt = t.len() as int;
    assert forall|i: int| 0 <= i < nb implies w[1 + i] == b[i] by {}
    assert forall|i: int| 0 <= i < nt implies w[2 + nb + i] == t[i] by {}
    assert(w[0] == me); assert(w[1 + nb] == x);
    if b.contains(me) { let i = choose|i: int| 0 <= i < nb && b[i] == me; assert(w[1 + i] == w[0]); }
    if t.contains(me) { let i = choose|i: int| 0 <= i < nt && t[i] == me; assert(w[2 + nb + i] == w[0]); }
    if b.contains(x) { let i = choose|i: int| 0 <= i < nb && b[i] == x; assert(w[1 + i] == w[1 + nb]); }
    if t.contains(x) { let i = choose|i: int| 0 <= i < nt && t[i] == x; assert(w[2 + nb + i] == w[1 + nb]); }
    let m = b + seq![x] + t;
    assert forall|i: int| 0 <= i < m.len() implies m[i] == w[1 + i] by {}
    assert forall|i: int, j: int| 0 <= i < j < m.len() implies m[i] != m[j] by { assert(w[1 + i] != w[1 + j]); }
    assert forall|i: int, j: int| 0 <= i < j < (b + seq![x]).len() implies (b + seq![x])[i] != (b + seq![x])[j] by { assert(m[i] == (b + seq![x])[i]); assert(m[j] == (b + seq![x])[j]); }
    assert forall|i: int, j: int| 0 <= i < j < b.len() implies b[i] != b[j] by { assert(m[i] == b[i]); assert(m[j] == b[j]); }
    assert forall|i: int, j: int| 0 <= i < j < (seq![x] + t).len() implies (seq![x] + t)[i] != (seq![x] + t)[j] by { assert(m[nb + i] == (seq![x] + t)[i]); assert(m[nb + j] == (seq![x] + t)[j]); }
    assert forall|i: int, j: int| 0 <= i < j < t.len() implies t[i] != t[j] by { assert(m[nb + 1 + i] == t[i]); assert(m[nb + 1 + j] == t[j]); }
    if (b + seq![x]).contains(me) { let i = choose|i: int| 0 <= i < (b + seq![x]).len() && (b + seq![x])[i] == me; assert(m[i] == me); assert(w[1 + i] == w[0]); }
    if m.contains(me) { let i = choose|i: int| 0 <= i < m.len() && m[i] == me; assert(w[1 + i] == w[0]); }
}
// what a placement keeps: no duplicates, the same ids plus the block
pub proof fn lemma_placed_props(o: Seq<usize>, a: usize, b: Seq<usize>)
    requires o.no_duplicates(), o.contains(a), !b.contains(a), b.no_duplicates(),
    ensures placed_after(o, a, b).no_duplicates(),
            forall|x: usize| placed_after(o, a, b).contains(x) <==> (o.contains(x) || b.contains(x)),
            placed_after(o, a, b).contains(last_of(a, b)),
{
    let r = without_block(o, b);
    lemma_wb_contains(o, b, a);
    lemma_wb_nodup(o, b);
    let k = r.index_of(a);
    let x = r.subrange(0, k + 1);
    let y = r.subrange(k + 1, r.len() as int);
    let p = x + b + y;
    assert(r =~= x + y);
    assert forall|v: usize| p.contains(v) <==> (o.contains(v) || b.contains(v)) by {
        lemma_wb_contains(o, b, v);
        if p.contains(v) {
            let i = choose|i: int| 0 <= i < p.len() && p[i] == v;
            if i < x.len() { assert(r[i] == v); assert(r.contains(v)); }
            else if i < x.len() + b.len() { assert(b[i - x.len()] == v); }
            else { assert(r[i - b.len()] == v); assert(r.contains(v)); }
        }
        if b.contains(v) { let i = choose|i: int| 0 <= i < b.len() && b[i] == v; assert(p[x.len() + i] == v); }
        if o.contains(v) && !b.contains(v) {
            assert(r.contains(v));
            let i = choose|i: int| 0 <= i < r.len() && r[i] == v;
            if i <= k { assert(p[i] == v); } else { assert(p[i + b.len()] == v); }
        }
    }
    assert forall|i: int, j: int| 0 <= i < j < p.len() implies p[i] != p[j] by {
        let nx = x.len() as int; let nb = b.len() as int;
        lemma_wb_contains(o, b, p[i]);
        lemma_wb_contains(o, b, p[j]);
        if i < nx {
            assert(r[i] == p[i]); assert(r.contains(p[i]));
            if j < nx { assert(r[j] == p[j]); }
            else if j < nx + nb { assert(b[j - nx] == p[j]); assert(b.contains(p[j])); }
            else { assert(r[j - nb] == p[j]); }
        } else if i < nx + nb {
            assert(b[i - nx] == p[i]); assert(b.contains(p[i]));
            if j < nx + nb { assert(b[j - nx] == p[j]); }
            else { assert(r[j - nb] == p[j]); assert(r.contains(p[j])); }
        } else {
            assert(r[i - nb] == p[i]); assert(r[j - nb] == p[j]);
        }
    }
    if b.len() == 0 { assert(seq![a] + b =~= seq![a]); assert(p[k] == a); } else { assert((seq![a] + b).last() == b.last()); assert(p[x.len() + b.len() - 1] == b.last()); }
}

#[verifier::external_body]
pub fn shim_value_items(v: &Vec<XmlAttributeValue>) -> (r: Vec<XmlItem>)
    ensures r@ == v@.map_values(|x: XmlAttributeValue| item_of(x)),
{ unimplemented!() }
#[verifier::external_body]
pub fn shim_clone_items(v: &Vec<XmlItem>) -> (r: Vec<XmlItem>)
    ensures r@ == v@,
{ unimplemented!() }
#[verifier::external_body]
pub fn shim_extend_ns(items: &mut Vec<XmlItem>, from: &Vec<XmlItem>, ns: bool)
    ensures final(items)@ == old(items)@ + (if ns { from@.filter(|a: XmlItem| is_ns_item(a)) } else { from@.filter(|a: XmlItem| !is_ns_item(a)) }),
{ unimplemented!() }
#[verifier::external_body]
pub fn shim_extend_all(items: &mut Vec<XmlItem>, from: &Vec<XmlItem>)
    ensures final(items)@ == old(items)@ + from@,
{ unimplemented!() }
#[verifier::external_body]
pub fn shim_last(v: &Vec<XmlItem>) -> (r: Option<&XmlItem>)
    ensures v@.len() == 0 ==> r is None, v@.len() > 0 ==> r is Some && *r->Some_0 == v@.last(),
{ v.last() }

impl XmlItem {
    // XmlItem::id(): a 15-arm match returning the id stored in the item (info/src/lib.rs)
    pub fn id(&self) -> (r: usize) ensures r == id_of(*self)
    { match self { XmlItem::Attribute(a) => a.ident, XmlItem::Document(d) => d.ident, XmlItem::Element(e) => e.ident, XmlItem::Other(i) => *i } }

    //@@ sub_items

    //@@ last_descendant_or_self_id

    //@@ place_descendants

    //@@ place_subtree_after

    //@@ place_subtree_before
}

} // verus!
fn main() {}
'''

IT = 'impl XmlItem'
R_RC = Rule('R11', r'Rc<XmlItem>', 'XmlItem', 'Rc<XmlItem> -> the item itself (A4: shared ownership dropped, the tree is a value)')
R_ORDER_SIG = Rule('R43', r'\(&self(, id: usize)?\)', lambda m: '(&self' + (m.group(1) or '') + ', order: &mut DocOrder)', 'the document order vector the items share through their Context: made an explicit parameter')
KEEP_NL = lambda text: (lambda m: text + '\n' * m.group(0).count('\n'))

SUB_RULES = [
    R_RC,
    Rule('R48', r'v\s*\.borrow\(\)\s*\.values\s*\.borrow\(\)\s*\.iter\(\)\s*\.map\(\|v\| match v \{\s*XmlAttributeValue::Char\(i\) => i\.clone\(\),\s*XmlAttributeValue::Entity\(i\) => i\.clone\(\),\s*XmlAttributeValue::Text\(i\) => i\.clone\(\),\s*\}\)\s*\.collect\(\)',
         KEEP_NL('shim_value_items(&v.values)'), 'iter().map(the item inside each value).collect() -> shim with exactly that contract'),
    Rule('R48', r'v\.borrow\(\)\.children\.borrow\(\)\.clone\(\)', 'shim_clone_items(&v.children)', 'RefCell borrows dropped (A4); Vec::clone of the child handles -> shim (same items, same order)'),
    Rule('R11', r'let element = v\.borrow\(\);', 'let element = v;', 'RefCell borrow dropped (A4)'),
    Rule('R48', r'let is_ns = \|a: &XmlItem\| \{.*?\};', KEEP_NL('/* is_ns(a) = a.as_attribute().map(|a| a.borrow().namespace()).unwrap_or_default(): spec is_ns_item */'),
         'closure over the live attribute item -> the spec predicate is_ns_item (an attribute item whose `namespace()` is true)'),
    Rule('R48', r'items\.extend\(element\.attributes\.iter\(\)\.filter\(\|a\| is_ns\(a\)\)\.cloned\(\)\);', 'shim_extend_ns(&mut items, &element.attributes, true);', 'extend(iter().filter(is_ns).cloned()) -> shim: appends the filtered list'),
    Rule('R48', r'items\.extend\(element\.attributes\.iter\(\)\.filter\(\|a\| !is_ns\(a\)\)\.cloned\(\)\);', 'shim_extend_ns(&mut items, &element.attributes, false);', 'extend(iter().filter(!is_ns).cloned()) -> shim'),
    Rule('R48', r'items\.extend\(element\.children\.borrow\(\)\.iter\(\)\.cloned\(\)\);', 'shim_extend_all(&mut items, &element.children);', 'extend(iter().cloned()) -> shim: appends the list'),
]

LOOP_PD = {0: dict(invariant=[
    ('frame', '__it.seq() == subs(*self) && o0.no_duplicates() && o0.contains(me) && me == id_of(*self) && pre(*self).no_duplicates() && pre(*self) == seq![me] + flat_any(subs(*self))'),
    ('C14:placed_so_far_is_the_prefix_of_the_subtree_directly_after_the_item', 'order.seq@ == placed_after(o0, me, flat_any(subs(*self).take(__it.index@)))'),
    ('C14:anchor_is_the_last_id_placed', 'last == last_of(me, flat_any(subs(*self).take(__it.index@)))'),
    ('C14:ids_stay_unique', 'order.seq@.no_duplicates()'),
])}
STEP = """proof {
    let k = __it.index@;
    let b = flat_any(subs(*self).take(k));
    lemma_flat_split(subs(*self), k);
    lemma_pre_subs(sub);
    lemma_subs_smaller(*self, k);
    let t = pre(sub).subrange(1, pre(sub).len() as int);
    assert(pre(sub) =~= seq![id_of(sub)] + t);
    let rest = flat_any(subs(*self).skip(k + 1));
    assert(pre(*self) =~= seq![me] + b + seq![id_of(sub)] + t + rest);
    lemma_nodup_parts(me, b, id_of(sub), t, rest);
    lemma_placed_props(o0, me, b);
    lemma_place_more(o0, me, b, seq![id_of(sub)]);
    assert(last_of(me, b + seq![id_of(sub)]) == id_of(sub));
    lemma_placed_props(o0, me, b + seq![id_of(sub)]);
    lemma_place_more(o0, me, b + seq![id_of(sub)], t);
    assert(b + seq![id_of(sub)] + t =~= b + pre(sub));
    assert(flat_any(subs(*self).take(k + 1)) == b + pre(sub));
    assert(last_of(me, b + pre(sub)) == pre(sub).last());
    lemma_placed_props(o0, me, b + pre(sub));
}"""
PS_HINT = """proof {
    lemma_pre_subs(*self);
    let t = pre(*self).subrange(1, pre(*self).len() as int);
    assert(pre(*self) =~= seq![id_of(*self)] + t);
    assert(pre(*self)[0] == id_of(*self));
    assert(id != id_of(*self));
    assert(!t.contains(id)) by { if t.contains(id) { let i = choose|i: int| 0 <= i < t.len() && t[i] == id; assert(pre(*self)[1 + i] == id); } }
    assert(!seq![id_of(*self)].contains(id));
    lemma_placed_props(order.seq@, id, seq![id_of(*self)]);
    lemma_place_more(order.seq@, id, seq![id_of(*self)], t);
    assert(last_of(id, seq![id_of(*self)]) == id_of(*self));
    lemma_place_more_before(order.seq@, id, id_of(*self), t);
}"""
DOMAIN = [('order_ids_are_unique', 'old(order).seq@.no_duplicates()'), ('subtree_ids_are_unique', 'pre(*self).no_duplicates()'),
          ('anchor_is_numbered', 'old(order).seq@.contains(id)'), ('anchor_is_outside_the_subtree', '!pre(*self).contains(id)')]


def build():
    P = ['C14']
    fns = {}
    fns['sub_items'] = Fn(FI, IT, 'sub_items', props=P, safety_props=P, label='XmlItem::sub_items', sig_rules=[R_RC], rules=SUB_RULES,
                          ensures=[('C14:namespace_declarations_then_attributes_then_children', 'r@ =~= subs(*self)')])
    fns['last_descendant_or_self_id'] = Fn(
        FI, IT, 'last_descendant_or_self_id', props=P, safety_props=P, label='XmlItem::last_descendant_or_self_id', decreases='*self',
        rules=[Rule('R48', r'match self\.sub_items\(\)\.last\(\) \{', 'let __subs = self.sub_items(); match shim_last(&__subs) {', 'Vec::last of a temporary -> named temporary + shim (None for an empty list, else its last element)')],
        inject=[(r'let __subs = self\.sub_items\(\);', 'proof { lemma_pre_subs(*self); if subs(*self).len() > 0 { lemma_subs_smaller(*self, subs(*self).len() - 1); lemma_pre_subs(subs(*self).last()); } }', 'before')],
        ensures=[('C14:answers_the_last_id_of_the_subtree_in_document_order', 'r == pre(*self).last()')])
    fns['place_descendants'] = Fn(
        FI, IT, 'place_descendants', props=P, safety_props=P, label='XmlItem::place_descendants', decreases='*self', sig_rules=[R_ORDER_SIG],
        rules=[Rule('R47', r'for sub in self\.sub_items\(\) \{', 'for sub in __it: __subs /*@loop*/ {', 'iterator named so that the invariant can refer to its position; the list is the named temporary'),
               Rule('R43', r'sub\.set_order_after\(last\);', 'let __placed = order.set_after(sub.id(), last);', 'the item moves ITS id in the shared order vector: made explicit'),
               Rule('R43', r'sub\.place_descendants\(\)', 'sub.place_descendants(order)', 'same order vector passed down')],
        inject=[(r'let mut last = self\.id\(\);', 'proof { lemma_pre_subs(*self); lemma_place_nothing(order.seq@, id_of(*self)); } let ghost o0 = order.seq@; let ghost me = id_of(*self); let __subs = self.sub_items();'),
                (r'let __placed = order\.set_after', STEP, 'before'),
                (r'^\s*last$', 'proof { assert(subs(*self).take(subs(*self).len() as int) =~= subs(*self)); assert(pre(*self).subrange(1, pre(*self).len() as int) =~= flat_any(subs(*self))); }', 'before')],
        loops=LOOP_PD,
        requires=[DOMAIN[0], ('item_is_numbered', 'old(order).seq@.contains(id_of(*self))'), DOMAIN[1]],
        ensures=[('C14:everything_below_gets_consecutive_positions_directly_after_the_item', 'final(order).seq@ == placed_after(old(order).seq@, id_of(*self), pre(*self).subrange(1, pre(*self).len() as int))'),
                 ('C14:answers_the_last_id_placed', 'r == pre(*self).last()'),
                 ('C14:ids_stay_unique', 'final(order).seq@.no_duplicates()')])
    for (key, name, spec, setter) in (('place_subtree_after', 'place_subtree_after', 'placed_after', 'set_after'), ('place_subtree_before', 'place_subtree_before', 'placed_before', 'set_before')):
        fns[key] = Fn(
            FI, IT, name, props=P, safety_props=P, label=f'XmlItem::{name}', sig_rules=[R_ORDER_SIG],
            rules=[Rule('R43', r'self\.set_order_(after|before)\(id\)', lambda m: f'order.set_{m.group(1)}(self.id(), id)', 'the item moves ITS id in the shared order vector: made explicit'),
                   Rule('R43', r'self\.place_descendants\(\)', 'self.place_descendants(order)', 'same order vector passed down')],
            inject=[(r'let placed = order\.set_', PS_HINT, 'before')],
            requires=DOMAIN,
            ensures=[('C14:the_whole_subtree_gets_consecutive_positions_next_to_the_anchor', f'r is Some && final(order).seq@ == {spec}(old(order).seq@, id, pre(*self))'),
                     ('C14:ids_stay_unique', 'final(order).seq@.no_duplicates()')])
    return ENV, fns


TEMPLATE, FNS = build()
UNIT = dict(name='c14_subtree', template=TEMPLATE, fns=FNS, props=['C14'])
