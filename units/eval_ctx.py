"""XPath evaluator skeleton (xpath/src/eval/mod.rs, xpath/src/eval/model.rs).

Every `eval_*` function is put under the SAME three-part contract and verified against the contracts of its callees
(the functions are mutually recursive, so this is induction over the recursion, function by function):

  C19  context-stack balance: the `size` / `position` stacks (and the namespace bindings) of the caller's
       `model::Context` are exactly restored when the function returns -- with `Ok` AND with `Err`.
  C07  node-sets handed upwards are ordered by document-order key: strictly increasing (hence duplicate-free) wherever
       the evaluator promises a *set* (union level and above, filter expressions), non-strictly after the sort of
       a location path.
  C06  no panic: every `unwrap()`, `unimplemented!()`, `unreachable!()` is an obligation (Verus proves the
       precondition of `Option::unwrap`; `unimplemented!` becomes a call to a function with `requires false`).

Abstract state: a node is an opaque handle with an uninterpreted order key `order_key(node)`; expression-model values
are opaque handles reached through accessor stubs (assumption A9: `operands()` of Or/And/Union expressions are
non-empty, the parser builds them with separated_list1).  Termination of the recursion is NOT verified (structural
recursion over an opaque expression tree); every loop ranges over a finite vector.
"""
from vf.unit import Fn, Rule

FE = 'xpath/src/eval/mod.rs'
FM = 'xpath/src/eval/model.rs'

ENV = r'''use vstd::prelude::*;
verus! {

// =====================================================================================================
// environment: opaque DOM handles (xml_dom), never constructed or inspected by the extracted bodies
// =====================================================================================================
pub mod dom {
    use vstd::prelude::*;

    pub mod error {
        pub struct Error { pub code: usize }
    }

    pub struct XmlElement { pub h: usize }
    pub struct XmlAttr { pub h: usize }
    pub struct XmlText { pub h: usize }
    pub struct XmlCDataSection { pub h: usize }
    pub struct XmlEntityReference { pub h: usize }
    pub struct XmlEntity { pub h: usize }
    pub struct XmlProcessingInstruction { pub h: usize }
    pub struct XmlComment { pub h: usize }
    pub struct XmlDocument { pub h: usize }
    pub struct XmlDocumentType { pub h: usize }
    pub struct XmlDocumentFragment { pub h: usize }
    pub struct XmlNotation { pub h: usize }
    pub struct XmlNamespace { pub h: usize }
    pub struct XmlExpandedText { pub h: usize }

    // dom/src/lib.rs: pub enum XmlNode (variants only)
    pub enum XmlNode {
        Element(XmlElement),
        Attribute(XmlAttr),
        Text(XmlText),
        CData(XmlCDataSection),
        EntityReference(XmlEntityReference),
        Entity(XmlEntity),
        PI(XmlProcessingInstruction),
        Comment(XmlComment),
        Document(XmlDocument),
        DocumentType(XmlDocumentType),
        DocumentFragment(XmlDocumentFragment),
        Notation(XmlNotation),
        Namespace(XmlNamespace),
        ExpandedText(XmlExpandedText),
    }

    #[derive(PartialEq, Eq)]
    pub enum NodeType {
        Element, Attribute, Text, CData, EntityReference, Entity, PI, Comment, Document, DocumentType,
        DocumentFragment, Notation,
    }

    impl Clone for NodeType {
        #[verifier::external_body]
        fn clone(&self) -> (r: Self)
            ensures r == *self,
        {
            unimplemented!()
        }
    }

    pub type ExpandedName = (String, Option<String>, Option<String>);

    // DOM nodeType / nodeName of a node: uninterpreted (namespace nodes answer Attribute in this library)
    pub uninterp spec fn node_type_of(n: XmlNode) -> NodeType;
    pub uninterp spec fn node_name_of(n: XmlNode) -> Seq<char>;

    // the document-order key of a node (info::HasContext::order through dom::XmlNode::order): uninterpreted
    pub uninterp spec fn order_key(n: XmlNode) -> usize;

    impl Clone for XmlNode {
        #[verifier::external_body]
        fn clone(&self) -> (r: Self)
            ensures r == *self,
        {
            unimplemented!()
        }
    }

    impl XmlNode {
        #[verifier::external_body]
        pub fn order(&self) -> (r: usize)
            ensures r == order_key(*self),
        {
            unimplemented!()
        }

        // DOM Level 1: the parent of a document, an attribute or a detached node is null -- nothing is promised
        #[verifier::external_body]
        pub fn parent_node(&self) -> (r: Option<XmlNode>)
        {
            unimplemented!()
        }

        // DOM Level 1: null for a Document node; this library also answers None for namespace nodes -- nothing is promised
        #[verifier::external_body]
        pub fn owner_document(&self) -> (r: Option<XmlDocument>)
        {
            unimplemented!()
        }

        #[verifier::external_body]
        pub fn node_type(&self) -> (r: NodeType)
            ensures r == node_type_of(*self),
        {
            unimplemented!()
        }

        #[verifier::external_body]
        pub fn node_name(&self) -> (r: String)
            ensures r@ == node_name_of(*self),
        {
            unimplemented!()
        }

        #[verifier::external_body]
        pub fn as_expanded_name(&self) -> (r: core::result::Result<Option<ExpandedName>, error::Error>)
        {
            unimplemented!()
        }
    }

    impl XmlDocument {
        #[verifier::external_body]
        pub fn as_node(&self) -> (r: XmlNode)
            ensures r is Document,
        {
            unimplemented!()
        }
    }
}

pub mod error {
    use vstd::prelude::*;
    use crate::dom;
    // xpath/src/eval/error.rs
    pub enum Error {
        Dom(dom::error::Error),
        InvalidType,
        InvalidArgumentCount(String),
        NotFoundFunction(String),
        NotFoundNamespace(String),
        NotFoundVariable(String),
    }
    pub type Result<T> = core::result::Result<T, Error>;

    impl From<dom::error::Error> for Error {
        #[verifier::external_body]
        fn from(value: dom::error::Error) -> (r: Self) {
            Error::Dom(value)
        }
    }
}

pub mod nom {
    pub mod model {
        pub struct QName<'a> { pub h: &'a str }
    }
}

// =====================================================================================================
// xpath/src/eval/model.rs: Context (real fields, real methods) and Value (variants only)
// =====================================================================================================
pub mod model {
    use vstd::prelude::*;
    use crate::dom::XmlNode;
    use crate::dom::ExpandedName;
    use crate::error;
    use crate::nom;

    pub struct Context {
        pub size: Vec<usize>,
        pub position: Vec<usize>,
        pub namespaces: Vec<(Option<String>, String)>,
    }

    // what "the caller's context is unchanged" means
    pub open spec fn same_ctx(a: Context, b: Context) -> bool {
        a.size@ =~= b.size@ && a.position@ =~= b.position@ && a.namespaces@ =~= b.namespaces@
    }

    impl Context {
        //@@ ctx_get_position

        //@@ ctx_pop_position

        //@@ ctx_push_position

        //@@ ctx_get_size

        //@@ ctx_pop_size

        //@@ ctx_push_size

        // namespace lookups: read-only (assumed callees here; decided under C10)
        #[verifier::external_body]
        pub fn expanded_name(&self, qname: &nom::model::QName) -> (r: error::Result<ExpandedName>) { unimplemented!() }
    }

    pub enum Value {
        Boolean(bool),
        Node(Vec<XmlNode>),
        Number(f64),
        Text(String),
    }

    pub trait AsValue {
        fn as_value(&self) -> Value;
    }

    impl AsValue for bool {
        //@@ as_value_bool
    }

    impl AsValue for Vec<XmlNode> {
        //@@ as_value_nodes
    }
}

// =====================================================================================================
// xpath/src/expr/model.rs: enums the bodies match on are copied (variants only); structs are opaque handles whose
// accessors are assumed callees (A9)
// =====================================================================================================
pub mod expr {
    use vstd::prelude::*;
    use crate::nom::model::QName;

    pub struct OrExpr<'a> { pub h: &'a str }
    pub type Expr<'a> = OrExpr<'a>;
    pub type PredicateExpr<'a> = Expr<'a>;
    pub type Argument<'a> = Expr<'a>;
    pub struct AndExpr<'a> { pub h: &'a str }
    pub struct EqualityExpr<'a> { pub h: &'a str }
    pub struct RelationalExpr<'a> { pub h: &'a str }
    pub struct AdditiveExpr<'a> { pub h: &'a str }
    pub struct MultiplicativeExpr<'a> { pub h: &'a str }
    pub struct UnaryExpr<'a> { pub h: &'a str }
    pub struct UnionExpr<'a> { pub h: &'a str }
    pub struct FilterExpr<'a> { pub h: &'a str }
    pub struct FunctionCall<'a> { pub h: &'a str }
    pub struct RelativeLocationPath<'a> { pub h: &'a str }

    pub enum EqualityOperator { Equal, NotEqual }
    pub enum RelationalOperator { LessThan, GreaterThan, LessEqual, GreaterEqual }
    pub enum AdditiveOperator { Add, Sub }
    pub enum MultiplicativeOperator { Mul, Div, Mod }
    pub enum LocationPathOperator { Current, DescendantOrSelfNode }
    pub enum AxisName {
        Ancestor, AncestorOrSelf, Attribute, Child, Descendant, DescendantOrSelf, Following, FollowingSibling,
        Namespace, Parent, Preceding, PrecedingSibling, Current,
    }
    pub enum AxisSpecifier { Name(AxisName), Abbreviated(String) }
    pub enum NodeType { Comment, Text, PI, Node }
    pub enum NameTest<'a> { All, Namespace(&'a str), QName(QName<'a>) }
    pub enum NodeTest<'a> { Name(NameTest<'a>), Type(NodeType), PI(&'a str) }
    pub enum PathExpr<'a> {
        Root,
        Filter(FilterExpr<'a>),
        Path(Option<(Option<FilterExpr<'a>>, LocationPathOperator)>, RelativeLocationPath<'a>),
    }
    pub enum PrimaryExpr<'a> {
        Variable(QName<'a>),
        Expr(Box<Expr<'a>>),
        Literal(&'a str),
        Number(&'a str),
        Function(FunctionCall<'a>),
    }
    pub enum Step<'a> {
        Test(AxisSpecifier, NodeTest<'a>, Vec<Expr<'a>>),
        Current,
        Parent,
    }

    impl<'a> OrExpr<'a> {
        #[verifier::external_body]
        pub fn operands(&self) -> (r: &[AndExpr<'a>]) ensures r@.len() >= 1 { unimplemented!() }
    }
    impl<'a> AndExpr<'a> {
        #[verifier::external_body]
        pub fn operands(&self) -> (r: &[EqualityExpr<'a>]) ensures r@.len() >= 1 { unimplemented!() }
    }
    impl<'a> EqualityExpr<'a> {
        #[verifier::external_body]
        pub fn operand(&self) -> (r: &RelationalExpr<'a>) { unimplemented!() }
        #[verifier::external_body]
        pub fn operations(&self) -> (r: &[(EqualityOperator, RelationalExpr<'a>)]) { unimplemented!() }
    }
    impl<'a> RelationalExpr<'a> {
        #[verifier::external_body]
        pub fn operand(&self) -> (r: &AdditiveExpr<'a>) { unimplemented!() }
        #[verifier::external_body]
        pub fn operations(&self) -> (r: &[(RelationalOperator, AdditiveExpr<'a>)]) { unimplemented!() }
    }
    impl<'a> AdditiveExpr<'a> {
        #[verifier::external_body]
        pub fn operand(&self) -> (r: &MultiplicativeExpr<'a>) { unimplemented!() }
        #[verifier::external_body]
        pub fn operations(&self) -> (r: &[(AdditiveOperator, MultiplicativeExpr<'a>)]) { unimplemented!() }
    }
    impl<'a> MultiplicativeExpr<'a> {
        #[verifier::external_body]
        pub fn operand(&self) -> (r: &UnaryExpr<'a>) { unimplemented!() }
        #[verifier::external_body]
        pub fn operations(&self) -> (r: &[(MultiplicativeOperator, UnaryExpr<'a>)]) { unimplemented!() }
    }
    impl<'a> UnaryExpr<'a> {
        #[verifier::external_body]
        pub fn inv(&self) -> (r: &[&'a str]) { unimplemented!() }
        #[verifier::external_body]
        pub fn value(&self) -> (r: &UnionExpr<'a>) { unimplemented!() }
    }
    impl<'a> UnionExpr<'a> {
        #[verifier::external_body]
        pub fn operands(&self) -> (r: &[PathExpr<'a>]) { unimplemented!() }
    }
    impl<'a> FilterExpr<'a> {
        #[verifier::external_body]
        pub fn primary(&self) -> (r: &PrimaryExpr<'a>) { unimplemented!() }
        #[verifier::external_body]
        pub fn predicates(&self) -> (r: &[PredicateExpr<'a>]) { unimplemented!() }
    }
    impl<'a> FunctionCall<'a> {
        #[verifier::external_body]
        pub fn name(&self) -> (r: &QName<'a>) { unimplemented!() }
        pub uninterp spec fn spec_args(&self) -> Seq<Argument<'a>>;
        #[verifier::external_body]
        pub fn args(&self) -> (r: &[Argument<'a>]) ensures r@ == self.spec_args() { unimplemented!() }
    }
    impl<'a> RelativeLocationPath<'a> {
        #[verifier::external_body]
        pub fn operand(&self) -> (r: &Step<'a>) { unimplemented!() }
        #[verifier::external_body]
        pub fn operations(&self) -> (r: &[(LocationPathOperator, Step<'a>)]) { unimplemented!() }
    }
}

use dom::order_key;
use model::{same_ctx, AsValue};

pub open spec fn sorted_by_order(s: Seq<dom::XmlNode>) -> bool {
    forall|i: int, j: int| 0 <= i < j < s.len() ==> order_key(s[i]) <= order_key(s[j])
}
pub open spec fn strictly_sorted_by_order(s: Seq<dom::XmlNode>) -> bool {
    forall|i: int, j: int| 0 <= i < j < s.len() ==> order_key(s[i]) < order_key(s[j])
}
// a Value that is a node-set is a *set in document order*
pub open spec fn value_is_ordered_set(v: model::Value) -> bool {
    v is Node ==> strictly_sorted_by_order(v->Node_0@)
}
pub open spec fn value_is_sorted(v: model::Value) -> bool {
    v is Node ==> sorted_by_order(v->Node_0@)
}

// ---- std shims (A2): body = the original std expression, contract = its documented behaviour ----
#[verifier::external_body]
pub fn shim_enumerate(v: Vec<dom::XmlNode>) -> (r: Vec<(usize, dom::XmlNode)>)
    ensures r@.len() == v@.len(), forall|i: int| 0 <= i < v@.len() ==> #[trigger] r@[i] == (i as usize, v@[i]),
{
    v.into_iter().enumerate().collect()
}

#[verifier::external_body]
pub fn shim_skip1<T>(s: &[T]) -> (r: &[T])
    ensures r@ == (if s@.len() >= 1 { s@.subrange(1, s@.len() as int) } else { s@ }),
{
    if s.is_empty() { s } else { &s[1..] }
}

// `unimplemented!(..)` / `unreachable!()`: reaching one is a panic, so the call site must be provably dead
#[verifier::external_body]
pub fn shim_unimplemented<T>() -> (r: T)
    requires false,
    ensures false,
{
    unimplemented!()
}

// `x as usize` on an f64 (saturating, NaN -> 0): Verus has no float casts
#[verifier::external_body]
pub fn shim_f64_as_usize(v: f64) -> (r: usize)
    ensures r == f64_trunc_usize(v),
{
    v as usize
}

// ---- assumed callees (xpath/src/eval/model.rs conversions and operators, context-free) ----
pub uninterp spec fn bool_of(v: model::Value) -> bool;        // boolean() of a value (scalars: Kani, kani/src/c09.rs)
#[verifier::external_body]
pub fn value_to_bool(v: &model::Value) -> (r: error::Result<bool>)
    ensures r is Ok ==> r->Ok_0 == bool_of(*v),
{ unimplemented!() }

// ---- XPath 1.0 2.4: the truth of a predicate whose value is `v` at proximity position `pos` ----
pub uninterp spec fn f64_of_usize(n: usize) -> f64;           // n as f64 (exact below 2^53)
pub uninterp spec fn f64_ieee_eq(a: f64, b: f64) -> bool;     // IEEE comparison (NaN equals nothing)
pub uninterp spec fn f64_trunc_usize(v: f64) -> usize;        // `v as usize`: truncating, saturating, NaN -> 0
pub open spec fn predicate_truth(v: model::Value, pos: usize) -> bool {
    match v { model::Value::Number(x) => f64_ieee_eq(x, f64_of_usize(pos)), _ => bool_of(v) }
}
// "the value the predicate expression evaluated to": a NAME for what eval_expr returned inside eval_predicate, so that
// the postcondition can speak about it (nothing is assumed about the value itself)
pub uninterp spec fn is_value_of(v: model::Value, e: expr::Expr, n: dom::XmlNode) -> bool;
#[verifier::external_body]
pub proof fn name_the_value(v: model::Value, e: expr::Expr, n: dom::XmlNode)
    ensures is_value_of(v, e, n),
{}
#[verifier::external_body]
pub fn shim_usize_as_f64(n: usize) -> (r: f64) ensures r == f64_of_usize(n) { n as f64 }
#[verifier::external_body]
pub fn shim_f64_eq(a: f64, b: f64) -> (r: bool) ensures r == f64_ieee_eq(a, b) { a == b }

// `a + b`, `a - b`, `a * b`, `a / b`, `a % b`, `-a` on model::Value (impl ops::Add.. in model.rs): always a Number
#[verifier::external_body]
pub fn shim_value_add(a: model::Value, b: model::Value) -> (r: model::Value) ensures r is Number { unimplemented!() /* a + b */ }
#[verifier::external_body]
pub fn shim_value_sub(a: model::Value, b: model::Value) -> (r: model::Value) ensures r is Number { unimplemented!() /* a - b */ }
#[verifier::external_body]
pub fn shim_value_mul(a: model::Value, b: model::Value) -> (r: model::Value) ensures r is Number { unimplemented!() /* a * b */ }
#[verifier::external_body]
pub fn shim_value_div(a: model::Value, b: model::Value) -> (r: model::Value) ensures r is Number { unimplemented!() /* a / b */ }
#[verifier::external_body]
pub fn shim_value_rem(a: model::Value, b: model::Value) -> (r: model::Value) ensures r is Number { unimplemented!() /* a % b */ }
#[verifier::external_body]
pub fn shim_value_neg(a: model::Value) -> (r: model::Value) ensures r is Number { unimplemented!() /* -a */ }

// literal.to_string().as_value() / number.parse::<f64>().unwrap().as_value(): a Text / a Number
// (the Number lexeme comes from the grammar production Digits ('.' Digits?)? | '.' Digits, which f64::from_str accepts)
#[verifier::external_body]
pub fn shim_literal_value(literal: &str) -> (r: model::Value) ensures r is Text { unimplemented!() /* literal.to_string().as_value() */ }
#[verifier::external_body]
pub fn shim_number_value(number: &str) -> (r: model::Value) ensures r is Number { unimplemented!() /* number.parse::<f64>().unwrap().as_value() */ }

// the six comparison families of eval/mod.rs (context-free; decided for scalar operands under C09)
#[verifier::external_body]
fn equal_value(a: &model::Value, b: &model::Value) -> (r: error::Result<bool>) { unimplemented!() }
#[verifier::external_body]
fn not_equal_value(a: &model::Value, b: &model::Value) -> (r: error::Result<bool>) { unimplemented!() }
#[verifier::external_body]
fn greater_eq_value(a: &model::Value, b: &model::Value) -> (r: error::Result<bool>) { unimplemented!() }
#[verifier::external_body]
fn greater_than_value(a: &model::Value, b: &model::Value) -> (r: error::Result<bool>) { unimplemented!() }
#[verifier::external_body]
fn less_eq_value(a: &model::Value, b: &model::Value) -> (r: error::Result<bool>) { unimplemented!() }
#[verifier::external_body]
fn less_than_value(a: &model::Value, b: &model::Value) -> (r: error::Result<bool>) { unimplemented!() }

// axes (what they return is proved in units/c05_axes.py; nothing about it is needed here)
// parent(): the parent in the XPath data model (the element of an attribute, else the DOM parent)
#[verifier::external_body]
fn parent(node: &dom::XmlNode) -> (r: Option<dom::XmlNode>) { unimplemented!() }
#[verifier::external_body]
fn ancestor(node: dom::XmlNode) -> (r: Vec<dom::XmlNode>) { unimplemented!() }
#[verifier::external_body]
fn ancestor_and_self(node: dom::XmlNode) -> (r: Vec<dom::XmlNode>) { unimplemented!() }
#[verifier::external_body]
fn attributes(node: dom::XmlNode) -> (r: Vec<dom::XmlNode>) { unimplemented!() }
#[verifier::external_body]
fn child(node: dom::XmlNode) -> (r: Vec<dom::XmlNode>) { unimplemented!() }
#[verifier::external_body]
fn descendant(node: dom::XmlNode) -> (r: Vec<dom::XmlNode>) { unimplemented!() }
#[verifier::external_body]
fn descendant_and_self(node: dom::XmlNode) -> (r: Vec<dom::XmlNode>) { unimplemented!() }
#[verifier::external_body]
fn following(node: dom::XmlNode) -> (r: Vec<dom::XmlNode>) { unimplemented!() }
#[verifier::external_body]
fn following_sibling(node: dom::XmlNode) -> (r: Vec<dom::XmlNode>) { unimplemented!() }
#[verifier::external_body]
fn namespace(node: dom::XmlNode) -> (r: @NAMESPACE_RET@) { unimplemented!() }
#[verifier::external_body]
fn preceding(node: dom::XmlNode) -> (r: Vec<dom::XmlNode>) { unimplemented!() }
#[verifier::external_body]
fn preceding_sibling(node: dom::XmlNode) -> (r: Vec<dom::XmlNode>) { unimplemented!() }

// nodes.iter().flat_map(|n| descendant_and_self(n.clone())).collect()
#[verifier::external_body]
pub fn shim_flat_descendant_and_self(nodes: &Vec<dom::XmlNode>) -> (r: Vec<dom::XmlNode>)
{
    nodes.iter().flat_map(|n| descendant_and_self(n.clone())).collect()
}

// v.sort_by_cached_key(|v| v.order()): a stable sort by the order key -- a permutation, ascending
#[verifier::external_body]
pub fn shim_sort_by_order(v: &mut Vec<dom::XmlNode>)
    ensures sorted_by_order(final(v)@), final(v)@.to_multiset() == old(v)@.to_multiset(),
{
    v.sort_by_cached_key(|v| v.order());
}

// let mut set = HashSet::new(); v.retain(|v| set.insert(v.order())): keeps the FIRST node of every order key
pub open spec fn has_key(s: Seq<dom::XmlNode>, k: usize) -> bool {
    exists|i: int| 0 <= i < s.len() && order_key(#[trigger] s[i]) == k
}
pub open spec fn dedup_by_key(s: Seq<dom::XmlNode>) -> Seq<dom::XmlNode>
    decreases s.len(),
{
    if s.len() == 0 {
        s
    } else {
        let init = dedup_by_key(s.drop_last());
        if has_key(init, order_key(s.last())) { init } else { init.push(s.last()) }
    }
}
#[verifier::external_body]
pub fn shim_dedup_by_order(v: &mut Vec<dom::XmlNode>)
    ensures final(v)@ == dedup_by_key(old(v)@),
{
    let mut set = std::collections::HashSet::new();
    v.retain(|v| set.insert(v.order()));
}

// every key of dedup_by_key(s) is a key of s; on a sorted sequence the result is strictly sorted (a set)
pub proof fn lemma_dedup_keys(s: Seq<dom::XmlNode>)
    ensures
        forall|k: usize| has_key(dedup_by_key(s), k) <==> has_key(s, k),
        dedup_by_key(s).len() <= s.len(),
    decreases s.len(),
{
    if s.len() == 0 {
    } else {
        let t = s.drop_last();
        lemma_dedup_keys(t);
        let init = dedup_by_key(t);
        let d = dedup_by_key(s);
        assert forall|k: usize| has_key(d, k) <==> has_key(s, k) by {
            if has_key(s, k) {
                let i = choose|i: int| 0 <= i < s.len() && order_key(#[trigger] s[i]) == k;
                if i < t.len() {
                    assert(t[i] == s[i]);
                    assert(has_key(t, k));
                    assert(has_key(init, k));
                    let j = choose|j: int| 0 <= j < init.len() && order_key(#[trigger] init[j]) == k;
                    assert(d[j] == init[j]);
                } else {
                    if has_key(init, order_key(s.last())) {
                    } else {
                        assert(d[d.len() - 1] == s.last());
                    }
                }
            }
            if has_key(d, k) {
                let j = choose|j: int| 0 <= j < d.len() && order_key(#[trigger] d[j]) == k;
                if j < init.len() {
                    assert(init[j] == d[j]);
                    assert(has_key(init, k));
                    assert(has_key(t, k));
                    let i = choose|i: int| 0 <= i < t.len() && order_key(#[trigger] t[i]) == k;
                    assert(s[i] == t[i]);
                } else {
                    assert(d[j] == s.last());
                    assert(s[s.len() - 1] == s.last());
                }
            }
        }
    }
}

pub proof fn lemma_dedup_sorted(s: Seq<dom::XmlNode>)
    requires sorted_by_order(s),
    ensures strictly_sorted_by_order(dedup_by_key(s)),
    decreases s.len(),
{
    if s.len() == 0 {
    } else {
        let t = s.drop_last();
        assert(sorted_by_order(t)) by {
            assert forall|i: int, j: int| 0 <= i < j < t.len() implies order_key(t[i]) <= order_key(t[j]) by {
                assert(t[i] == s[i] && t[j] == s[j]);
            }
        }
        lemma_dedup_sorted(t);
        lemma_dedup_keys(t);
        let init = dedup_by_key(t);
        let d = dedup_by_key(s);
        if !has_key(init, order_key(s.last())) {
            assert forall|i: int, j: int| 0 <= i < j < d.len() implies order_key(d[i]) < order_key(d[j]) by {
                if j < init.len() {
                    assert(d[i] == init[i] && d[j] == init[j]);
                } else {
                    assert(d[j] == s.last());
                    assert(d[i] == init[i]);
                    assert(has_key(init, order_key(init[i])));
                    assert(has_key(t, order_key(init[i])));
                    let m = choose|m: int| 0 <= m < t.len() && order_key(#[trigger] t[m]) == order_key(init[i]);
                    assert(t[m] == s[m]);
                    assert(order_key(s[m]) <= order_key(s[s.len() - 1]));
                }
            }
        }
    }
}

// a strictly sorted sequence is its own de-duplication
pub proof fn lemma_dedup_of_set(s: Seq<dom::XmlNode>)
    requires strictly_sorted_by_order(s),
    ensures dedup_by_key(s) == s,
    decreases s.len(),
{
    if s.len() == 0 {
    } else {
        let t = s.drop_last();
        assert(strictly_sorted_by_order(t)) by {
            assert forall|i: int, j: int| 0 <= i < j < t.len() implies order_key(t[i]) < order_key(t[j]) by {
                assert(t[i] == s[i] && t[j] == s[j]);
            }
        }
        lemma_dedup_of_set(t);
        if has_key(t, order_key(s.last())) {
            let m = choose|m: int| 0 <= m < t.len() && order_key(#[trigger] t[m]) == order_key(s.last());
            assert(t[m] == s[m]);
            assert(order_key(s[m]) < order_key(s[s.len() - 1]));
        }
        assert(t.push(s.last()) =~= s);
    }
}


// xpath/src/eval/func.rs: the function table (assumed: library functions only read the context -- last() and
// position() call get_size()/get_position() -- and the only node-set any of them returns is the empty one of id())
pub mod func {
    use vstd::prelude::*;
    use crate::{dom, error, model};
    use crate::model::same_ctx;
    pub struct Entry { pub h: usize }
    #[verifier::external_body]
    pub fn table() -> (r: Vec<Entry>) { unimplemented!() }
    impl Entry {
        // the `args: (min..max)` range of the table entry
        pub uninterp spec fn spec_min_args(&self) -> usize;
        pub uninterp spec fn spec_max_args(&self) -> usize;
        #[verifier::external_body]
        pub fn min_args(&self) -> (r: usize) ensures r == self.spec_min_args() { unimplemented!() }
        #[verifier::external_body]
        pub fn max_args(&self) -> (r: usize) ensures r == self.spec_max_args() { unimplemented!() }
        // calls the library function of the entry: every function of xpath/src/eval/func.rs is verified (units/func_lib.py,
        // units/func_strings.py) under exactly this precondition -- the number of arguments is within the entry's range
        #[verifier::external_body]
        pub fn exec(&self, args: Vec<model::Value>, node: dom::XmlNode, context: &mut model::Context) -> (r: error::Result<model::Value>)
            requires self.spec_min_args() <= args@.len() <= self.spec_max_args(),
            ensures same_ctx(*final(context), *old(context)), r is Ok ==> crate::value_is_ordered_set(r->Ok_0),
        { unimplemented!() }
    }
}
// table.iter().find(|v| v.local_part() == local_part && v.namespace_uri() == uri.as_deref()).ok_or_else(|| NotFoundFunction(..))
#[verifier::external_body]
pub fn shim_find_entry<'t>(table: &'t Vec<func::Entry>, local_part: &String, uri: &Option<String>) -> (r: error::Result<&'t func::Entry>)
{
    unimplemented!()
}
#[verifier::external_body]
pub fn shim_invalid_argument_count(local_part: &String) -> (r: error::Error)
{
    error::Error::InvalidArgumentCount(local_part.to_string())
}
#[verifier::external_body]
pub fn shim_reverse(v: &mut Vec<dom::XmlNode>)
    ensures final(v)@ == old(v)@.reverse(),
{
    v.reverse();
}
#[verifier::external_body]
pub fn shim_is_node_type(node: &dom::XmlNode, t: dom::NodeType) -> (r: bool)
    ensures r == (dom::node_type_of(*node) == t),
{
    unimplemented!() /* node.node_type() == t */
}
#[verifier::external_body]
pub fn shim_get_ns_uri(context: &mut model::Context, prefix: &str) -> (r: error::Result<String>)
    ensures same_ctx(*final(context), *old(context)),
{
    unimplemented!()
}
#[verifier::external_body]
pub fn shim_uri_eq(a: &String, b: &Option<String>) -> (r: bool)
{
    Some(a.as_str()) == b.as_deref()
}
// equal_qname(qname, node, &context): reads the namespace bindings only (decided under C10)
#[verifier::external_body]
fn equal_qname(qname: &nom::model::QName, node: dom::XmlNode, context: &model::Context) -> (r: error::Result<bool>) { unimplemented!() }
// Err(NotFoundVariable(match name { Prefixed(p) => format!("{}:{}", ..), Unprefixed(u) => u.to_string() })): the error payload
#[verifier::external_body]
pub fn shim_not_found_variable(name: &nom::model::QName) -> (r: error::Error)
{
    unimplemented!()
}
// node.node_name() == *target  (String == str)
#[verifier::external_body]
pub fn shim_string_eq_str(a: &String, b: &str) -> (r: bool)
    ensures r == (a@ == b@),
{
    a.as_str() == b
}
// v.as_str() == "@"  (match on a string literal)
#[verifier::external_body]
pub fn shim_is_at(v: &String) -> (r: bool)
{
    v.as_str() == "@"
}

//@@ eval_expr

//@@ eval_or_expr

//@@ eval_and_expr

//@@ eval_eq_expr

//@@ eval_relational_expr

//@@ eval_add_expr

//@@ eval_mul_expr

//@@ eval_unary_expr

//@@ eval_union_expr

//@@ eval_path_expr

//@@ eval_filter_expr

//@@ eval_primary_expr

//@@ eval_filtered_loc_expr

//@@ eval_loc_expr

//@@ eval_step_expr

//@@ eval_axis_node_test

//@@ eval_node_test

//@@ eval_predicate

//@@ eval_func_expr

} // verus!
fn main() {}
'''

CTX = 'impl Context'
SAME = 'same_ctx(*final(context), *old(context))'
C19 = ('C19:context_restored', SAME)
C07SET = ('C07:node_set_is_ordered_set', 'r is Ok ==> value_is_ordered_set(r->Ok_0)')

R_TOBOOL = Rule('R19', r'bool::try_from\(', 'value_to_bool(', '`bool::try_from(&Value)` (TryFrom impl of model.rs) -> assumed context-free callee')
R_SKIP1 = Rule('R20', r'([a-z_]+\.operands\(\))\.iter\(\)\.skip\(1\)', r'shim_skip1(\1)', 'slice.iter().skip(1) -> shim returning the tail slice')
R_ENUM = Rule('R18', r'for \((\w+), (\w+)\) in (\w+)\.into_iter\(\)\.enumerate\(\) \{',
              r'for __pn in __it: shim_enumerate(\3) /*@loop*/ { let (\1, \2) = __pn;',
              'for (i, x) in v.into_iter().enumerate() -> for over the shim-built Vec<(usize, T)> (Verus has no spec for Enumerate)')
R_UNIMPL = Rule('R21', r'(unimplemented|unreachable)!\([^)]*\)', 'shim_unimplemented()', 'panic site -> call of a function with `requires false` (the site must be provably dead)')
R_F64CAST = Rule('R22', r'\bv as usize\b', 'shim_f64_as_usize(v)', 'f64 -> usize cast: Verus has no float casts; result unconstrained')
# the predicate loop shared by eval_filter_expr and eval_axis_node_test (`__src` = the node list before the loop, ghost)
PRED_LOOP_CTX = [
    ('C19:ctx_has_one_size_pushed', 'context.size@ =~= old(context).size@.push(__src.len() as usize) && context.position@ =~= old(context).position@ && context.namespaces@ =~= old(context).namespaces@'),
    ('C19+C06:elements', '__it.seq().len() == __src.len() && (forall|i: int| 0 <= i < __src.len() ==> #[trigger] __it.seq()[i] == (i as usize, __src[i]))'),
    ('C19+C06:src_fits_usize', '__src.len() <= usize::MAX'),
]
PRED_LOOP_SORTED = [
    ('C07:src_sorted', 'strictly_sorted_by_order(__src)'),
    ('C07:filtered_sorted', 'strictly_sorted_by_order(filtered@)'),
    ('C07:filtered_before_rest', 'forall|a: int, b: int| 0 <= a < filtered@.len() && __it.index@ <= b < __src.len() ==> order_key(#[trigger] filtered@[a]) < order_key(#[trigger] __src[b])'),
]
R23WHY = 'operator on model::Value (impl ops::Add/Sub/Mul/Div/Rem/Neg in model.rs) -> assumed context-free callee returning a Number'
R_PAIR = Rule('R28', r'for \((\w+), (\w+)\) in (\w+\.operations\(\)) \{', r'for __p in \3 /*@loop*/ { let (\1, \2) = (&__p.0, &__p.1);',
              'tuple pattern in a for loop over &[(A, B)] -> explicit projections (Verus accepts only a variable there)')
R_DEDUP = Rule('R29', r'let mut set = HashSet::new\(\);\s*(nodes|collected)\.retain\(\|v\| set\.insert\(v\.order\(\)\)\);', lambda m: f'shim_dedup_by_order(&mut {m.group(1)});' + '\n' * m.group(0).count('\n'),
               'HashSet + Vec::retain with a side-effecting closure -> shim whose contract is "keep the first node of every order key"')
R_SORT = Rule('R30', r'(\w+)\.sort_by_cached_key\(\|v\| v\.order\(\)\);', r'shim_sort_by_order(&mut \1);', 'Vec::sort_by_cached_key(order) -> shim: ascending permutation')
R_REVERSE = Rule('R31', r'nodes\.reverse\(\);', 'shim_reverse(&mut nodes);', 'Vec::reverse -> shim')
R_FLAT = Rule('R32', r'nodes\s*\.iter\(\)\s*\.flat_map\(\|n\| descendant_and_self\(n\.clone\(\)\)\)(\s*\.collect\(\))?', 'shim_flat_descendant_and_self(&nodes)',
              'iter().flat_map(descendant_and_self)[.collect()] -> shim returning the concatenation')
R_NODETYPE = Rule('R33', r'node\.node_type\(\) == dom::NodeType::(\w+)', r'shim_is_node_type(&node, dom::NodeType::\1)', 'PartialEq on the derive(PartialEq) enum NodeType -> shim')
NODEC = '#[verifier::exec_allows_no_decreases_clause]'
PUB = Rule('R12', r'^fn ', 'pub fn ', 'visibility inside the environment module (no runtime meaning)')


def build(repo=None):
    import os
    import re
    from vf import unit as U
    src = open(os.path.join(repo or U.REPO, FE)).read()
    # the namespace axis answers a plain list before the repair and a Result after it: the stub follows the declaration
    m = re.search(r'fn namespace\(node: dom::XmlNode\) -> ([^{]+?)\s*\{', src)
    ns_ret = (m.group(1).strip() if m else 'Vec<dom::XmlNode>')
    fns = {}
    P = ['C19']
    fns['ctx_get_position'] = Fn(FM, CTX, 'get_position', props=P, sig_rules=[PUB], label='model::Context::get_position',
                                 ensures=[('C19:top_or_zero', 'r == (if self.position@.len() > 0 { self.position@.last() } else { 0usize })')])
    fns['ctx_pop_position'] = Fn(FM, CTX, 'pop_position', props=P, sig_rules=[PUB], label='model::Context::pop_position',
                                 ensures=[('C19:pops_position_only',
                                           'final(self).position@ == (if old(self).position@.len() > 0 { old(self).position@.drop_last() } else { old(self).position@ })'
                                           ' && final(self).size@ == old(self).size@ && final(self).namespaces@ == old(self).namespaces@')])
    fns['ctx_push_position'] = Fn(FM, CTX, 'push_position', props=P, sig_rules=[PUB], label='model::Context::push_position',
                                  ensures=[('C19:pushes_position_only',
                                            'final(self).position@ == old(self).position@.push(position)'
                                            ' && final(self).size@ == old(self).size@ && final(self).namespaces@ == old(self).namespaces@')])
    fns['ctx_get_size'] = Fn(FM, CTX, 'get_size', props=P, sig_rules=[PUB], label='model::Context::get_size',
                             ensures=[('C19:top_or_zero', 'r == (if self.size@.len() > 0 { self.size@.last() } else { 0usize })')])
    fns['ctx_pop_size'] = Fn(FM, CTX, 'pop_size', props=P, sig_rules=[PUB], label='model::Context::pop_size',
                             ensures=[('C19:pops_size_only',
                                       'final(self).size@ == (if old(self).size@.len() > 0 { old(self).size@.drop_last() } else { old(self).size@ })'
                                       ' && final(self).position@ == old(self).position@ && final(self).namespaces@ == old(self).namespaces@')])
    fns['ctx_push_size'] = Fn(FM, CTX, 'push_size', props=P, sig_rules=[PUB], label='model::Context::push_size',
                              ensures=[('C19:pushes_size_only',
                                        'final(self).size@ == old(self).size@.push(size)'
                                        ' && final(self).position@ == old(self).position@ && final(self).namespaces@ == old(self).namespaces@')])
    fns['as_value_bool'] = Fn(FM, 'impl AsValue for bool', 'as_value', props=P, no_twin=True, label='model::AsValue for bool::as_value',
                              ensures=[('is_boolean', 'r == Value::Boolean(*self)')])
    fns['as_value_nodes'] = Fn(FM, 'impl AsValue for Vec<XmlNode>', 'as_value', props=P, no_twin=True,
                               label='model::AsValue for Vec<XmlNode>::as_value',
                               ensures=[('is_same_node_sequence', 'r is Node && r->Node_0@ == self@')])
    LOOP_VAL = {0: dict(invariant=[('C19:ctx', 'same_ctx(*context, *old(context))'), ('C07:set', 'value_is_ordered_set(op1)')])}
    fns['eval_expr'] = Fn(FE, None, 'eval_expr', props=P, safety_props=['C06'], attrs=[NODEC], ensures=[C19, C07SET])
    fns['eval_or_expr'] = Fn(FE, None, 'eval_or_expr', props=P, safety_props=['C06'], attrs=[NODEC], ensures=[C19, C07SET], rules=[R_TOBOOL, R_SKIP1], loops=LOOP_VAL)
    fns['eval_and_expr'] = Fn(FE, None, 'eval_and_expr', props=P, safety_props=['C06'], attrs=[NODEC], ensures=[C19, C07SET], rules=[R_TOBOOL, R_SKIP1], loops=LOOP_VAL)
    fns['eval_eq_expr'] = Fn(FE, None, 'eval_eq_expr', props=P, safety_props=['C06'], attrs=[NODEC], ensures=[C19, C07SET], rules=[R_PAIR], loops=LOOP_VAL)
    fns['eval_relational_expr'] = Fn(FE, None, 'eval_relational_expr', props=P, safety_props=['C06'], attrs=[NODEC], ensures=[C19, C07SET], rules=[R_PAIR], loops=LOOP_VAL)
    fns['eval_add_expr'] = Fn(FE, None, 'eval_add_expr', props=P, safety_props=['C06'], attrs=[NODEC], ensures=[C19, C07SET], loops=LOOP_VAL,
                              rules=[R_PAIR, Rule('R23', r'\bop1 \+ op2\b', 'shim_value_add(op1, op2)', R23WHY),
                                     Rule('R23', r'\bop1 - op2\b', 'shim_value_sub(op1, op2)', R23WHY)])
    fns['eval_mul_expr'] = Fn(FE, None, 'eval_mul_expr', props=P, safety_props=['C06'], attrs=[NODEC], ensures=[C19, C07SET], loops=LOOP_VAL,
                              rules=[R_PAIR, Rule('R23', r'\bop1 \* op2\b', 'shim_value_mul(op1, op2)', R23WHY),
                                     Rule('R23', r'\bop1 / op2\b', 'shim_value_div(op1, op2)', R23WHY),
                                     Rule('R23', r'\bop1 % op2\b', 'shim_value_rem(op1, op2)', R23WHY)])
    fns['eval_unary_expr'] = Fn(FE, None, 'eval_unary_expr', props=P, safety_props=['C06'], attrs=[NODEC], ensures=[C19, C07SET],
                                rules=[Rule('R23', r'Ok\(-value\)', 'Ok(shim_value_neg(value))', R23WHY)])
    fns['eval_union_expr'] = Fn(
        FE, None, 'eval_union_expr', props=P, safety_props=['C06'], attrs=[NODEC], ensures=[C19, C07SET],
        rules=[R_SKIP1, R_DEDUP, R_SORT],
        inject=[(r'shim_dedup_by_order\(&mut nodes\);', 'proof { if sorted_by_order(nodes@) { lemma_dedup_sorted(nodes@); } }', 'before all')],
        loops={0: dict(invariant=[('C19:ctx', 'same_ctx(*context, *old(context))')])})
    fns['eval_path_expr'] = Fn(FE, None, 'eval_path_expr', props=P,
                               rules=[Rule('R15', r'\.map\(\|d\| vec!\[d\.as_node\(\)\]\)', '.map(|d: dom::XmlDocument| -> (r: Vec<dom::XmlNode>) ensures r@.len() == 1 { vec![d.as_node()] })',
                                           'closure gets an explicit contract (specification only): the vector it builds has one element')], safety_props=['C06'], attrs=[NODEC],
                               ensures=[C19, ('C07:path_value_is_sorted', 'r is Ok ==> value_is_sorted(r->Ok_0)')])
    fns['eval_filter_expr'] = Fn(
        FE, None, 'eval_filter_expr', props=P, safety_props=['C06'], attrs=[NODEC], ensures=[C19, C07SET], rules=[R_ENUM],
        inject=[(r'context\.push_size\(nodes\.len\(\)\);', 'let ghost __src = nodes@;')],
        loops={0: dict(invariant=[('C19:ctx', 'same_ctx(*context, *old(context))'), ('C07:set', 'strictly_sorted_by_order(nodes@)')]),
               1: dict(invariant=PRED_LOOP_CTX + PRED_LOOP_SORTED)})
    fns['eval_primary_expr'] = Fn(
        FE, None, 'eval_primary_expr', props=P, safety_props=['C06'], attrs=[NODEC], ensures=[C19, C07SET],
        rules=[Rule('R24', r'Ok\(literal\.to_string\(\)\.as_value\(\)\)', 'Ok(shim_literal_value(literal))', 'str::to_string + AsValue for String -> shim (a Text value)'),
               Rule('R24', r'Ok\(number\.parse::<f64>\(\)\.unwrap\(\)\.as_value\(\)\)', 'Ok(shim_number_value(number))', 'str::parse::<f64> of a Number lexeme -> shim (a Number value)'),
               Rule('R34', r'Err\(error::Error::NotFoundVariable\(match name \{.*?\}\)\)', 'Err(shim_not_found_variable(name))',
                    'format!/to_string of the variable name in the error payload -> shim (payload never inspected)'),
               R_UNIMPL])
    fns['eval_filtered_loc_expr'] = Fn(
        FE, None, 'eval_filtered_loc_expr', props=P, safety_props=['C06'], attrs=[NODEC],
        ensures=[C19, ('C07:location_path_result_is_sorted', 'r is Ok ==> sorted_by_order(r->Ok_0@)')],
        rules=[R_FLAT, R_SORT],
        loops={0: dict(invariant=[('C19:ctx', 'same_ctx(*context, *old(context))')])})
    fns['eval_loc_expr'] = Fn(
        FE, None, 'eval_loc_expr', props=P, safety_props=['C06'], attrs=[NODEC], ensures=[C19], rules=[R_PAIR, R_FLAT, R_DEDUP],
        loops={0: dict(invariant=[('C19:ctx', 'same_ctx(*context, *old(context))')]),
               1: dict(invariant=[('C19:ctx', 'same_ctx(*context, *old(context))')]),
               2: dict(invariant=[('C19:ctx', 'same_ctx(*context, *old(context))')])})
    fns['eval_step_expr'] = Fn(FE, None, 'eval_step_expr', props=P, safety_props=['C06'], attrs=[NODEC], ensures=[C19])
    fns['eval_axis_node_test'] = Fn(
        FE, None, 'eval_axis_node_test', props=P, safety_props=['C06'], attrs=[NODEC], ensures=[C19],
        rules=[Rule('R25', r'match v\.as_str\(\) \{\s*"@" => attributes\(node\),\s*_ => child\(node\),\s*\}',
                    'if shim_is_at(v) { attributes(node) } else { child(node) }', 'match on a string literal -> if/else over a shim comparing with "@"'),
               Rule('R25', r'expr::AxisSpecifier::Abbreviated\(v\) if v\.as_str\(\) == "@" =>', 'expr::AxisSpecifier::Abbreviated(v) if shim_is_at(v) =>', 'match guard comparing with the literal "@" -> shim'),
               R_SORT, R_REVERSE, R_ENUM],
        inject=[(r'context\.push_size\(nodes\.len\(\)\);', 'let ghost __src = nodes@;')],
        loops={0: dict(invariant=[('C19:ctx', 'same_ctx(*context, *old(context))')]),
               1: dict(invariant=[('C19:ctx', 'same_ctx(*context, *old(context))')]),
               2: dict(invariant=PRED_LOOP_CTX)})
    NT = 'dom::node_type_of(node)'
    fns['eval_node_test'] = Fn(
        FE, None, 'eval_node_test', props=P, safety_props=['C06'], attrs=[NODEC],
        ensures=[C19,
                 ('C05:star_selects_exactly_the_nodes_of_the_principal_node_type_of_the_axis', f'test is Name && test->Name_0 is All ==> r is Ok && r->Ok_0 == ({NT} == principal)'),
                 ('C05:no_name_test_selects_a_node_of_another_type_than_the_principal_one', f'test is Name && {NT} != principal ==> r is Ok && !r->Ok_0'),
                 ('C05:node_type_tests_select_by_node_type',
                  f'test is Type ==> r is Ok && r->Ok_0 == (match test->Type_0 {{ expr::NodeType::Comment => {NT} == dom::NodeType::Comment, expr::NodeType::PI => {NT} == dom::NodeType::PI,'
                  f' expr::NodeType::Node => true, expr::NodeType::Text => {NT} == dom::NodeType::Text || {NT} == dom::NodeType::EntityReference || {NT} == dom::NodeType::CData }})'),
                 ('C05:processing_instruction_literal_selects_by_target', f'test is PI ==> r is Ok && r->Ok_0 == ({NT} == dom::NodeType::PI && dom::node_name_of(node) == test->PI_0@)')],
        rules=[Rule('R26', r'let uri_a = context\s*\.get_ns_uri\(Some\(prefix\)\)\s*\.ok_or_else\(\|\| error::Error::NotFoundNamespace\(prefix\.to_string\(\)\)\)\?;',
                    'let uri_a = shim_get_ns_uri(context, prefix)?;', 'Context::get_ns_uri (returns a borrow out of &mut self) + ok_or_else closure -> shim returning the URI or NotFoundNamespace'),
               Rule('R26', r'Ok\(Some\(uri_a\) == uri_b\.as_deref\(\)\)', 'Ok(shim_uri_eq(&uri_a, &uri_b))', 'Option<&str> comparison -> shim'),
               Rule('R35', r'node\.node_name\(\) == \*target', 'shim_string_eq_str(&node.node_name(), *target)', 'String == str -> shim'),
               Rule('R33', r'node\.node_type\(\) != principal', '!shim_is_node_type(&node, principal.clone())', 'PartialEq on the derive(PartialEq) enum NodeType -> shim'),
               R_UNIMPL, R_NODETYPE])
    fns['eval_predicate'] = Fn(
        FE, None, 'eval_predicate', props=P, safety_props=['C06'], attrs=[NODEC],
        ensures=[C19, ('C05:a_numeric_predicate_is_true_exactly_at_that_position_any_other_value_by_its_boolean_value',
                       'r is Ok ==> exists|val: model::Value| is_value_of(val, *predicate, node) && r->Ok_0 == predicate_truth(val, old(context).position@.last())')],
        rules=[R_TOBOOL, R_F64CAST,
               Rule('R22', r'v == context\.get_position\(\) as f64', 'shim_f64_eq(v, shim_usize_as_f64(context.get_position()))', 'usize -> f64 cast and float == : shims (Verus has neither)')],
        inject=[(r'let value = eval_expr\(predicate, node, context\)\?;', 'proof { name_the_value(value, *predicate, __node); }'),
                (r'let value = eval_expr\(predicate, node, context\)\?;', 'let ghost __node = node;', 'before')],
        requires=[('C05:proximity_position_is_between_1_and_the_context_size',
                   'old(context).position@.len() > 0 && old(context).size@.len() > 0 && 1 <= old(context).position@.last() <= old(context).size@.last()')])
    fns['eval_func_expr'] = Fn(
        FE, None, 'eval_func_expr', props=P, safety_props=['C06'], attrs=[NODEC], ensures=[C19, C07SET],
        rules=[Rule('R27', r'let entry = table\s*\.iter\(\)\s*\.find\(\|v\| v\.local_part\(\) == local_part && v\.namespace_uri\(\) == uri\.as_deref\(\)\)\s*\.ok_or_else\(\|\| error::Error::NotFoundFunction\(local_part\.to_string\(\)\)\)\?;',
                    'let entry = shim_find_entry(&table, &local_part, &uri)?;', 'iter().find(closure).ok_or_else(closure) over the function table -> shim'),
               Rule('R27', r'Err\(error::Error::InvalidArgumentCount\(local_part\.to_string\(\)\)\)', 'Err(shim_invalid_argument_count(&local_part))', 'String::to_string in an error payload -> shim')],
        loops={0: dict(invariant=[('C19:ctx', 'same_ctx(*context, *old(context))'),
                                  ('C06:one_value_per_argument_so_far', 'args@.len() == __it.index@ && __it.seq().len() == func.spec_args().len()')])})
    fns['eval_func_expr'].rules.append(Rule('R47', r'for i in func\.args\(\) \{', 'for i in __it: func.args() /*@loop*/ {', 'iterator named so that the invariant can count the arguments evaluated so far'))
    return ENV.replace('@NAMESPACE_RET@', ns_ret), fns


TEMPLATE, FNS = build()


def _auto(name):
    """Default contract for a private helper of eval/mod.rs that an extracted body calls and this unit does not list:
    no panic (C06); if it is handed the context, the context comes back unchanged (C19)."""
    src_has_ctx = True
    return Fn(FE, None, name, props=['C19'], safety_props=['C06'], attrs=[NODEC], label=name + ' (auto-extracted helper)',
              rules=[R_TOBOOL, R_UNIMPL, R_SORT, R_REVERSE, R_NODETYPE], ensures_if_param=[('context', C19)])


UNIT = dict(name='eval_ctx', template=TEMPLATE, fns=FNS, props=['C19'], auto_extract=dict(file=FE, make=_auto), build=build)
