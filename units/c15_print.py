"""C15, the printer side of "edits that succeed keep the document serializable": `print_child_after` (info/src/lib.rs, repair
9fb98f2) -- how the element printers write a child so that text items which follow each other never join into `]]>`.

Obligation: for a text child with the (individually valid) text `s`, after the text `tail` written by the text items immediately
before it, the piece that is written

  * does not complete a `]]>` across the boundary: no occurrence of `]]>` in tail + piece starts in tail and ends in the piece;
  * denotes `s`: it is `s`, or `s` with its first `>` -- at index 0 or 1 -- written as `&gt;`;
  * and `tail` grows by `s` (the next text item sees what was denoted, not how it was written);

for any other child the tail is cleared and the child is printed by its own `Display`.  The std string methods are shims with
their documented meaning over `Seq<char>`; string literals are spelled out as sequences."""
from vf.unit import Fn, Rule

FI = 'info/src/lib.rs'

ENV = r'''use vstd::prelude::*;
verus! {

pub struct TextItem { pub text: String }
pub enum XmlItem { Text(TextItem), Other(usize) }
pub uninterp spec fn display_of(i: XmlItem) -> Seq<char>;   // fmt::Display of a non-text child
impl XmlItem {
    pub fn as_text(&self) -> (r: Option<&TextItem>)
        ensures r is Some <==> self is Text, r is Some ==> *r->Some_0 == self->Text_0,
    { match self { XmlItem::Text(t) => Some(t), XmlItem::Other(_) => None } }
    #[verifier::external_body]
    pub fn to_string(&self) -> (r: String) ensures r@ == display_of(*self) { unimplemented!() }
}

pub open spec fn rsb() -> Seq<char> { seq![']'] }
pub open spec fn rsb2() -> Seq<char> { seq![']', ']'] }
pub open spec fn rsb_gt() -> Seq<char> { seq![']', '>'] }
pub open spec fn cdata_end() -> Seq<char> { seq![']', ']', '>'] }
pub open spec fn gt_ref() -> Seq<char> { seq!['&', 'g', 't', ';'] }
pub open spec fn is_suffix(p: Seq<char>, s: Seq<char>) -> bool { p.len() <= s.len() && s.subrange(s.len() - p.len(), s.len() as int) == p }
pub open spec fn is_prefix(p: Seq<char>, s: Seq<char>) -> bool { p.len() <= s.len() && s.subrange(0, p.len() as int) == p }
// index of the first `>` (s.len(): none)
pub open spec fn first_gt(s: Seq<char>) -> int
    decreases s.len(),
{
    if s.len() == 0 { 0 } else if s[0] == '>' { 0 } else { 1 + first_gt(s.subrange(1, s.len() as int)) }
}
// s.replacen('>', "&gt;", 1)
pub open spec fn gt_escaped_once(s: Seq<char>) -> Seq<char> {
    let i = first_gt(s);
    if i >= s.len() { s } else { s.subrange(0, i) + gt_ref() + s.subrange(i + 1, s.len() as int) }
}
// an occurrence of ]]> in a + b that starts in a and ends in b
pub open spec fn joins_into_cdata_end(a: Seq<char>, b: Seq<char>) -> bool {
    exists|k: int| 0 <= k < a.len() && a.len() < k + 3 <= a.len() + b.len() && #[trigger] (a + b).subrange(k, k + 3) == cdata_end()
}

// ---- std string methods, by their documented meaning ----
#[verifier::external_body]
pub fn shim_ends_with_rsb2(s: &String) -> (r: bool) ensures r == is_suffix(rsb2(), s@) { s.ends_with("]]") }
#[verifier::external_body]
pub fn shim_ends_with_rsb(s: &String) -> (r: bool) ensures r == is_suffix(rsb(), s@) { s.ends_with(']') }
#[verifier::external_body]
pub fn shim_starts_with_gt(s: &str) -> (r: bool) ensures r == (s@.len() > 0 && s@[0] == '>') { s.starts_with('>') }
#[verifier::external_body]
pub fn shim_starts_with_rsb_gt(s: &str) -> (r: bool) ensures r == is_prefix(rsb_gt(), s@) { s.starts_with("]>") }
#[verifier::external_body]
pub fn shim_replace_first_gt(s: &str) -> (r: String) ensures r@ == gt_escaped_once(s@) { s.replacen('>', "&gt;", 1) }
#[verifier::external_body]
pub fn shim_to_string(s: &str) -> (r: String) ensures r@ == s@ { s.to_string() }
#[verifier::external_body]
pub fn shim_push_str(t: &mut String, s: &str) ensures final(t)@ == old(t)@ + s@ { t.push_str(s) }
#[verifier::external_body]
pub fn shim_clear(t: &mut String) ensures final(t)@ == Seq::<char>::empty() { t.clear() }

//@@ print_child_after

} // verus!
fn main() {}
'''


def build():
    P = ['C15']
    fns = {}
    fns['print_child_after'] = Fn(
        FI, None, 'print_child_after', props=P, safety_props=P, label='info::print_child_after',
        sig_rules=[Rule('R12', r'^fn ', 'pub fn ', 'visibility (no runtime meaning)')],
        rules=[Rule('R11', r'let text = text\.borrow\(\);', '', 'RefCell borrow dropped (A4): the text item is read in place'),
               Rule('R8', r'tail\.ends_with\("\]\]"\)', 'shim_ends_with_rsb2(tail)', 'str::ends_with(literal) -> shim'),
               Rule('R8', r"tail\.ends_with\('\]'\)", 'shim_ends_with_rsb(tail)', 'str::ends_with(char) -> shim'),
               Rule('R8', r"s\.starts_with\('>'\)", 'shim_starts_with_gt(s)', 'str::starts_with(char) -> shim'),
               Rule('R8', r's\.starts_with\("\]>"\)', 'shim_starts_with_rsb_gt(s)', 'str::starts_with(literal) -> shim'),
               Rule('R8', r"s\.replacen\('>', \"&gt;\", 1\)", 'shim_replace_first_gt(s)', 'str::replacen(first occurrence) -> shim'),
               Rule('R8', r's\.to_string\(\)', 'shim_to_string(s)', 'str::to_string -> shim'),
               Rule('R8', r'tail\.push_str\(s\);', 'shim_push_str(tail, s);', 'String::push_str -> shim'),
               Rule('R8', r'tail\.clear\(\);', 'shim_clear(tail);', 'String::clear -> shim')],
        inject=[(r'shim_push_str\(tail, s\);',
                 'proof { let a = old(tail)@; let t = s@; let p = printed@; let c = a + p;'
                 ' if joins { if t[0] == \'>\' { assert(first_gt(t) == 0); assert(p[0] == \'&\'); }'
                 '            else { assert(t.subrange(0, 2) == rsb_gt()); assert(t[0] == t.subrange(0, 2)[0] && t[1] == t.subrange(0, 2)[1]); assert(t.subrange(1, t.len() as int)[0] == \'>\');'
                 '                   assert(first_gt(t.subrange(1, t.len() as int)) == 0); assert(first_gt(t) == 1); assert(p[0] == \']\' && p[1] == \'&\'); } }'
                 ' else { assert(p == t); }'
                 ' if a.len() >= 2 && p.len() >= 1 { let k = a.len() - 2; let w = c.subrange(k, k + 3);'
                 '   if w == cdata_end() { assert(w[0] == c[k] && w[1] == c[k + 1] && w[2] == c[k + 2]); assert(c[k] == a[k] && c[k + 1] == a[k + 1] && c[k + 2] == p[0]);'
                 '     assert(a.subrange(a.len() - 2, a.len() as int) =~= rsb2()); assert(is_suffix(rsb2(), a)); assert(false); } }'
                 ' if a.len() >= 1 && p.len() >= 2 { let k = a.len() - 1; let w = c.subrange(k, k + 3);'
                 '   if w == cdata_end() { assert(w[0] == c[k] && w[1] == c[k + 1] && w[2] == c[k + 2]); assert(c[k] == a[k] && c[k + 1] == p[0] && c[k + 2] == p[1]);'
                 '     assert(a.subrange(a.len() - 1, a.len() as int) =~= rsb()); assert(is_suffix(rsb(), a));'
                 '     if !joins { assert(t.subrange(0, 2) =~= rsb_gt()); } assert(false); } }'
                 ' assert(!joins_into_cdata_end(a, p)) by { if joins_into_cdata_end(a, p) { let k = choose|k: int| 0 <= k < a.len() && a.len() < k + 3 <= a.len() + p.len() && #[trigger] (a + p).subrange(k, k + 3) == cdata_end(); assert(k == a.len() - 2 || k == a.len() - 1); } } }', 'before')],
        ensures=[('C15:a_text_child_never_completes_the_end_of_a_cdata_section_across_the_boundary', 'child is Text ==> !joins_into_cdata_end(old(tail)@, r@)'),
                 ('C15:what_is_written_denotes_the_text', 'child is Text ==> (r@ == child->Text_0.text@ || (r@ == gt_escaped_once(child->Text_0.text@) && first_gt(child->Text_0.text@) <= 1))'),
                 ('C15:the_tail_grows_by_the_text_itself', 'child is Text ==> final(tail)@ == old(tail)@ + child->Text_0.text@'),
                 ('C15:any_other_child_is_printed_by_its_own_display_and_ends_the_run', '!(child is Text) ==> r@ == display_of(*child) && final(tail)@.len() == 0')])
    return ENV, fns


TEMPLATE, FNS = build()
UNIT = dict(name='c15_print', template=TEMPLATE, fns=FNS, props=['C15'])
