"""C05 (and the panic-freedom half of C06), the axes: `ancestor, ancestor_and_self, child, descendant, descendant_and_self,
following, following_sibling, preceding, preceding_sibling, namespace` of xpath/src/eval/mod.rs -- what every location step
starts from.  Until now nothing was assumed or proved about them.

The tree is what the DOM navigation primitives present: `parent_of`, `children_of`, `index_of` (position among the
siblings), with `depth` / `height` as termination measures -- uninterpreted, tied together by the well-formedness predicate
`tree_ok()` (a precondition: the C12 invariant), and `parent_node / child_nodes / next_sibling / previous_sibling` are assumed
callees that read them.  XPath 1.0 section 2.2 over those primitives:

  ancestors(n)        parent, its parent, ...            (nearest first: reverse document order)
  descendants(n)      children with their subtrees        (document order)
  following_nodes(n)  the subtrees of the following siblings, then whatever follows the PARENT   (document order)
  preceding_nodes(n)  the subtrees of the preceding siblings reversed, nearest first, then whatever precedes the parent
                      (reverse document order; ancestors are not included)

Each function returns exactly that list (`=~=`), by loop invariants and, for the recursive ones, induction through the
contract of the recursive call (`decreases height(node)` / `depth(node)`).  The namespace axis must not panic (C06).
Not covered: attribute and namespace nodes as context nodes of following / preceding (their DOM parent is None, so the
specification above, like the code, gives them nothing); the attribute axis (NamedNodeMap)."""
from vf.unit import Fn, Rule

FE = 'xpath/src/eval/mod.rs'

ENV = r'''use vstd::prelude::*;
verus! {
pub mod error {
    pub enum Error { Dom(usize), InvalidType, InvalidArgumentCount(String), NotFoundFunction(String), NotFoundNamespace(String), NotFoundVariable(String) }
    pub type Result<T> = core::result::Result<T, Error>;
}
pub mod dom {
    use vstd::prelude::*;
    pub struct XmlElement { pub h: usize }
    pub struct XmlNamespace { pub h: usize }
    pub struct Other { pub h: usize }
    // dom::XmlNode: the namespace axis distinguishes element nodes from all others
    pub enum XmlNode { Element(XmlElement), NotElement(Other) }
    impl XmlElement {
        // dom::XmlElement::in_scope_namespace (units/c10_scope.py): an error when the value of a declaration cannot be computed
        #[verifier::external_body]
        pub fn in_scope_namespace(&self) -> (r: core::result::Result<Vec<XmlNamespace>, crate::error::Error>) { unimplemented!() }
    }
    impl XmlNamespace {
        #[verifier::external_body]
        pub fn as_node(&self) -> (r: XmlNode) { unimplemented!() }
    }
}
use dom::XmlNode;

// ---- the tree, as the DOM navigation primitives present it (uninterpreted; well-formedness is a precondition) ----
pub uninterp spec fn parent_of(n: XmlNode) -> Option<XmlNode>;
pub uninterp spec fn children_of(n: XmlNode) -> Seq<XmlNode>;
pub uninterp spec fn index_of(n: XmlNode) -> int;          // position among the children of its parent
pub uninterp spec fn depth(n: XmlNode) -> nat;             // distance from the root
pub uninterp spec fn height(n: XmlNode) -> nat;            // longest way down
pub open spec fn tree_ok() -> bool {
    &&& forall|n: XmlNode| (#[trigger] parent_of(n)) is Some ==> depth(parent_of(n)->Some_0) < depth(n) && 0 <= index_of(n) < children_of(parent_of(n)->Some_0).len() && children_of(parent_of(n)->Some_0)[index_of(n)] == n
    &&& forall|n: XmlNode, i: int| 0 <= i < children_of(n).len() ==> height(#[trigger] children_of(n)[i]) < height(n) && parent_of(children_of(n)[i]) == Some(n) && index_of(children_of(n)[i]) == i
}

// ---- XPath 1.0 section 2.2, axes, over those primitives ----
// ancestor: the parent, its parent, ... (reverse document order: nearest first)
pub open spec fn ancestors(n: XmlNode) -> Seq<XmlNode>
    decreases depth(n),
{
    match parent_of(n) { Some(p) => if depth(p) < depth(n) { seq![p] + ancestors(p) } else { Seq::empty() }, None => Seq::empty() }
}
// descendant: children, their children, ... in document order (a node before its descendants before its next sibling)
pub open spec fn descendants(n: XmlNode) -> Seq<XmlNode>
    decreases height(n) + 1, 0nat,
{
    subtrees(children_of(n), height(n))
}
pub open spec fn subtrees(s: Seq<XmlNode>, h: nat) -> Seq<XmlNode>
    decreases h, s.len() + 1,
{
    if s.len() == 0 { Seq::empty() } else {
        subtrees(s.drop_last(), h) + seq![s.last()] + (if height(s.last()) < h { descendants(s.last()) } else { Seq::empty() })
    }
}
pub open spec fn subtree(n: XmlNode) -> Seq<XmlNode> { seq![n] + descendants(n) }
// following-sibling / preceding-sibling (the latter nearest first)
pub open spec fn following_siblings(n: XmlNode) -> Seq<XmlNode> {
    match parent_of(n) { Some(p) => children_of(p).subrange(index_of(n) + 1, children_of(p).len() as int), None => Seq::empty() }
}
pub open spec fn preceding_siblings(n: XmlNode) -> Seq<XmlNode> {
    match parent_of(n) { Some(p) => children_of(p).subrange(0, index_of(n)).reverse(), None => Seq::empty() }
}
// the subtrees of a list of nodes, one after the other (document order) / each reversed (reverse document order)
pub open spec fn flat_subtrees(s: Seq<XmlNode>) -> Seq<XmlNode>
    decreases s.len(),
{
    if s.len() == 0 { Seq::empty() } else { flat_subtrees(s.drop_last()) + subtree(s.last()) }
}
pub open spec fn flat_subtrees_rev(s: Seq<XmlNode>) -> Seq<XmlNode>
    decreases s.len(),
{
    if s.len() == 0 { Seq::empty() } else { flat_subtrees_rev(s.drop_last()) + subtree(s.last()).reverse() }
}
// following: everything after the node in document order that is not a descendant: the subtrees of its following
// siblings, then whatever follows its parent
pub open spec fn following_nodes(n: XmlNode) -> Seq<XmlNode>
    decreases depth(n),
{
    flat_subtrees(following_siblings(n)) + (match parent_of(n) { Some(p) => if depth(p) < depth(n) { following_nodes(p) } else { Seq::empty() }, None => Seq::empty() })
}
// preceding: everything before the node in document order that is not an ancestor, nearest first
pub open spec fn preceding_nodes(n: XmlNode) -> Seq<XmlNode>
    decreases depth(n),
{
    flat_subtrees_rev(preceding_siblings(n)) + (match parent_of(n) { Some(p) => if depth(p) < depth(n) { preceding_nodes(p) } else { Seq::empty() }, None => Seq::empty() })
}

impl XmlNode {
    #[verifier::external_body]
    pub fn parent_node(&self) -> (r: Option<XmlNode>) ensures r == parent_of(*self) { unimplemented!() }
    #[verifier::external_body]
    pub fn clone(&self) -> (r: XmlNode) ensures r == *self { unimplemented!() }
    // node.child_nodes().iter()
    #[verifier::external_body]
    pub fn shim_children(&self) -> (r: Vec<XmlNode>) ensures r@ == children_of(*self) { unimplemented!() }
    #[verifier::external_body]
    pub fn next_sibling(&self) -> (r: Option<XmlNode>)
        ensures r == (match parent_of(*self) { Some(p) => if index_of(*self) + 1 < children_of(p).len() { Some(children_of(p)[index_of(*self) + 1]) } else { None }, None => None })
    { unimplemented!() }
    #[verifier::external_body]
    pub fn previous_sibling(&self) -> (r: Option<XmlNode>)
        ensures r == (match parent_of(*self) { Some(p) => if index_of(*self) >= 1 { Some(children_of(p)[index_of(*self) - 1]) } else { None }, None => None })
    { unimplemented!() }
}
#[verifier::external_body]
pub fn shim_reverse(v: &mut Vec<XmlNode>) ensures final(v)@ == old(v)@.reverse() { v.reverse() }


//@@ ancestor

//@@ ancestor_and_self

//@@ child

//@@ descendant

//@@ descendant_and_self

//@@ following_sibling

//@@ preceding_sibling

//@@ following

//@@ preceding

//@@ namespace

} // verus!
impl std::fmt::Debug for error::Error { fn fmt(&self, f: &mut std::fmt::Formatter<'_>) -> std::fmt::Result { write!(f, "Error") } }
fn main() {}
'''

R_TYPE = Rule('R11', r'dom::XmlNode', 'XmlNode', 'path of the node type (imported in the environment)')
R_CHILDREN = lambda var: Rule('R47', r'for ' + var + r' in node\.child_nodes\(\)\.iter\(\) \{', 'for ' + var + ' in __it: node.shim_children() /*@loop*/ {', 'NodeList::iter() -> for over the list of children, iterator named')
R_APPEND_TMP = Rule('R36', r'nodes\.append\(&mut (\w+)\((\w+)\)\);', r'let mut __t = \1(\2); nodes.append(&mut __t);', '&mut of a temporary -> a named local')
TAKE_STEP = lambda lst: f'proof {{ assert({lst}.take(__it.index@ + 1).drop_last() =~= {lst}.take(__it.index@)); }}'
TAKE_ALL = lambda lst: f'proof {{ assert({lst}.take({lst}.len() as int) =~= {lst}); }}'
OK = ('the_dom_presents_a_tree', 'tree_ok()')


def build():
    P = ['C05']
    S = ['C06']
    fns = {}

    def add(name, ensures, rules=(), loops=None, inject=(), requires=(OK,), decreases=None, props=P):
        fns[name] = Fn(FE, None, name, props=props, safety_props=S, label=f'xpath::axis::{name}', sig_rules=[R_TYPE], rules=[R_TYPE] + list(rules),
                       requires=list(requires), ensures=list(ensures), loops=loops, inject=list(inject), decreases=decreases)

    add('ancestor', [('C05:the_parent_its_parent_and_so_on_nearest_first', 'r@ =~= ancestors(node)')],
        loops={0: dict(invariant=[('frame', 'tree_ok()'), ('C05:collected_so_far_plus_what_is_left', 'nodes@ + (match parent { Some(p) => seq![p] + ancestors(p), None => Seq::empty() }) =~= ancestors(node)')],
                       ensures=[('C05:all_ancestors_collected', 'nodes@ =~= ancestors(node)')],
                       decreases='(match parent { Some(p) => depth(p) + 1, None => 0 })')})
    add('ancestor_and_self', [('C05:the_node_then_its_ancestors', 'r@ =~= seq![node] + ancestors(node)')], rules=[R_APPEND_TMP])
    add('child', [('C05:the_children_in_document_order', 'r@ =~= children_of(node)')], rules=[R_CHILDREN('c')], requires=(),
        loops={0: dict(invariant=[('C05:children_so_far', '__it.seq() == children_of(node) && nodes@ =~= children_of(node).take(__it.index@)')])})
    add('descendant', [('C05:children_with_their_subtrees_in_document_order', 'r@ =~= descendants(node)')], rules=[R_CHILDREN('child')], decreases='height(node)',
        loops={0: dict(invariant=[('frame', 'tree_ok() && __it.seq() == children_of(node)'), ('C05:subtrees_of_the_children_so_far', 'nodes@ =~= subtrees(children_of(node).take(__it.index@), height(node))')])},
        inject=[(r'for child in __it', TAKE_ALL('children_of(node)'), 'after_block'), (r'nodes\.push\(child\.clone\(\)\);', TAKE_STEP('children_of(node)'), 'before')])
    add('descendant_and_self', [('C05:the_node_then_its_descendants', 'r@ =~= subtree(node)')], rules=[R_APPEND_TMP])
    add('following_sibling', [('C05:the_later_children_of_the_parent_in_document_order', 'r@ =~= following_siblings(node)')],
        loops={0: dict(invariant=[('frame', 'tree_ok()'),
                                  ('C05:next_is_the_sibling_after_the_ones_collected', 'match next { Some(n) => parent_of(n) == parent_of(node) && parent_of(node) is Some && index_of(n) == index_of(node) + 1 + nodes@.len(), None => nodes@ =~= following_siblings(node) }'),
                                  ('C05:collected_so_far', 'parent_of(node) is Some ==> nodes@ =~= children_of(parent_of(node)->Some_0).subrange(index_of(node) + 1, index_of(node) + 1 + nodes@.len())')],
                       ensures=[('C05:all_following_siblings_collected', 'nodes@ =~= following_siblings(node)')],
                       decreases='(match next { Some(n) => children_of(parent_of(node)->Some_0).len() - index_of(n), None => 0 })')})
    add('preceding_sibling', [('C05:the_earlier_children_of_the_parent_nearest_first', 'r@ =~= preceding_siblings(node)')],
        loops={0: dict(invariant=[('frame', 'tree_ok()'),
                                  ('C05:prev_is_the_sibling_before_the_ones_collected', 'match prev { Some(p) => parent_of(p) == parent_of(node) && parent_of(node) is Some && index_of(p) == index_of(node) - 1 - nodes@.len(), None => nodes@ =~= preceding_siblings(node) }'),
                                  ('C05:collected_so_far', 'parent_of(node) is Some ==> nodes@.len() <= index_of(node) && nodes@ =~= children_of(parent_of(node)->Some_0).subrange(index_of(node) - nodes@.len(), index_of(node)).reverse()')],
                       ensures=[('C05:all_preceding_siblings_collected', 'nodes@ =~= preceding_siblings(node)')],
                       decreases='(match prev { Some(p) => index_of(p) + 1, None => 0 })')})
    add('following', [('C05:everything_after_the_node_that_is_not_a_descendant_in_document_order', 'r@ =~= following_nodes(node)')], decreases='depth(node)',
        rules=[Rule('R47', r'for n in following_sibling\((node(?:\.clone\(\))?)\) \{', r'for n in __it: following_sibling(\1) /*@loop*/ {', 'iterator named'), R_APPEND_TMP],
        loops={0: dict(invariant=[('frame', 'tree_ok() && __it.seq() == following_siblings(node)'), ('C05:subtrees_of_the_following_siblings_so_far', 'nodes@ =~= flat_subtrees(following_siblings(node).take(__it.index@))')])},
        inject=[(r'for n in __it', TAKE_ALL('following_siblings(node)'), 'after_block'), (r'let mut __t = descendant_and_self\(n\);', TAKE_STEP('following_siblings(node)'), 'before')])
    add('preceding', [('C05:everything_before_the_node_that_is_not_an_ancestor_nearest_first', 'r@ =~= preceding_nodes(node)')], decreases='depth(node)',
        rules=[Rule('R47', r'for p in preceding_sibling\((node(?:\.clone\(\))?)\) \{', r'for p in __it: preceding_sibling(\1) /*@loop*/ {', 'iterator named'), R_APPEND_TMP,
               Rule('R48', r'desc\.reverse\(\);', 'shim_reverse(&mut desc);', 'Vec::reverse -> shim')],
        loops={0: dict(invariant=[('frame', 'tree_ok() && __it.seq() == preceding_siblings(node)'), ('C05:reversed_subtrees_of_the_preceding_siblings_so_far', 'nodes@ =~= flat_subtrees_rev(preceding_siblings(node).take(__it.index@))')])},
        inject=[(r'for p in __it', TAKE_ALL('preceding_siblings(node)'), 'after_block'), (r'let mut desc = descendant_and_self\(p\);', TAKE_STEP('preceding_siblings(node)'), 'before')])
    add('namespace', [], requires=(), props=S,
        rules=[Rule('R47', r'for ns in element\.in_scope_namespace\(\)(\.unwrap\(\)|\?) \{', r'for ns in __it: element.in_scope_namespace()\1 /*@loop*/ {', 'iterator named')])
    return ENV, fns


TEMPLATE, FNS = build()
UNIT = dict(name='c05_axes', template=TEMPLATE, fns=FNS, props=['C05', 'C06'])
