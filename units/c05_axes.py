"""C05 (and the panic-freedom half of C06), the axes: `parent, children, ancestor, ancestor_and_self, child, descendant,
descendant_and_self, following, following_sibling, preceding, preceding_sibling, namespace` of xpath/src/eval/mod.rs -- what every
location step starts from.

Two layers.  The DOM layer is what the navigation primitives present: `dom_parent_of`, `dom_children_of`, `dom_next`, `dom_prev`,
`is_doctype`, `owner_of` (the element of an attribute) -- uninterpreted, read by the assumed callees `parent_node / child_nodes /
next_sibling / previous_sibling / node_type / owner_element`.  The XPATH DATA MODEL (XPath 1.0 section 5) is defined on top of it:

  xp_parent(n)     the element of an attribute node (5.3), the DOM parent of any other node
  xp_children(n)   none for attribute and namespace nodes (5.3, 5.4); the DOM children without the document type declaration
                   (which is not a node of the model, 5.1) for any other node

and XPath 1.0 section 2.2 over it:

  ancestors(n)        xp_parent, its xp_parent, ...         (nearest first: reverse document order)
  descendants(n)      xp_children with their subtrees        (document order)
  following_siblings  the DOM next-sibling chain without the document type declaration; preceding_siblings likewise (nearest first)
  following_nodes(n)  for an attribute: the descendants of its element first (an attribute comes before the children of its
                      element in document order); then the subtrees of the following siblings; then whatever follows xp_parent
  preceding_nodes(n)  the subtrees of the preceding siblings reversed, nearest first, then whatever precedes xp_parent
                      (reverse document order; ancestors -- hence the element of an attribute -- are not included)

Termination measures `depth / height / fwd_rank / bwd_rank` are uninterpreted and tied to the relations by the well-formedness
predicate `tree_ok()` (a precondition: the C12 invariant).  Each function returns exactly that list (`=~=`), by loop invariants
and, for the recursive ones, induction through the contract of the recursive call.  The namespace axis must not panic (C06).
Not covered: namespace nodes as context nodes (their element is not recorded: `parent_node()` of a namespace node is what the DOM
says); the attribute axis (NamedNodeMap)."""
from vf.unit import Fn, Rule

FE = 'xpath/src/eval/mod.rs'

ENV = r'''use vstd::prelude::*;
verus! {
pub mod error {
    pub enum Error { Dom(usize), InvalidType, InvalidArgumentCount(String), NotFoundFunction(String), NotFoundNamespace(String), NotFoundVariable(String) }
    pub type Result<T> = core::result::Result<T, Error>;
}
pub mod dom {
    use vstd::prelude::*;
    pub struct XmlElement { pub h: usize }
    pub struct XmlAttr { pub h: usize }
    pub struct XmlNamespace { pub h: usize }
    pub struct Other { pub h: usize }
    // dom::XmlNode: the XPath data model distinguishes element, attribute and namespace nodes from all others
    pub enum XmlNode { Element(XmlElement), Attribute(XmlAttr), Namespace(XmlNamespace), NotElement(Other) }
    impl XmlElement {
        // dom::XmlElement::in_scope_namespace (units/c10_scope.py): an error when the value of a declaration cannot be computed
        #[verifier::external_body]
        pub fn in_scope_namespace(&self) -> (r: core::result::Result<Vec<XmlNamespace>, crate::error::Error>) { unimplemented!() }
    }
    impl XmlNamespace {
        #[verifier::external_body]
        pub fn as_node(&self) -> (r: XmlNode) { unimplemented!() }
    }
}
use dom::XmlNode;

// ---- the DOM layer: what the navigation primitives present (uninterpreted; well-formedness is a precondition) ----
pub uninterp spec fn dom_parent_of(n: XmlNode) -> Option<XmlNode>;
pub uninterp spec fn dom_children_of(n: XmlNode) -> Seq<XmlNode>;
pub uninterp spec fn dom_next(n: XmlNode) -> Option<XmlNode>;      // next_sibling()
pub uninterp spec fn dom_prev(n: XmlNode) -> Option<XmlNode>;      // previous_sibling()
pub uninterp spec fn is_doctype(n: XmlNode) -> bool;               // node_type() == DocumentType
pub uninterp spec fn owner_of(a: dom::XmlAttr) -> Option<dom::XmlElement>;   // the element of an attribute
pub uninterp spec fn depth(n: XmlNode) -> nat;             // distance from the root (in the XPath data model)
pub uninterp spec fn height(n: XmlNode) -> nat;            // longest way down
pub uninterp spec fn fwd_rank(n: XmlNode) -> nat;          // how many siblings follow
pub uninterp spec fn bwd_rank(n: XmlNode) -> nat;          // how many siblings precede

// ---- the XPath data model over the DOM layer (XPath 1.0 section 5) ----
pub open spec fn xp_parent(n: XmlNode) -> Option<XmlNode> {
    match n {
        XmlNode::Attribute(a) => match owner_of(a) { Some(e) => Some(XmlNode::Element(e)), None => None },
        _ => dom_parent_of(n),
    }
}
pub open spec fn xp_children(n: XmlNode) -> Seq<XmlNode> {
    match n {
        XmlNode::Attribute(_) => Seq::empty(),
        XmlNode::Namespace(_) => Seq::empty(),
        _ => dom_children_of(n).filter(|v: XmlNode| !is_doctype(v)),
    }
}
pub open spec fn tree_ok() -> bool {
    &&& forall|n: XmlNode| (#[trigger] xp_parent(n)) is Some ==> depth(xp_parent(n)->Some_0) < depth(n)
    &&& forall|n: XmlNode, i: int| 0 <= i < xp_children(n).len() ==> height(#[trigger] xp_children(n)[i]) < height(n)
    &&& forall|n: XmlNode| (#[trigger] dom_next(n)) is Some ==> fwd_rank(dom_next(n)->Some_0) < fwd_rank(n)
    &&& forall|n: XmlNode| (#[trigger] dom_prev(n)) is Some ==> bwd_rank(dom_prev(n)->Some_0) < bwd_rank(n)
}

// ---- XPath 1.0 section 2.2, axes, over the data model ----
// ancestor: the parent, its parent, ... (reverse document order: nearest first)
pub open spec fn ancestors(n: XmlNode) -> Seq<XmlNode>
    decreases depth(n),
{
    match xp_parent(n) { Some(p) => if depth(p) < depth(n) { seq![p] + ancestors(p) } else { Seq::empty() }, None => Seq::empty() }
}
// descendant: children, their children, ... in document order (a node before its descendants before its next sibling)
pub open spec fn descendants(n: XmlNode) -> Seq<XmlNode>
    decreases height(n) + 1, 0nat,
{
    subtrees(xp_children(n), height(n))
}
pub open spec fn subtrees(s: Seq<XmlNode>, h: nat) -> Seq<XmlNode>
    decreases h, s.len() + 1,
{
    if s.len() == 0 { Seq::empty() } else {
        subtrees(s.drop_last(), h) + seq![s.last()] + (if height(s.last()) < h { descendants(s.last()) } else { Seq::empty() })
    }
}
pub open spec fn subtree(n: XmlNode) -> Seq<XmlNode> { seq![n] + descendants(n) }
// a sibling counts unless it is the document type declaration
pub open spec fn as_xp_node(n: XmlNode) -> Seq<XmlNode> { if is_doctype(n) { Seq::empty() } else { seq![n] } }
// following-sibling / preceding-sibling (the latter nearest first): the sibling chains of the DOM
pub open spec fn following_siblings(n: XmlNode) -> Seq<XmlNode>
    decreases fwd_rank(n),
{
    match dom_next(n) { Some(x) => if fwd_rank(x) < fwd_rank(n) { as_xp_node(x) + following_siblings(x) } else { Seq::empty() }, None => Seq::empty() }
}
pub open spec fn preceding_siblings(n: XmlNode) -> Seq<XmlNode>
    decreases bwd_rank(n),
{
    match dom_prev(n) { Some(x) => if bwd_rank(x) < bwd_rank(n) { as_xp_node(x) + preceding_siblings(x) } else { Seq::empty() }, None => Seq::empty() }
}
// the subtrees of a list of nodes, one after the other (document order) / each reversed (reverse document order)
pub open spec fn flat_subtrees(s: Seq<XmlNode>) -> Seq<XmlNode>
    decreases s.len(),
{
    if s.len() == 0 { Seq::empty() } else { flat_subtrees(s.drop_last()) + subtree(s.last()) }
}
pub open spec fn flat_subtrees_rev(s: Seq<XmlNode>) -> Seq<XmlNode>
    decreases s.len(),
{
    if s.len() == 0 { Seq::empty() } else { flat_subtrees_rev(s.drop_last()) + subtree(s.last()).reverse() }
}
// an attribute comes before the children of its element in document order: they follow it
pub open spec fn after_an_attribute(n: XmlNode) -> Seq<XmlNode> {
    match n { XmlNode::Attribute(_) => match xp_parent(n) { Some(o) => descendants(o), None => Seq::empty() }, _ => Seq::empty() }
}
// following: everything after the node in document order that is not a descendant (and no attribute or namespace node)
pub open spec fn following_nodes(n: XmlNode) -> Seq<XmlNode>
    decreases depth(n),
{
    after_an_attribute(n) + flat_subtrees(following_siblings(n)) + (match xp_parent(n) { Some(p) => if depth(p) < depth(n) { following_nodes(p) } else { Seq::empty() }, None => Seq::empty() })
}
// preceding: everything before the node in document order that is not an ancestor, nearest first
pub open spec fn preceding_nodes(n: XmlNode) -> Seq<XmlNode>
    decreases depth(n),
{
    flat_subtrees_rev(preceding_siblings(n)) + (match xp_parent(n) { Some(p) => if depth(p) < depth(n) { preceding_nodes(p) } else { Seq::empty() }, None => Seq::empty() })
}

impl XmlNode {
    #[verifier::external_body]
    pub fn parent_node(&self) -> (r: Option<XmlNode>) ensures r == dom_parent_of(*self) { unimplemented!() }
    #[verifier::external_body]
    pub fn clone(&self) -> (r: XmlNode) ensures r == *self { unimplemented!() }
    // node.child_nodes().iter().filter(|v| v.node_type() != dom::NodeType::DocumentType).collect()
    #[verifier::external_body]
    pub fn shim_children_without_doctype(&self) -> (r: Vec<XmlNode>) ensures r@ == dom_children_of(*self).filter(|v: XmlNode| !is_doctype(v)) { unimplemented!() }
    // node.node_type() != dom::NodeType::DocumentType
    #[verifier::external_body]
    pub fn shim_is_not_doctype(&self) -> (r: bool) ensures r == !is_doctype(*self) { unimplemented!() }
    #[verifier::external_body]
    pub fn next_sibling(&self) -> (r: Option<XmlNode>) ensures r == dom_next(*self) { unimplemented!() }
    #[verifier::external_body]
    pub fn previous_sibling(&self) -> (r: Option<XmlNode>) ensures r == dom_prev(*self) { unimplemented!() }
}
// v.owner_element().map(|e| e.as_node()): the element of the attribute, as a node
#[verifier::external_body]
pub fn shim_owner_node(v: &dom::XmlAttr) -> (r: Option<XmlNode>)
    ensures r == (match owner_of(*v) { Some(e) => Some(XmlNode::Element(e)), None => None::<XmlNode> }),
{ unimplemented!() }
#[verifier::external_body]
pub fn shim_reverse(v: &mut Vec<XmlNode>) ensures final(v)@ == old(v)@.reverse() { v.reverse() }

//@@ parent

//@@ children

//@@ ancestor

//@@ ancestor_and_self

//@@ child

//@@ descendant

//@@ descendant_and_self

//@@ following_sibling

//@@ preceding_sibling

//@@ following

//@@ preceding

//@@ namespace

} // verus!
impl std::fmt::Debug for error::Error { fn fmt(&self, f: &mut std::fmt::Formatter<'_>) -> std::fmt::Result { write!(f, "Error") } }
fn main() {}
'''

R_TYPE = Rule('R11', r'dom::XmlNode', 'XmlNode', 'path of the node type (imported in the environment)')
R_APPEND_TMP = Rule('R36', r'nodes\.append\(&mut (\w+)\((\w+)\)\);', r'let mut __t = \1(\2); nodes.append(&mut __t);', '&mut of a temporary -> a named local')
TAKE_STEP = lambda lst: f'proof {{ assert({lst}.take(__it.index@ + 1).drop_last() =~= {lst}.take(__it.index@)); }}'
TAKE_ALL = lambda lst: f'proof {{ assert({lst}.take({lst}.len() as int) =~= {lst}); }}'
OK = ('the_dom_presents_a_tree', 'tree_ok()')


def build():
    P = ['C05']
    S = ['C06']
    fns = {}

    def add(name, ensures, rules=(), loops=None, inject=(), requires=(OK,), decreases=None, props=P):
        fns[name] = Fn(FE, None, name, props=props, safety_props=S, label=f'xpath::axis::{name}', sig_rules=[R_TYPE], rules=[R_TYPE] + list(rules),
                       requires=list(requires), ensures=list(ensures), loops=loops, inject=list(inject), decreases=decreases)

    add('parent', [('C05:the_element_of_an_attribute_otherwise_the_dom_parent', 'r == xp_parent(*node)')], requires=(),
        rules=[Rule('R48', r'v\.owner_element\(\)\.map\(\|e\| e\.as_node\(\)\)', 'shim_owner_node(v)', 'Option::map(as_node) over owner_element() -> shim: the element of the attribute, as a node')])
    add('children', [('C05:none_for_attribute_and_namespace_nodes_otherwise_the_dom_children_without_the_doctype', 'r@ == xp_children(*node)')], requires=(),
        rules=[Rule('R48', r'node\s*\.child_nodes\(\)\s*\.iter\(\)\s*\.filter\(\|v\| v\.node_type\(\) != dom::NodeType::DocumentType\)\s*\.collect\(\)',
                    lambda m: 'node.shim_children_without_doctype()' + '\n' * m.group(0).count('\n'), 'child_nodes().iter().filter(not the document type).collect() -> shim: Seq::filter')])
    add('ancestor', [('C05:the_parent_its_parent_and_so_on_nearest_first', 'r@ =~= ancestors(node)')],
        loops={0: dict(invariant=[('frame', 'tree_ok()'), ('C05:collected_so_far_plus_what_is_left', 'nodes@ + (match next { Some(p) => seq![p] + ancestors(p), None => Seq::empty() }) =~= ancestors(node)')],
                       ensures=[('C05:all_ancestors_collected', 'nodes@ =~= ancestors(node)')],
                       decreases='(match next { Some(p) => depth(p) + 1, None => 0 })')})
    add('ancestor_and_self', [('C05:the_node_then_its_ancestors', 'r@ =~= seq![node] + ancestors(node)')], rules=[R_APPEND_TMP])
    add('child', [('C05:the_children_in_document_order', 'r@ =~= xp_children(node)')], requires=())
    add('descendant', [('C05:children_with_their_subtrees_in_document_order', 'r@ =~= descendants(node)')], decreases='height(node)',
        rules=[Rule('R47', r'for child in children\(&node\) \{', 'for child in __it: children(&node) /*@loop*/ {', 'iterator named')],
        loops={0: dict(invariant=[('frame', 'tree_ok() && __it.seq() == xp_children(node)'), ('C05:subtrees_of_the_children_so_far', 'nodes@ =~= subtrees(xp_children(node).take(__it.index@), height(node))')])},
        inject=[(r'for child in __it', TAKE_ALL('xp_children(node)'), 'after_block'), (r'nodes\.push\(child\.clone\(\)\);', TAKE_STEP('xp_children(node)'), 'before')])
    add('descendant_and_self', [('C05:the_node_then_its_descendants', 'r@ =~= subtree(node)')], rules=[R_APPEND_TMP])
    R_NOTDT = Rule('R33', r'(\w+)\.node_type\(\) != dom::NodeType::DocumentType', r'\1.shim_is_not_doctype()', 'PartialEq on the derive(PartialEq) enum NodeType -> shim')
    add('following_sibling', [('C05:the_later_siblings_without_the_doctype_in_document_order', 'r@ =~= following_siblings(node)')], rules=[R_NOTDT],
        loops={0: dict(invariant=[('frame', 'tree_ok()'),
                                  ('C05:collected_so_far_plus_what_is_left', 'nodes@ + (match next { Some(x) => as_xp_node(x) + following_siblings(x), None => Seq::empty() }) =~= following_siblings(node)')],
                       ensures=[('C05:all_following_siblings_collected', 'nodes@ =~= following_siblings(node)')],
                       decreases='(match next { Some(x) => fwd_rank(x) + 1, None => 0 })')})
    add('preceding_sibling', [('C05:the_earlier_siblings_without_the_doctype_nearest_first', 'r@ =~= preceding_siblings(node)')], rules=[R_NOTDT],
        loops={0: dict(invariant=[('frame', 'tree_ok()'),
                                  ('C05:collected_so_far_plus_what_is_left', 'nodes@ + (match prev { Some(x) => as_xp_node(x) + preceding_siblings(x), None => Seq::empty() }) =~= preceding_siblings(node)')],
                       ensures=[('C05:all_preceding_siblings_collected', 'nodes@ =~= preceding_siblings(node)')],
                       decreases='(match prev { Some(x) => bwd_rank(x) + 1, None => 0 })')})
    add('following', [('C05:everything_after_the_node_that_is_not_a_descendant_in_document_order', 'r@ =~= following_nodes(node)')], decreases='depth(node)',
        rules=[Rule('R47', r'for n in following_sibling\((node(?:\.clone\(\))?)\) \{', r'for n in __it: following_sibling(\1) /*@loop*/ {', 'iterator named'), R_APPEND_TMP],
        loops={0: dict(invariant=[('frame', 'tree_ok() && __it.seq() == following_siblings(node)'), ('C05:subtrees_of_the_following_siblings_so_far', 'nodes@ =~= after_an_attribute(node) + flat_subtrees(following_siblings(node).take(__it.index@))')])},
        inject=[(r'for n in __it', TAKE_ALL('following_siblings(node)'), 'after_block'), (r'let mut __t = descendant_and_self\(n\);', TAKE_STEP('following_siblings(node)'), 'before')])
    add('preceding', [('C05:everything_before_the_node_that_is_not_an_ancestor_nearest_first', 'r@ =~= preceding_nodes(node)')], decreases='depth(node)',
        rules=[Rule('R47', r'for p in preceding_sibling\((node(?:\.clone\(\))?)\) \{', r'for p in __it: preceding_sibling(\1) /*@loop*/ {', 'iterator named'), R_APPEND_TMP,
               Rule('R48', r'desc\.reverse\(\);', 'shim_reverse(&mut desc);', 'Vec::reverse -> shim')],
        loops={0: dict(invariant=[('frame', 'tree_ok() && __it.seq() == preceding_siblings(node)'), ('C05:reversed_subtrees_of_the_preceding_siblings_so_far', 'nodes@ =~= flat_subtrees_rev(preceding_siblings(node).take(__it.index@))')])},
        inject=[(r'for p in __it', TAKE_ALL('preceding_siblings(node)'), 'after_block'), (r'let mut desc = descendant_and_self\(p\);', TAKE_STEP('preceding_siblings(node)'), 'before')])
    add('namespace', [], requires=(), props=S,
        rules=[Rule('R47', r'for ns in element\.in_scope_namespace\(\)(\.unwrap\(\)|\?) \{', r'for ns in __it: element.in_scope_namespace()\1 /*@loop*/ {', 'iterator named')])
    return ENV, fns


TEMPLATE, FNS = build()
UNIT = dict(name='c05_axes', template=TEMPLATE, fns=FNS, props=['C05', 'C06'])
