"""C11, defaulting: `XmlElement::attributes` (info/src/lib.rs) -- the [attributes] property of an element: the written
attributes plus the ones the DTD defaults.

XML 1.0 3.3 / 3.3.2, as the property states it: an attribute that some attribute-list declaration for the element type gives
a default (plain or #FIXED) appears when it is not written, flagged not specified; #IMPLIED and #REQUIRED attributes appear
only when written; every attribute-list declaration for the element type counts (they are merged).  `decls(lists, name)` is
the merged list of definitions; `attributes_ok` says: the written attributes first and unchanged; every further item comes
from a definition with a default, for a name that is not written; every such definition is represented; no name twice.

The attribute-list declarations of the DTD and the written attributes are assumed callees over the live document
(`declaration_att_lists` = all declarations for the element type, `declaration_att_list` = the first one: the contract of
each is what its body -- a filter / a find over the DTD children -- computes); `equal_qname` is verified in
units/info_helpers.py.  Not decided: "the first declaration of a name binds" when an earlier declaration of the same name has
no default."""
import os

from vf.unit import Fn, Rule
from vf import unit as U

FI = 'info/src/lib.rs'

ENV = r'''use vstd::prelude::*;
verus! {
pub struct QName { pub prefix: Option<String>, pub local: String }
pub open spec fn pv(p: Option<String>) -> Option<Seq<char>> { match p { Some(s) => Some(s@), None => None } }
pub open spec fn same_name(a: QName, b: QName) -> bool { a.local@ == b.local@ && pv(a.prefix) == pv(b.prefix) }
// info::equal_qname (units/info_helpers.py): same spelling of prefix and local part
#[verifier::external_body]
pub fn equal_qname(a: &QName, b: &QName) -> (r: bool) ensures r == same_name(*a, *b) { unimplemented!() }

pub struct ValueItem { pub h: usize }
pub enum XmlDeclarationAttDefault { Required, Implied, Value(Option<String>, Vec<ValueItem>) }
pub struct XmlDeclarationAttDef { pub name: QName, pub value: XmlDeclarationAttDefault }
pub struct XmlDeclarationAttList { pub name: QName, pub atts: Vec<XmlDeclarationAttDef> }
pub struct XmlAttribute { pub name: QName, pub from_dtd: bool, pub def: Ghost<Option<XmlDeclarationAttDef>> }
pub struct Context { pub h: usize }
pub struct XmlElement { pub name: QName, pub specified: Vec<XmlAttribute>, pub lists: Vec<XmlDeclarationAttList>, pub ctx: Context }

// every attribute definition the DTD gives for an element type: the attribute-list declarations for it, merged in order
pub open spec fn decls(lists: Seq<XmlDeclarationAttList>, name: QName) -> Seq<XmlDeclarationAttDef>
    decreases lists.len(),
{
    if lists.len() == 0 { Seq::empty() } else { decls(lists.drop_last(), name) + (if same_name(lists.last().name, name) { lists.last().atts@ } else { Seq::empty() }) }
}
pub open spec fn flat_atts(lists: Seq<XmlDeclarationAttList>) -> Seq<XmlDeclarationAttDef>
    decreases lists.len(),
{
    if lists.len() == 0 { Seq::empty() } else { flat_atts(lists.drop_last()) + lists.last().atts@ }
}
pub open spec fn has_name(items: Seq<XmlAttribute>, n: QName) -> bool { exists|i: int| 0 <= i < items.len() && same_name((#[trigger] items[i]).name, n) }
pub open spec fn has_default(d: XmlDeclarationAttDef) -> bool { d.value is Value }
// what the code lets contribute an attribute: every definition that is not #IMPLIED (so #REQUIRED too: see the open finding)
pub open spec fn contributes(d: XmlDeclarationAttDef) -> bool { !(d.value is Implied) }
pub open spec fn written_first(r: Seq<XmlAttribute>, e: XmlElement) -> bool {
    r.len() >= e.specified@.len() && r.subrange(0, e.specified@.len() as int) =~= e.specified@
}
pub open spec fn extra_from(r: Seq<XmlAttribute>, e: XmlElement, d: Seq<XmlDeclarationAttDef>, only_defaults: bool) -> bool {
    forall|i: int| e.specified@.len() <= i < r.len() ==> (#[trigger] r[i]).from_dtd && !has_name(e.specified@, r[i].name)
        && exists|k: int| 0 <= k < d.len() && (if only_defaults { has_default(#[trigger] d[k]) } else { contributes(d[k]) }) && same_name(d[k].name, r[i].name) && r[i].def@ == Some(d[k])
}
pub open spec fn defaults_present(r: Seq<XmlAttribute>, e: XmlElement, d: Seq<XmlDeclarationAttDef>) -> bool {
    forall|k: int| 0 <= k < d.len() && has_default(#[trigger] d[k]) && !has_name(e.specified@, d[k].name) ==> has_name(r, d[k].name)
}
pub open spec fn extra_distinct(r: Seq<XmlAttribute>, e: XmlElement) -> bool {
    forall|i: int, j: int| e.specified@.len() <= i < j < r.len() ==> !same_name((#[trigger] r[i]).name, (#[trigger] r[j]).name)
}
// XML 1.0 3.3.2: what an element shows: its written attributes, then one not-specified attribute for every name that some
// declaration gives a default (plain or #FIXED) and that is not written; #REQUIRED / #IMPLIED contribute nothing
pub open spec fn attributes_ok(r: Seq<XmlAttribute>, e: XmlElement) -> bool {
    let n = e.specified@.len();
    let d = decls(e.lists@, e.name);
    &&& r.len() >= n && r.subrange(0, n as int) =~= e.specified@
    &&& forall|i: int| n <= i < r.len() ==> (#[trigger] r[i]).from_dtd && !has_name(e.specified@, r[i].name)
            && exists|k: int| 0 <= k < d.len() && has_default(#[trigger] d[k]) && same_name(d[k].name, r[i].name) && r[i].def@ == Some(d[k])
    &&& forall|k: int| 0 <= k < d.len() && has_default(#[trigger] d[k]) && !has_name(e.specified@, d[k].name) ==> has_name(r, d[k].name)
    &&& forall|i: int, j: int| n <= i < j < r.len() ==> !same_name((#[trigger] r[i]).name, (#[trigger] r[j]).name)
}

impl XmlDeclarationAttDef {
    pub fn qname(&self) -> (r: &QName) ensures *r == self.name { &self.name }
}
impl XmlDeclarationAttDefault {
    pub fn shim_is_value(&self) -> (r: bool) ensures r == (self is Value) { match self { XmlDeclarationAttDefault::Value(_, _) => true, _ => false } }
}
impl XmlAttribute {
    pub fn qname(&self) -> (r: &QName) ensures *r == self.name { &self.name }
    #[verifier::external_body]
    pub fn new_from_declaration(value: &XmlDeclarationAttDef, context: &Context) -> (r: XmlAttribute)
        ensures r.name == value.name, r.from_dtd, r.def@ == Some(*value),
    { unimplemented!() }
}
#[verifier::external_body]
pub fn shim_any_named(items: &Vec<XmlAttribute>, attr: &XmlDeclarationAttDef) -> (r: bool)
    ensures r == has_name(items@, attr.name),
{ unimplemented!() }
pub struct UnorderedSet {}
impl UnorderedSet { pub fn new<T>(items: Vec<T>) -> (r: Vec<T>) ensures r == items { items } }

pub proof fn lemma_flat_split(s: Seq<XmlDeclarationAttList>, k: int)
    requires 0 <= k < s.len(),
    ensures flat_atts(s.take(k + 1)) == flat_atts(s.take(k)) + s[k].atts@,
{
    assert(s.take(k + 1).drop_last() =~= s.take(k));
}

impl XmlDeclarationAttDefault {
    pub fn shim_is_implied(&self) -> (r: bool) ensures r == (self is Implied) { match self { XmlDeclarationAttDefault::Implied => true, _ => false } }
}
impl XmlElement {
    pub fn context(&self) -> (r: &Context) { &self.ctx }
    // the written attributes that are not namespace declarations (a filter over the attribute list)
    #[verifier::external_body]
    pub fn attributes_specified(&self) -> (r: Vec<XmlAttribute>) ensures r@ == self.specified@ { unimplemented!() }
    // every attribute-list declaration of the DTD for this element type, in document order (after the repair)
    #[verifier::external_body]
    pub fn declaration_att_lists(&self) -> (r: Vec<XmlDeclarationAttList>) ensures flat_atts(r@) == decls(self.lists@, self.name) { unimplemented!() }
    // the FIRST attribute-list declaration of the DTD for this element type (before the repair: iter().find(..))
    #[verifier::external_body]
    pub fn declaration_att_list(&self) -> (r: Option<XmlDeclarationAttList>)
        ensures r is Some ==> exists|k: int| 0 <= k < self.lists@.len() && self.lists@[k] == r->Some_0 && same_name(self.lists@[k].name, self.name)
                    && forall|j: int| 0 <= j < k ==> !same_name((#[trigger] self.lists@[j]).name, self.name),
                r is None ==> forall|j: int| 0 <= j < self.lists@.len() ==> !same_name((#[trigger] self.lists@[j]).name, self.name),
    { unimplemented!() }

    //@@ attributes
}
#[verifier::external_body]
pub fn shim_atts(l: &XmlDeclarationAttList) -> (r: Vec<XmlDeclarationAttDef>) ensures r@ == l.atts@ { unimplemented!() }

// the loop invariant: `items` is right with respect to the definitions seen so far
pub open spec fn inv(items: Seq<XmlAttribute>, e: XmlElement, seen: Seq<XmlDeclarationAttDef>) -> bool {
    let n = e.specified@.len();
    &&& items.len() >= n && items.subrange(0, n as int) =~= e.specified@
    &&& forall|i: int| n <= i < items.len() ==> (#[trigger] items[i]).from_dtd && !has_name(e.specified@, items[i].name)
            && exists|k: int| 0 <= k < seen.len() && contributes(#[trigger] seen[k]) && same_name(seen[k].name, items[i].name) && items[i].def@ == Some(seen[k])
    &&& forall|k: int| 0 <= k < seen.len() && contributes(#[trigger] seen[k]) && !has_name(e.specified@, seen[k].name) ==> has_name(items, seen[k].name)
    &&& forall|i: int, j: int| n <= i < j < items.len() ==> !same_name((#[trigger] items[i]).name, (#[trigger] items[j]).name)
}
pub proof fn lemma_inv_final(items: Seq<XmlAttribute>, e: XmlElement)
    requires inv(items, e, decls(e.lists@, e.name)),
    ensures written_first(items, e), extra_from(items, e, decls(e.lists@, e.name), false), defaults_present(items, e, decls(e.lists@, e.name)), extra_distinct(items, e),
{
    let d = decls(e.lists@, e.name);
    assert forall|k: int| 0 <= k < d.len() && has_default(#[trigger] d[k]) && !has_name(e.specified@, d[k].name) implies has_name(items, d[k].name) by { assert(contributes(d[k])); }
}
pub proof fn lemma_inv_skip(items: Seq<XmlAttribute>, e: XmlElement, seen: Seq<XmlDeclarationAttDef>, d: XmlDeclarationAttDef)
    requires inv(items, e, seen), !contributes(d) || has_name(items, d.name),
    ensures inv(items, e, seen.push(d)),
{
    let s2 = seen.push(d);
    let n = e.specified@.len();
    assert forall|i: int| n <= i < items.len() implies (#[trigger] items[i]).from_dtd && !has_name(e.specified@, items[i].name)
            && exists|k: int| 0 <= k < s2.len() && contributes(#[trigger] s2[k]) && same_name(s2[k].name, items[i].name) && items[i].def@ == Some(s2[k]) by {
        let k = choose|k: int| 0 <= k < seen.len() && contributes(#[trigger] seen[k]) && same_name(seen[k].name, items[i].name) && items[i].def@ == Some(seen[k]);
        assert(s2[k] == seen[k]);
    }
    assert forall|k: int| 0 <= k < s2.len() && contributes(#[trigger] s2[k]) && !has_name(e.specified@, s2[k].name) implies has_name(items, s2[k].name) by {
        if k < seen.len() { assert(s2[k] == seen[k]); }
    }
}
pub proof fn lemma_inv_push(before: Seq<XmlAttribute>, items: Seq<XmlAttribute>, e: XmlElement, seen: Seq<XmlDeclarationAttDef>, d: XmlDeclarationAttDef)
    requires inv(before, e, seen), contributes(d), !has_name(before, d.name), items.len() == before.len() + 1, items.drop_last() == before,
        items.last().name == d.name, items.last().from_dtd, items.last().def@ == Some(d),
    ensures inv(items, e, seen.push(d)),
{
    let s2 = seen.push(d);
    let n = e.specified@.len();
    assert(items.subrange(0, n as int) =~= before.subrange(0, n as int));
    assert forall|i: int| 0 <= i < before.len() implies items[i] == before[i] by { assert(items.drop_last()[i] == before[i]); }
    // a written attribute with that name would have been found in `before`
    assert(!has_name(e.specified@, d.name)) by {
        if has_name(e.specified@, d.name) {
            let i = choose|i: int| 0 <= i < e.specified@.len() && same_name((#[trigger] e.specified@[i]).name, d.name);
            assert(before.subrange(0, n as int)[i] == before[i]);
            assert(same_name(before[i].name, d.name));
        }
    }
    assert forall|i: int| n <= i < items.len() implies (#[trigger] items[i]).from_dtd && !has_name(e.specified@, items[i].name)
            && exists|k: int| 0 <= k < s2.len() && contributes(#[trigger] s2[k]) && same_name(s2[k].name, items[i].name) && items[i].def@ == Some(s2[k]) by {
        if i < before.len() {
            let k = choose|k: int| 0 <= k < seen.len() && contributes(#[trigger] seen[k]) && same_name(seen[k].name, before[i].name) && before[i].def@ == Some(seen[k]);
            assert(s2[k] == seen[k]);
        } else {
            assert(s2[seen.len() as int] == d);
        }
    }
    assert forall|k: int| 0 <= k < s2.len() && contributes(#[trigger] s2[k]) && !has_name(e.specified@, s2[k].name) implies has_name(items, s2[k].name) by {
        if k < seen.len() {
            assert(s2[k] == seen[k]);
            let i = choose|i: int| 0 <= i < before.len() && same_name((#[trigger] before[i]).name, seen[k].name);
            assert(same_name(items[i].name, s2[k].name));
        } else {
            assert(same_name(items[items.len() - 1].name, d.name));
        }
    }
    assert forall|i: int, j: int| n <= i < j < items.len() implies !same_name((#[trigger] items[i]).name, (#[trigger] items[j]).name) by {
        if j < before.len() { } else { if same_name(items[i].name, items[j].name) { assert(same_name(before[i].name, d.name)); } }
    }
}

} // verus!
fn main() {}
'''

KEEP_NL = lambda text: (lambda m: text + '\n' * m.group(0).count('\n'))
R_TYPE = Rule('R11', r'UnorderedSet<XmlNode<XmlAttribute>>', 'Vec<XmlAttribute>', 'XmlNode<T> (Rc<RefCell<T>>) -> T (A4); UnorderedSet<T> wraps a Vec<T> (UnorderedSet::new is the identity here)')
PUB = Rule('R12', r'^fn ', 'pub fn ', 'visibility (no runtime meaning)')
R_ANY = Rule('R48', r'!items\s*\.iter\(\)\s*\.any\(\|v\| equal_qname\(v\.borrow\(\)\.qname\(\), attr\.qname\(\)\)\)', KEEP_NL('!shim_any_named(&items, &attr)'), 'iter().any(equal_qname with the definition) -> shim: some item has that name')
R_NEW = Rule('R48', r'XmlAttribute::new_from_declaration\(attr, self\.context\(\)\)', 'XmlAttribute::new_from_declaration(&attr, self.context())', 'the definition is owned by the loop in the model: pass a reference')
R_INNER = Rule('R47', r'for attr in attrs\.borrow\(\)\.atts\.as_slice\(\) \{', 'for attr in __it2: shim_atts(&attrs) /*@loop*/ {', 'RefCell borrow dropped (A4); for over the slice -> for over a copy of the definitions, iterator named')

GHOST_OUTER = 'let ghost done = flat_atts(__lists@.take(__it.index@)); let ghost j = __it.index@; proof { lemma_flat_split(__lists@, j); }'
GHOST_INNER = ('let ghost before = items@; let ghost a = __it2.index@; let ghost seen = done + attrs.atts@.take(a); '
               'proof { assert(attrs.atts@.take(a + 1) =~= attrs.atts@.take(a).push(attr)); assert(done + attrs.atts@.take(a + 1) =~= seen.push(attr)); }')


def build(repo=None):
    src = open(os.path.join(repo or U.REPO, FI)).read()
    repaired = 'fn declaration_att_lists(' in src
    P = ['C11']
    fns = {}
    D = 'decls(self.lists@, self.name)'
    POST = [('C11:the_written_attributes_come_first_unchanged', 'written_first(r@, *self)'),
            ('C11:every_default_declared_in_any_attribute_list_declaration_appears_when_not_written', f'defaults_present(r@, *self, {D})'),
            ('C11:an_unwritten_attribute_appears_only_for_a_declared_default', f'extra_from(r@, *self, {D}, true)'),
            ('C11:an_unwritten_attribute_comes_from_a_declaration_that_is_not_implied_and_is_flagged_not_specified', f'extra_from(r@, *self, {D}, false)'),
            ('C11:no_defaulted_name_twice', 'extra_distinct(r@, *self)')]
    if repaired:
        fns['attributes'] = Fn(
            FI, 'impl Element for XmlElement', 'attributes', props=P, safety_props=P, label='XmlElement::attributes', sig_rules=[R_TYPE, PUB],
            rules=[Rule('R47', r'for attrs in self\.declaration_att_lists\(\) \{', 'for attrs in __it: __lists /*@loop*/ {', 'the list being iterated gets a name; iterator named'),
                   R_INNER, R_ANY, R_NEW,
                   Rule('R48', r'matches!\(attr\.value, XmlDeclarationAttDefault::Value\(\.\.\)\)', 'attr.value.shim_is_value()', 'matches! on the default kind -> the same test as a method of the model'),
                   Rule('R48', r'attr\.value != XmlDeclarationAttDefault::Implied', '!attr.value.shim_is_implied()', 'enum != a unit variant -> the same test as a method of the model')],
            loops={0: dict(invariant=[('frame', '__it.seq() == __lists@ && flat_atts(__lists@) == decls(self.lists@, self.name) && n == self.specified@.len()'),
                                      ('C11:right_for_the_declarations_seen_so_far', 'inv(items@, *self, flat_atts(__lists@.take(__it.index@)))')]),
                   1: dict(invariant=[('frame', '__it2.seq() == attrs.atts@ && n == self.specified@.len() && attrs == __lists@[j] && done == flat_atts(__lists@.take(j))'),
                                      ('C11:right_for_the_definitions_seen_so_far', 'inv(items@, *self, done + attrs.atts@.take(__it2.index@))')])},
            inject=[(r'if (attr\.value\.shim_is_value\(\)|!attr\.value\.shim_is_implied\(\))', 'proof { if items@.len() == before.len() { lemma_inv_skip(items@, *self, seen, attr); } }', 'after_block'),
                    (r'for attr in __it2', 'proof { assert(attrs.atts@.take(attrs.atts@.len() as int) =~= attrs.atts@); }', 'after_block'),
                    (r'for attrs in __it: __lists', 'proof { assert(__lists@.take(__lists@.len() as int) =~= __lists@); lemma_inv_final(items@, *self); }', 'after_block'),
                    (r'let mut items = self\.attributes_specified\(\);', 'let ghost n = self.specified@.len() as int; let __lists = self.declaration_att_lists(); proof { assert(__lists@.take(0) =~= Seq::<XmlDeclarationAttList>::empty()); assert(items@.subrange(0, n) =~= self.specified@); }'),
                    (r'for attrs in __it: __lists', GHOST_OUTER),
                    (r'if (attr\.value\.shim_is_value\(\)|!attr\.value\.shim_is_implied\(\))', GHOST_INNER, 'before'),
                    (r'items\.push\(XmlAttribute::new_from_declaration', 'proof { assert(items@.drop_last() =~= before); lemma_inv_push(before, items@, *self, seen, attr); }')],
            ensures=POST)
    else:
        fns['attributes'] = Fn(
            FI, 'impl Element for XmlElement', 'attributes', props=P, safety_props=P, label='XmlElement::attributes', sig_rules=[R_TYPE, PUB],
            rules=[R_INNER, R_ANY, R_NEW,
                   Rule('R48', r'attr\.value != XmlDeclarationAttDefault::Implied', '!attr.value.shim_is_implied()', 'enum != a unit variant -> the same test as a method of the model')],
            loops={0: dict(invariant=[('written_attributes_stay_in_front', 'items@.len() >= self.specified@.len() && items@.subrange(0, self.specified@.len() as int) =~= self.specified@')])},
            ensures=POST)
    return ENV, fns


TEMPLATE, FNS = build()
UNIT = dict(name='c11_defaults', template=TEMPLATE, fns=FNS, props=['C11'], build=build)
