"""C10, caller side: the prefix bindings of `xpath::eval::model::Context` (xpath/src/eval/model.rs) and the name-test
comparison `eval::equal_qname` (xpath/src/eval/mod.rs).

View: `bindings : Seq<(Option<Seq<char>>, Seq<char>)>` (prefix or None for the default namespace, URI).  `lookup(b, p)` is
the URI of the FIRST entry whose prefix is `p`.  Contracts: add_ns makes `p` resolve to the new URI and leaves every other
prefix alone (re-binding replaces: the latest binding wins), remove_ns unbinds exactly `p`, get_ns_uri is `lookup`,
expanded_name(p:l) = (l, p, lookup(p)) or NotFoundNamespace, expanded_name(l) = (l, None, lookup(None)); equal_qname
compares (local part, URI) and ignores the prefix.  Lemma `lemma_rename_invariant`: renaming prefixes consistently
(injectively) in the bindings and in the QName does not change (local part, URI) -- the last sentence of C10 for the
expression side.  The document side (nearest enclosing declaration, xmlns="", attributes, the xml prefix) walks the live
element graph and is NOT decided.
"""
from vf.unit import Fn, Rule

FM = 'xpath/src/eval/model.rs'
FE = 'xpath/src/eval/mod.rs'

ENV = r'''use vstd::prelude::*;
verus! {

pub mod nom {
    pub mod model {
        // nom/src/model.rs (real fields)
        pub struct PrefixedName<'a> {
            pub prefix: &'a str,
            pub local_part: &'a str,
        }
        pub enum QName<'a> {
            Prefixed(PrefixedName<'a>),
            Unprefixed(&'a str),
        }
    }
}

pub mod error {
    pub struct DomError { pub code: usize }
    pub enum Error {
        Dom(DomError),
        InvalidType,
        InvalidArgumentCount(String),
        NotFoundFunction(String),
        NotFoundNamespace(String),
        NotFoundVariable(String),
    }
    pub type Result<T> = core::result::Result<T, Error>;
}

pub type ExpandedName = (String, Option<String>, Option<String>);
pub type Binding = (Option<Seq<char>>, Seq<char>);

pub open spec fn opt_view(o: Option<String>) -> Option<Seq<char>> {
    match o { Some(s) => Some(s@), None => None }
}
pub open spec fn opt_str_view(o: Option<&str>) -> Option<Seq<char>> {
    match o { Some(s) => Some(s@), None => None }
}
pub open spec fn bindings_of(v: Seq<(Option<String>, String)>) -> Seq<Binding> {
    v.map_values(|e: (Option<String>, String)| (opt_view(e.0), e.1@))
}

// the URI of the FIRST binding of prefix p
pub open spec fn lookup(b: Seq<Binding>, p: Option<Seq<char>>) -> Option<Seq<char>>
    decreases b.len(),
{
    if b.len() == 0 {
        None
    } else if b[0].0 == p {
        Some(b[0].1)
    } else {
        lookup(b.subrange(1, b.len() as int), p)
    }
}
// the bindings of every prefix other than p, in order (what Vec::retain keeps)
pub open spec fn without(b: Seq<Binding>, p: Option<Seq<char>>) -> Seq<Binding>
    decreases b.len(),
{
    if b.len() == 0 {
        b
    } else {
        let t = without(b.subrange(1, b.len() as int), p);
        if b[0].0 != p { seq![b[0]] + t } else { t }
    }
}

pub proof fn lemma_lookup_push(b: Seq<Binding>, e: Binding, q: Option<Seq<char>>)
    ensures lookup(b.push(e), q) == (if lookup(b, q) is Some { lookup(b, q) } else if e.0 == q { Some(e.1) } else { None }),
    decreases b.len(),
{
    let bp = b.push(e);
    if b.len() == 0 {
        assert(bp.len() == 1 && bp[0] == e);
        assert(bp.subrange(1, 1) =~= Seq::<Binding>::empty());
        assert(lookup(bp.subrange(1, 1), q) is None);
        assert(lookup(b, q) is None);
    } else {
        let t = b.subrange(1, b.len() as int);
        assert(bp.len() == b.len() + 1 && bp[0] == b[0]);
        assert(bp.subrange(1, bp.len() as int) =~= t.push(e));
        if b[0].0 != q {
            lemma_lookup_push(t, e, q);
            assert(lookup(bp, q) == lookup(t.push(e), q));
            assert(lookup(b, q) == lookup(t, q));
        } else {
            assert(lookup(bp, q) == Some(b[0].1));
            assert(lookup(b, q) == Some(b[0].1));
        }
    }
}

pub proof fn lemma_lookup_without(b: Seq<Binding>, p: Option<Seq<char>>, q: Option<Seq<char>>)
    ensures lookup(without(b, p), q) == (if q == p { None::<Seq<char>> } else { lookup(b, q) }),
    decreases b.len(),
{
    if b.len() == 0 {
    } else {
        let t = b.subrange(1, b.len() as int);
        lemma_lookup_without(t, p, q);
        if b[0].0 != p {
            let w = seq![b[0]] + without(t, p);
            assert(w[0] == b[0]);
            assert(w.subrange(1, w.len() as int) =~= without(t, p));
        }
    }
}

// ---- std shims (A2) ----
// v.retain(|e| e.0.as_deref() != prefix)
#[verifier::external_body]
pub fn shim_retain_other_prefixes(v: &mut Vec<(Option<String>, String)>, prefix: Option<&str>)
    ensures bindings_of(final(v)@) == without(bindings_of(old(v)@), opt_str_view(prefix)),
{
    v.retain(|e| e.0.as_deref() != prefix);
}

// (prefix.map(|v| v.to_string()), uri.to_string())
#[verifier::external_body]
pub fn shim_owned_binding(prefix: Option<&str>, uri: &str) -> (r: (Option<String>, String))
    ensures opt_view(r.0) == opt_str_view(prefix), r.1@ == uri@,
{
    (prefix.map(|v| v.to_string()), uri.to_string())
}

// v.iter().find(|e| e.0.as_deref() == prefix).map(|e| e.1.as_str()): the URI of the first match
#[verifier::external_body]
pub fn shim_find_uri<'a>(v: &'a Vec<(Option<String>, String)>, prefix: Option<&str>) -> (r: Option<&'a str>)
    ensures opt_str_view(r) == lookup(bindings_of(v@), opt_str_view(prefix)),
{
    v.iter().find(|e| e.0.as_deref() == prefix).map(|e| e.1.as_str())
}

#[verifier::external_body]
pub fn shim_to_string(s: &str) -> (r: String)
    ensures r@ == s@,
{
    s.to_string()
}

// self.namespaces.iter().find(|v| v.0 == prefix) projected on the URI (the `(_, uri)` pattern of the caller)
#[verifier::external_body]
pub fn shim_find_uri_owned<'a>(v: &'a Vec<(Option<String>, String)>, prefix: &Option<String>) -> (r: Option<&'a String>)
    ensures (match r { Some(u) => Some(u@), None => None }) == lookup(bindings_of(v@), opt_view(*prefix)),
{
    v.iter().find(|e| e.0 == *prefix).map(|e| &e.1)
}

// self.namespaces.iter().find(|v| v.0.is_none())
#[verifier::external_body]
pub fn shim_find_default<'a>(v: &'a Vec<(Option<String>, String)>) -> (r: Option<&'a (Option<String>, String)>)
    ensures (match r { Some(e) => Some(e.1@), None => None }) == lookup(bindings_of(v@), None::<Seq<char>>),
{
    v.iter().find(|e| e.0.is_none())
}

// uri.map(|v| v.1.to_string())
#[verifier::external_body]
pub fn shim_opt_uri_owned(e: Option<&(Option<String>, String)>) -> (r: Option<String>)
    ensures opt_view(r) == (match e { Some(x) => Some(x.1@), None => None }),
{
    e.map(|v| v.1.to_string())
}

#[verifier::external_body]
pub fn shim_not_found_namespace(prefix: &str) -> (r: error::Error)
    ensures r is NotFoundNamespace,
{
    error::Error::NotFoundNamespace(prefix.to_string())
}

// C10, last sentence (expression side): renaming prefixes consistently -- by an injective map on prefixes, applied to
// the bindings and to the QName alike -- does not change what a prefix resolves to
pub open spec fn renamed(b: Seq<Binding>, f: spec_fn(Option<Seq<char>>) -> Option<Seq<char>>) -> Seq<Binding> {
    b.map_values(|e: Binding| (f(e.0), e.1))
}
pub proof fn lemma_rename_invariant(b: Seq<Binding>, f: spec_fn(Option<Seq<char>>) -> Option<Seq<char>>, p: Option<Seq<char>>)
    requires forall|x: Option<Seq<char>>, y: Option<Seq<char>>| #[trigger] f(x) == #[trigger] f(y) ==> x == y,
    ensures lookup(renamed(b, f), f(p)) == lookup(b, p),
    decreases b.len(),
{
    if b.len() > 0 {
        let t = b.subrange(1, b.len() as int);
        assert(renamed(b, f).subrange(1, b.len() as int) =~= renamed(t, f));
        lemma_rename_invariant(t, f, p);
    }
}

pub struct Context {
    pub size: Vec<usize>,
    pub position: Vec<usize>,
    pub namespaces: Vec<(Option<String>, String)>,
}

impl Context {
    pub open spec fn bindings(self) -> Seq<Binding> { bindings_of(self.namespaces@) }

    //@@ get_ns_uri

    //@@ add_ns

    //@@ remove_ns

    //@@ expanded_name
}

pub mod dom {
    use vstd::prelude::*;
    pub struct Error { pub code: usize }
    pub struct XmlNode { pub h: usize }
    // the expanded name the document side computes for a node (local part, prefix, namespace URI); None for node kinds
    // without a name.  Uninterpreted: computing it walks the live element graph (not decided here)
    pub uninterp spec fn node_expanded_name(n: XmlNode) -> Option<(Seq<char>, Option<Seq<char>>, Option<Seq<char>>)>;
    impl XmlNode {
        #[verifier::external_body]
        pub fn as_expanded_name(&self) -> (r: core::result::Result<Option<crate::ExpandedName>, Error>)
            ensures r is Ok ==> (match r->Ok_0 {
                Some(t) => Some((t.0@, crate::opt_view(t.1), crate::opt_view(t.2))),
                None => None,
            }) == node_expanded_name(*self),
        {
            unimplemented!()
        }
    }
}
impl From<dom::Error> for error::Error {
    #[verifier::external_body]
    fn from(value: dom::Error) -> (r: Self) { unimplemented!() }
}
pub mod model { pub use crate::Context; }

#[verifier::external_body]
pub fn shim_string_eq(a: &String, b: &String) -> (r: bool)
    ensures r == (a@ == b@),
{
    a == b
}
#[verifier::external_body]
pub fn shim_opt_string_eq(a: &Option<String>, b: &Option<String>) -> (r: bool)
    ensures r == (opt_view(*a) == opt_view(*b)),
{
    a == b
}

//@@ equal_qname

} // verus!
fn main() {}
'''

CTX = 'impl Context'
PUB = Rule('R12', r'^fn ', 'pub fn ', 'visibility (no runtime meaning)')
R_RETAIN = Rule('R38', r'self\.namespaces\.retain\(\|v\| v\.0\.as_deref\(\) != prefix\);', 'shim_retain_other_prefixes(&mut self.namespaces, prefix);',
                'Vec::retain with a closure over Option<String>::as_deref -> shim: keeps exactly the bindings of other prefixes')
R_PUSHB = Rule('R38', r'\.push\(\(prefix\.map\(\|v\| v\.to_string\(\)\), uri\.to_string\(\)\)\);', '.push(shim_owned_binding(prefix, uri));',
               'Option::map(to_string) / to_string -> shim building the owned binding')
R_FINDURI = Rule('R38', r'self\.namespaces\s*\.iter\(\)\s*\.find\(\|v\| v\.0\.as_deref\(\) == prefix\)\s*\.map\(\|v\| v\.1\.as_str\(\)\)', 'shim_find_uri(&self.namespaces, prefix)',
                 'iter().find(closure).map(closure) -> shim: the URI of the first binding of the prefix')
FRAME = 'final(self).size@ == old(self).size@ && final(self).position@ == old(self).position@'


def build():
    fns = {}
    P = ['C10']
    B_O = 'old(self).bindings()'
    B_N = 'final(self).bindings()'
    PV = 'opt_str_view(prefix)'
    fns['get_ns_uri'] = Fn(
        FM, CTX, 'get_ns_uri', props=P, sig_rules=[PUB], rules=[R_FINDURI], label='model::Context::get_ns_uri',
        ensures=[('C10:first_binding_of_the_prefix', f'opt_str_view(r) == lookup({B_O}, {PV})'),
                 ('C10:context_unchanged', f'{B_N} == {B_O} && {FRAME}')])
    fns['add_ns'] = Fn(
        FM, CTX, 'add_ns', props=P, sig_rules=[PUB], rules=[R_RETAIN, R_PUSHB], label='model::Context::add_ns',
        ensures=[('C10:prefix_resolves_to_the_new_uri', f'lookup({B_N}, {PV}) == Some(uri@)'),
                 ('C10:other_prefixes_keep_their_binding', f'forall|q: Option<Seq<char>>| q != {PV} ==> lookup({B_N}, q) == #[trigger] lookup({B_O}, q)'),
                 ('C10:stacks_untouched', FRAME)],
        inject=[(r'\.push\(shim_owned_binding', f'proof {{ let b0 = {B_O}; let p = {PV}; assert(self.bindings() =~= without(b0, p).push((p, uri@))); assert forall|q: Option<Seq<char>>| true implies lookup(self.bindings(), q) == (if q == p {{ Some(uri@) }} else {{ lookup(b0, q) }}) by {{ lemma_lookup_without(b0, p, q); lemma_lookup_push(without(b0, p), (p, uri@), q); }} }}')])
    fns['remove_ns'] = Fn(
        FM, CTX, 'remove_ns', props=P, sig_rules=[PUB], rules=[R_RETAIN], label='model::Context::remove_ns',
        ensures=[('C10:prefix_is_unbound', f'lookup({B_N}, {PV}) is None'),
                 ('C10:other_prefixes_keep_their_binding', f'forall|q: Option<Seq<char>>| q != {PV} ==> lookup({B_N}, q) == #[trigger] lookup({B_O}, q)'),
                 ('C10:stacks_untouched', FRAME)],
        inject=[(r'shim_retain_other_prefixes', f'proof {{ let b0 = {B_O}; let p = {PV}; assert forall|q: Option<Seq<char>>| true implies lookup(self.bindings(), q) == (if q == p {{ None::<Seq<char>> }} else {{ lookup(b0, q) }}) by {{ lemma_lookup_without(b0, p, q); }} }}')])
    R_TOSTR = Rule('R6', r'\b(p\.local_part|p\.prefix|u|uri)\.to_string\(\)', r'shim_to_string(\1)', 'str::to_string -> shim with contract r@ == s@')
    fns['expanded_name'] = Fn(
        FM, CTX, 'expanded_name', props=P, sig_rules=[PUB], label='model::Context::expanded_name',
        rules=[Rule('R38', r'let \(_, uri\) = self\s*\.namespaces\s*\.iter\(\)\s*\.find\(\|v\| v\.0 == prefix\)\s*\.ok_or_else\(\|\| error::Error::NotFoundNamespace\(p\.prefix\.to_string\(\)\)\)\?;',
                    'let uri = match shim_find_uri_owned(&self.namespaces, &prefix) { Some(u) => u, None => return Err(shim_not_found_namespace(p.prefix)) };',
                    'iter().find(closure).ok_or_else(closure)? with a tuple pattern -> shim returning the URI of the first binding, early return spelled out'),
               Rule('R38', r'self\.namespaces\.iter\(\)\.find\(\|v\| v\.0\.is_none\(\)\)', 'shim_find_default(&self.namespaces)', 'iter().find(is_none) -> shim: the first default-namespace binding'),
               Rule('R38', r'uri\.map\(\|v\| v\.1\.to_string\(\)\)', 'shim_opt_uri_owned(uri)', 'Option::map(to_string) -> shim'),
               R_TOSTR],
        ensures=[('C10:prefixed_name_resolves_through_the_bindings',
                  'qname is Prefixed ==> (match lookup(self.bindings(), Some(qname->Prefixed_0.prefix@)) {'
                  ' Some(u) => r is Ok && r->Ok_0.0@ == qname->Prefixed_0.local_part@ && opt_view(r->Ok_0.1) == Some(qname->Prefixed_0.prefix@) && opt_view(r->Ok_0.2) == Some(u),'
                  ' None => r is Err && r->Err_0 is NotFoundNamespace })'),
                 ('C10:unprefixed_name_takes_the_default_binding',
                  'qname is Unprefixed ==> r is Ok && r->Ok_0.0@ == qname->Unprefixed_0@ && r->Ok_0.1 is None && opt_view(r->Ok_0.2) == lookup(self.bindings(), None::<Seq<char>>)')])
    fns['equal_qname'] = Fn(
        FE, None, 'equal_qname', props=P, label='eval::equal_qname',
        rules=[Rule('R39', r'Ok\(local_part_a == local_part_b && uri_a == uri_b\)', 'Ok(shim_string_eq(&local_part_a, &local_part_b) && shim_opt_string_eq(&uri_a, &uri_b))', 'String / Option<String> equality -> shims comparing the character sequences')],
        ensures=[('C10:compares_local_part_and_uri_never_the_prefix',
                  'r is Ok ==> r->Ok_0 == (match dom::node_expanded_name(node) {'
                  ' Some(a) => (match qname { nom::model::QName::Prefixed(p) => a.0 == p.local_part@ && a.2 == lookup(context.bindings(), Some(p.prefix@)) && a.2 is Some,'
                  ' nom::model::QName::Unprefixed(u) => a.0 == u@ && a.2 == lookup(context.bindings(), None::<Seq<char>>) }),'
                  ' None => false })')])
    return ENV, fns


TEMPLATE, FNS = build()
UNIT = dict(name='c10_ns', template=TEMPLATE, fns=FNS, props=['C10'])
