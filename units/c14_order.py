"""C14, the `DocumentOrder` layer (info/src/lib.rs) and the order-key accessors built on it.

  DocumentOrder::{get, push, remove, insert_after, insert_before}     the per-document order vector
  HasContext::{order, init_order, clear_order, set_order_after, set_order_before}   (trait defaults) the per-node cache
  dom::XmlNode::order                                                  the dispatch XPath sorts and de-duplicates by

Abstract state: `ids(order) : Seq<Option<usize>>`, the live id behind every Weak entry (None = the node was dropped; A5).
Data-structure invariant `wf`: no live id occurs twice.  The key of a node is `spec_get(ids, id)` = 1 + first index
holding `Some(id)`, 0 when absent; hence keys of present nodes are non-zero and pairwise distinct (lemma_keys_distinct).
The pre-order relation between the keys and the tree (which node is inserted after which) is decided by the callers
(HasChildren::append/insert_before/..., live graph) and is NOT decided here.
"""
from vf.unit import Fn, Rule

FI = 'info/src/lib.rs'
FD = 'dom/src/lib.rs'

ENV = r'''use vstd::prelude::*;
verus! {

pub mod info {
    use vstd::prelude::*;

    // info/src/lib.rs: struct ContextInfo (real fields)
    pub struct ContextInfo {
        pub id: usize,
        pub order_cache: usize,
        pub order_version: usize,
    }

    // Singleton<ContextInfo> = Rc<RefCell<ContextInfo>> seen from DocumentOrder: only `.borrow().id` and
    // `Rc::downgrade(..)` are used on it (R11: the borrow is dropped)
    pub struct InfoRef { pub id: usize }

    // Weak<RefCell<ContextInfo>>: opaque handle; `live_id` is the id it upgrades to, None once the node is gone (A5)
    #[verifier::external_body]
    pub struct WeakInfo { p: usize }
    pub uninterp spec fn live_id(w: WeakInfo) -> Option<usize>;

    pub open spec fn ids_of(order: Seq<WeakInfo>) -> Seq<Option<usize>> {
        order.map_values(|w: WeakInfo| live_id(w))
    }

    // Rc::downgrade(info)
    #[verifier::external_body]
    pub fn shim_downgrade(info: &InfoRef) -> (r: WeakInfo)
        ensures live_id(r) == Some(info.id),
    {
        unimplemented!() /* Rc::downgrade(info) */
    }

    // self.order.iter().position(|v| v.upgrade().map(|u| u.borrow().id == id).unwrap_or_default()):
    // the assumed part is std's Iterator::position (first index satisfying the closure) ...
    #[verifier::external_body]
    pub fn std_position_by_id(order: &Vec<WeakInfo>, id: usize) -> (r: Option<usize>)
        ensures
            match r {
                Some(i) => i < order@.len() && live_id(order@[i as int]) == Some(id)
                    && (forall|j: int| 0 <= j < i ==> live_id(#[trigger] order@[j]) != Some(id)),
                None => forall|j: int| 0 <= j < order@.len() ==> live_id(#[trigger] order@[j]) != Some(id),
            },
    {
        unimplemented!() /* order.iter().position(|v| v.upgrade().map(|u| u.borrow().id == id).unwrap_or_default()) */
    }

    // ---- specification of the order vector ----
    pub open spec fn has_id(ids: Seq<Option<usize>>, id: usize) -> bool {
        exists|i: int| 0 <= i < ids.len() && #[trigger] ids[i] == Some(id)
    }
    // 1 + the first index holding Some(id); 0 when absent
    pub open spec fn spec_get(ids: Seq<Option<usize>>, id: usize) -> int
        decreases ids.len(),
    {
        if ids.len() == 0 {
            0
        } else if ids[0] == Some(id) {
            1
        } else {
            let r = spec_get(ids.subrange(1, ids.len() as int), id);
            if r == 0 { 0 } else { r + 1 }
        }
    }
    pub open spec fn wf_ids(ids: Seq<Option<usize>>) -> bool {
        forall|i: int, j: int| 0 <= i < j < ids.len() && ids[i] is Some ==> ids[i] != ids[j]
    }

    pub proof fn lemma_get_characterization(ids: Seq<Option<usize>>, id: usize)
        ensures
            0 <= spec_get(ids, id) <= ids.len(),
            spec_get(ids, id) > 0 ==> ids[spec_get(ids, id) - 1] == Some(id)
                && (forall|j: int| 0 <= j < spec_get(ids, id) - 1 ==> #[trigger] ids[j] != Some(id)),
            spec_get(ids, id) == 0 ==> (forall|j: int| 0 <= j < ids.len() ==> #[trigger] ids[j] != Some(id)),
        decreases ids.len(),
    {
        if ids.len() == 0 {
        } else if ids[0] == Some(id) {
        } else {
            let t = ids.subrange(1, ids.len() as int);
            lemma_get_characterization(t, id);
            let r = spec_get(t, id);
            if r > 0 {
                assert(t[r - 1] == ids[r]);
                assert forall|j: int| 0 <= j < r implies #[trigger] ids[j] != Some(id) by {
                    if j > 0 { assert(t[j - 1] == ids[j]); }
                }
            } else {
                assert forall|j: int| 0 <= j < ids.len() implies #[trigger] ids[j] != Some(id) by {
                    if j > 0 { assert(t[j - 1] == ids[j]); }
                }
            }
        }
    }

    // the first index is unique: whatever index satisfies the characterization is spec_get - 1
    pub proof fn lemma_get_unique(ids: Seq<Option<usize>>, id: usize, k: int)
        requires
            0 <= k < ids.len(),
            ids[k] == Some(id),
            forall|j: int| 0 <= j < k ==> #[trigger] ids[j] != Some(id),
        ensures spec_get(ids, id) == k + 1,
    {
        lemma_get_characterization(ids, id);
        let g = spec_get(ids, id);
        if g == 0 {
            assert(ids[k] != Some(id));
        } else if g - 1 < k {
            assert(ids[g - 1] != Some(id));
        } else if g - 1 > k {
            assert(ids[k] != Some(id));
        }
    }

    pub proof fn lemma_get_absent(ids: Seq<Option<usize>>, id: usize)
        requires forall|j: int| 0 <= j < ids.len() ==> #[trigger] ids[j] != Some(id),
        ensures spec_get(ids, id) == 0,
    {
        lemma_get_characterization(ids, id);
        let g = spec_get(ids, id);
        if g > 0 { assert(ids[g - 1] != Some(id)); }
    }

    // C14, first sentence (minus the pre-order clause): keys of present nodes are non-zero and pairwise distinct
    pub proof fn lemma_keys_distinct(ids: Seq<Option<usize>>, a: usize, b: usize)
        requires has_id(ids, a), has_id(ids, b), a != b,
        ensures spec_get(ids, a) > 0, spec_get(ids, b) > 0, spec_get(ids, a) != spec_get(ids, b),
    {
        lemma_get_characterization(ids, a);
        lemma_get_characterization(ids, b);
    }

    // appending never moves anybody: the keys of all other ids are unchanged (so `push` need not bump the version)
    pub proof fn lemma_push_keeps_keys(ids: Seq<Option<usize>>, x: Option<usize>, id: usize)
        requires x != Some(id),
        ensures spec_get(ids.push(x), id) == spec_get(ids, id),
    {
        lemma_get_characterization(ids, id);
        let g = spec_get(ids, id);
        let p = ids.push(x);
        if g > 0 {
            assert(p[g - 1] == ids[g - 1]);
            assert forall|j: int| 0 <= j < g - 1 implies #[trigger] p[j] != Some(id) by { assert(p[j] == ids[j]); }
            lemma_get_unique(p, id, g - 1);
        } else {
            assert forall|j: int| 0 <= j < p.len() implies #[trigger] p[j] != Some(id) by {
                if j < ids.len() { assert(p[j] == ids[j]); }
            }
            lemma_get_absent(p, id);
        }
    }

    pub proof fn lemma_push_all(ids: Seq<Option<usize>>, a: usize)
        ensures
            forall|x: usize| x != a ==> spec_get(ids.push(Some(a)), x) == #[trigger] spec_get(ids, x),
            !(spec_get(ids, a) > 0) ==> spec_get(ids.push(Some(a)), a) == ids.len() + 1,
            wf_ids(ids) && !(spec_get(ids, a) > 0) ==> wf_ids(ids.push(Some(a))),
    {
        assert forall|x: usize| x != a implies spec_get(ids.push(Some(a)), x) == #[trigger] spec_get(ids, x) by {
            lemma_push_keeps_keys(ids, Some(a), x);
        }
        let p = ids.push(Some(a));
        lemma_get_characterization(ids, a);
        if spec_get(ids, a) == 0 {
            assert forall|j: int| 0 <= j < ids.len() implies #[trigger] p[j] != Some(a) by { assert(p[j] == ids[j]); }
            lemma_get_unique(p, a, ids.len() as int);
            if wf_ids(ids) {
                assert forall|i: int, j: int| 0 <= i < j < p.len() && p[i] is Some implies p[i] != p[j] by {
                    assert(p[i] == ids[i]);
                    if j < ids.len() { assert(p[j] == ids[j]); }
                }
            }
        }
    }

    // removing the (only) occurrence of a live id from a well-formed vector
    pub proof fn lemma_remove_first(ids: Seq<Option<usize>>, id: usize)
        requires wf_ids(ids), spec_get(ids, id) > 0,
        ensures
            wf_ids(ids.remove(spec_get(ids, id) - 1)),
            spec_get(ids.remove(spec_get(ids, id) - 1), id) == 0,
            forall|x: usize| x != id ==> spec_get(ids.remove(spec_get(ids, id) - 1), x)
                == (if spec_get(ids, x) > spec_get(ids, id) { spec_get(ids, x) - 1 } else { #[trigger] spec_get(ids, x) }),
    {
        lemma_get_characterization(ids, id);
        let k = spec_get(ids, id) - 1;
        let r = ids.remove(k);
        assert forall|i: int, j: int| 0 <= i < j < r.len() && r[i] is Some implies r[i] != r[j] by {
            let i0 = if i < k { i } else { i + 1 };
            let j0 = if j < k { j } else { j + 1 };
            assert(r[i] == ids[i0] && r[j] == ids[j0]);
        }
        assert forall|j: int| 0 <= j < r.len() implies #[trigger] r[j] != Some(id) by {
            let j0 = if j < k { j } else { j + 1 };
            assert(r[j] == ids[j0]);
            if j0 > k { assert(ids[k] != ids[j0]); }
        }
        lemma_get_absent(r, id);
        assert forall|x: usize| x != id implies spec_get(r, x)
            == (if spec_get(ids, x) > spec_get(ids, id) { spec_get(ids, x) - 1 } else { #[trigger] spec_get(ids, x) }) by {
            lemma_get_characterization(ids, x);
            let g = spec_get(ids, x);
            if g == 0 {
                assert forall|j: int| 0 <= j < r.len() implies #[trigger] r[j] != Some(x) by {
                    let j0 = if j < k { j } else { j + 1 };
                    assert(r[j] == ids[j0]);
                }
                lemma_get_absent(r, x);
            } else {
                let m = g - 1;
                assert(m != k);
                let m1 = if m < k { m } else { m - 1 };
                assert(r[m1] == ids[m]);
                assert forall|j: int| 0 <= j < m1 implies #[trigger] r[j] != Some(x) by {
                    let j0 = if j < k { j } else { j + 1 };
                    assert(r[j] == ids[j0]);
                }
                lemma_get_unique(r, x, m1);
            }
        }
    }

    // inserting a fresh live id at position k of a well-formed vector
    pub proof fn lemma_insert_at(ids: Seq<Option<usize>>, k: int, a: usize)
        requires wf_ids(ids), !(spec_get(ids, a) > 0), 0 <= k <= ids.len(),
        ensures
            wf_ids(ids.insert(k, Some(a))),
            spec_get(ids.insert(k, Some(a)), a) == k + 1,
            forall|x: usize| x != a ==> spec_get(ids.insert(k, Some(a)), x)
                == (if spec_get(ids, x) > k { spec_get(ids, x) + 1 } else { #[trigger] spec_get(ids, x) }),
    {
        lemma_get_characterization(ids, a);
        let r = ids.insert(k, Some(a));
        assert forall|i: int, j: int| 0 <= i < j < r.len() && r[i] is Some implies r[i] != r[j] by {
            let i0 = if i < k { i } else { i - 1 };
            let j0 = if j < k { j } else { j - 1 };
            if i == k {
                assert(r[j] == ids[j0]);
            } else if j == k {
                assert(r[i] == ids[i0]);
            } else {
                assert(r[i] == ids[i0] && r[j] == ids[j0]);
            }
        }
        assert forall|j: int| 0 <= j < k implies #[trigger] r[j] != Some(a) by { assert(r[j] == ids[j]); }
        lemma_get_unique(r, a, k);
        assert forall|x: usize| x != a implies spec_get(r, x)
            == (if spec_get(ids, x) > k { spec_get(ids, x) + 1 } else { #[trigger] spec_get(ids, x) }) by {
            lemma_get_characterization(ids, x);
            let g = spec_get(ids, x);
            if g == 0 {
                assert forall|j: int| 0 <= j < r.len() implies #[trigger] r[j] != Some(x) by {
                    if j < k { assert(r[j] == ids[j]); } else if j > k { assert(r[j] == ids[j - 1]); }
                }
                lemma_get_absent(r, x);
            } else {
                let m = g - 1;
                let m1 = if m < k { m } else { m + 1 };
                assert(r[m1] == ids[m]);
                assert forall|j: int| 0 <= j < m1 implies #[trigger] r[j] != Some(x) by {
                    if j < k { assert(r[j] == ids[j]); } else if j > k { assert(r[j] == ids[j - 1]); }
                }
                lemma_get_unique(r, x, m1);
            }
        }
    }

    // map_values commutes with the three Vec edits used by DocumentOrder
    pub proof fn lemma_ids_edits(order: Seq<WeakInfo>, k: int, w: WeakInfo)
        ensures
            ids_of(order.push(w)) =~= ids_of(order).push(live_id(w)),
            0 <= k < order.len() ==> ids_of(order.remove(k)) =~= ids_of(order).remove(k),
            0 <= k <= order.len() ==> ids_of(order.insert(k, w)) =~= ids_of(order).insert(k, live_id(w)),
    {
    }

    // ... and the bridge to spec_get is proved, not assumed
    pub fn shim_position_by_id(order: &Vec<WeakInfo>, id: usize) -> (r: Option<usize>)
        ensures
            0 <= spec_get(ids_of(order@), id) <= order@.len(),
            r == (if spec_get(ids_of(order@), id) == 0 { None::<usize> } else { Some((spec_get(ids_of(order@), id) - 1) as usize) }),
            order@.len() <= usize::MAX,
    {
        let _n = order.len();
        let r = std_position_by_id(order, id);
        proof {
            let ids = ids_of(order@);
            lemma_get_characterization(ids, id);
            match r {
                Some(i) => {
                    assert(ids[i as int] == live_id(order@[i as int]));
                    assert forall|j: int| 0 <= j < i implies #[trigger] ids[j] != Some(id) by {
                        assert(ids[j] == live_id(order@[j]));
                    }
                    lemma_get_unique(ids, id, i as int);
                }
                None => {
                    assert forall|j: int| 0 <= j < ids.len() implies #[trigger] ids[j] != Some(id) by {
                        assert(ids[j] == live_id(order@[j]));
                    }
                    lemma_get_absent(ids, id);
                }
            }
        }
        r
    }

    pub struct DocumentOrder {
        pub order: Vec<WeakInfo>,
        pub version: usize,
    }

    impl DocumentOrder {
        pub open spec fn ids(self) -> Seq<Option<usize>> { ids_of(self.order@) }
        pub open spec fn wf(self) -> bool { wf_ids(self.ids()) }

        //@@ order_get

        //@@ order_insert_after

        //@@ order_insert_before

        //@@ order_push

        //@@ order_remove

    }
}

} // verus!
fn main() {}
'''

OWN = 'impl DocumentOrder'
PUB = Rule('R12', r'^fn ', 'pub fn ', 'visibility inside the environment module (no runtime meaning)')
R_POS = Rule('R13', r'self\.order\s*\.iter\(\)\s*\.position\(\|v\| v\.upgrade\(\)\.map\(\|u\| u\.borrow\(\)\.id == id\)\.unwrap_or_default\(\)\)',
             'shim_position_by_id(&self.order, id)', 'iter().position over Weak::upgrade -> shim: first index whose live id is `id` (A5)')
R_MAP1 = Rule('R15', r'\.map\(\|v\| v \+ 1\)', '.map(|v: usize| -> (r: usize) requires v < usize::MAX ensures r == v + 1 { v + 1 })',
              'closure doing arithmetic gets an explicit contract (specification only); the call site must establish v < usize::MAX')
R_INFOID = Rule('R11', r'info\.borrow\(\)\.id', 'info.id', 'RefCell borrow dropped (A4)')
R_DOWN = Rule('R13', r'Rc::downgrade\(info\)', 'shim_downgrade(info)', 'Rc::downgrade -> shim returning a handle whose live id is info.id')
R_SING = Rule('R11', r'&Singleton<ContextInfo>', '&InfoRef', 'Singleton<ContextInfo> (Rc<RefCell<..>>) -> environment reference type (A4)')

IDS_O = 'old(self).ids()'
IDS_N = 'final(self).ids()'


def build():
    fns = {}
    P = ['C14']
    fns['order_get'] = Fn(
        FI, OWN, 'get', props=P, sig_rules=[PUB], rules=[R_POS, R_MAP1], label='DocumentOrder::get',
        ensures=[('C14:key_is_first_index_plus_one', 'r == spec_get(self.ids(), id)'),
                 ('C14:key_in_range', 'r <= self.order@.len()')])
    VER1 = ('version_has_room', 'old(self).version < usize::MAX')
    VER2 = ('version_has_room', 'old(self).version < usize::MAX - 1')
    G = 'spec_get(old(self).ids(), id)'
    fns['order_remove'] = Fn(
        FI, OWN, 'remove', props=P, sig_rules=[PUB], label='DocumentOrder::remove', requires=[VER1],
        ensures=[('C14:absent_id_changes_nothing', f'!({G} > 0) ==> r is None && {IDS_N} =~= {IDS_O} && final(self).version == old(self).version'),
                 ('C14:removes_exactly_that_entry', f'{G} > 0 ==> r == Some(final(self).version) && final(self).version == old(self).version + 1 && {IDS_N} =~= {IDS_O}.remove({G} - 1)'),
                 ('C14:keeps_ids_unique', 'old(self).wf() ==> final(self).wf()'),
                 ('C14:removed_id_has_no_key', f'old(self).wf() ==> !(spec_get({IDS_N}, id) > 0)'),
                 ('C14:later_keys_move_down_by_one', f'old(self).wf() && {G} > 0 ==> forall|x: usize| x != id ==> spec_get({IDS_N}, x) == (if spec_get({IDS_O}, x) > {G} {{ spec_get({IDS_O}, x) - 1 }} else {{ #[trigger] spec_get({IDS_O}, x) }})')],
        inject=[(r'self\.version \+= 1;', 'proof { lemma_ids_edits(old(self).order@, (' + G + ' - 1) as int, arbitrary()); if old(self).wf() { lemma_remove_first(' + IDS_O + ', id); } }'),
                (r'^\s*None\s*$', 'proof { }', 'before')])
    fns['order_push'] = Fn(
        FI, OWN, 'push', props=P, sig_rules=[PUB, R_SING], rules=[R_DOWN], label='DocumentOrder::push',
        ensures=[('C14:appends_the_id', f'{IDS_N} =~= {IDS_O}.push(Some(info.id))'),
                 ('C14:returns_new_length_and_unchanged_version', 'r == (final(self).order@.len() as usize, old(self).version) && final(self).version == old(self).version && final(self).order@.len() == old(self).order@.len() + 1'),
                 ('C14:fresh_id_gets_the_last_key', f'!(spec_get({IDS_O}, info.id) > 0) ==> spec_get({IDS_N}, info.id) == r.0'),
                 ('C14:other_keys_do_not_move', f'forall|x: usize| x != info.id ==> spec_get({IDS_N}, x) == #[trigger] spec_get({IDS_O}, x)'),
                 ('C14:keeps_ids_unique', f'old(self).wf() && !(spec_get({IDS_O}, info.id) > 0) ==> final(self).wf()')],
        inject=[(r'self\.order\.push\(', 'proof { let w = self.order@.last(); lemma_ids_edits(old(self).order@, 0, w); lemma_push_all(' + IDS_O + ', info.id); }')])
    A = 'info.id'
    IDS1 = f'(if spec_get({IDS_O}, {A}) > 0 {{ {IDS_O}.remove(spec_get({IDS_O}, {A}) - 1) }} else {{ {IDS_O} }})'
    G1 = f'spec_get({IDS1}, id)'
    for (key, name, at, k, rel) in (
            ('order_insert_after', 'insert_after', f'{G1}', 'order as int', 'spec_get(final(self).ids(), info.id) == spec_get(final(self).ids(), id) + 1'),
            ('order_insert_before', 'insert_before', f'({G1} - 1)', '(order - 1) as int', 'spec_get(final(self).ids(), info.id) + 1 == spec_get(final(self).ids(), id)')):
        fns[key] = Fn(
            FI, OWN, name, props=P, sig_rules=[PUB, R_SING], rules=[R_DOWN, R_INFOID], label=f'DocumentOrder::{name}',
            requires=[VER2, ('ids_unique', 'old(self).wf()')],
            ensures=[('C14:reference_present_succeeds', f'{G1} > 0 && id != {A} ==> r is Some && final(self).version > old(self).version'),
                     ('C14:inserts_next_to_reference', f'r is Some ==> {IDS_N} =~= {IDS1}.insert({at}, Some({A}))'),
                     ('C14:failed_call_changes_nothing', f'r is None ==> {IDS_N} =~= {IDS_O} && final(self).version == old(self).version'),
                     ('C14:fails_only_without_reference', f'r is None ==> !(spec_get({IDS_O}, id) > 0) || id == {A}'),
                     ('C14:keeps_ids_unique', 'final(self).wf()'),
                     ('C14:key_is_adjacent_to_reference', f'r is Some ==> {rel}')],
            inject=[(r'^\s*return None;', 'proof { if spec_get(self.ids(), info.id) > 0 { lemma_remove_first(self.ids(), info.id); } }', 'before optional'),
                    (r'let order = self\.get\(id\);', 'let ghost __o1 = self.order@;'),
                    (r'self\.version \+= 1;', f'proof {{ lemma_ids_edits(__o1, {k}, self.order@[{k}]); lemma_insert_at(ids_of(__o1), {k}, info.id); }}')])
    return ENV, fns


TEMPLATE, FNS = build()
UNIT = dict(name='c14_order', template=TEMPLATE, fns=FNS, props=['C14'])
