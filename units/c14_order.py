"""C14, the `DocumentOrder` layer (info/src/lib.rs) and the order-key accessors built on it.

  DocumentOrder::{get, push, remove, insert_after, insert_before}     the per-document order vector
  HasContext::{order, init_order, clear_order, set_order_after, set_order_before}   (trait defaults) the per-node cache
  dom::XmlNode::order                                                  the dispatch XPath sorts and de-duplicates by

Abstract state: `ids(order) : Seq<Option<usize>>`, the live id behind every Weak entry (None = the node was dropped; A5).
Data-structure invariant `wf`: no live id occurs twice.  The key of a node is `spec_get(ids, id)` = 1 + first index
holding `Some(id)`, 0 when absent; hence keys of present nodes are non-zero and pairwise distinct (lemma_keys_distinct).
The pre-order relation between the keys and the tree (which node is inserted after which) is decided by the callers
(HasChildren::append/insert_before/..., live graph) and is NOT decided here.
"""
from vf.unit import Fn, Rule

FI = 'info/src/lib.rs'
FD = 'dom/src/lib.rs'

ENV = r'''use vstd::prelude::*;
verus! {

pub mod info {
    use vstd::prelude::*;

    // info/src/lib.rs: struct ContextInfo (real fields)
    pub struct ContextInfo {
        pub id: usize,
        pub order_cache: usize,
        pub order_version: usize,
    }

    pub mod keyspec {
    use vstd::prelude::*;
    // 1 + the first index holding Some(id); 0 when absent
    pub open spec fn spec_get(ids: Seq<Option<usize>>, id: usize) -> int
        decreases ids.len(),
    {
        if ids.len() == 0 {
            0
        } else if ids[0] == Some(id) {
            1
        } else {
            let r = spec_get(ids.subrange(1, ids.len() as int), id);
            if r == 0 { 0 } else { r + 1 }
        }
    }
    pub broadcast proof fn lemma_get_nonneg(ids: Seq<Option<usize>>, id: usize)
        ensures 0 <= #[trigger] spec_get(ids, id),
        decreases ids.len(),
    {
        if ids.len() > 0 && ids[0] != Some(id) {
            lemma_get_nonneg(ids.subrange(1, ids.len() as int), id);
        }
    }

    }
    use keyspec::*;
    broadcast use keyspec::lemma_get_nonneg;

    // Singleton<ContextInfo> = Rc<RefCell<ContextInfo>> seen from DocumentOrder: only `.borrow().id` and
    // `Rc::downgrade(..)` are used on it (R11: the borrow is dropped, the reference is a plain &ContextInfo)
    pub type InfoRef = ContextInfo;

    // Weak<RefCell<ContextInfo>>: opaque handle; `live_id` is the id it upgrades to, None once the node is gone (A5)
    #[verifier::external_body]
    pub struct WeakInfo { p: usize }
    pub uninterp spec fn live_id(w: WeakInfo) -> Option<usize>;

    pub open spec fn ids_of(order: Seq<WeakInfo>) -> Seq<Option<usize>> {
        order.map_values(|w: WeakInfo| live_id(w))
    }

    // Rc::downgrade(info)
    #[verifier::external_body]
    pub fn shim_downgrade(info: &InfoRef) -> (r: WeakInfo)
        ensures live_id(r) == Some(info.id),
    {
        unimplemented!() /* Rc::downgrade(info) */
    }

    // self.order.iter().position(|v| v.upgrade().map(|u| u.borrow().id == id).unwrap_or_default()):
    // the assumed part is std's Iterator::position (first index satisfying the closure) ...
    #[verifier::external_body]
    pub fn std_position_by_id(order: &Vec<WeakInfo>, id: usize) -> (r: Option<usize>)
        ensures
            match r {
                Some(i) => i < order@.len() && live_id(order@[i as int]) == Some(id)
                    && (forall|j: int| 0 <= j < i ==> live_id(#[trigger] order@[j]) != Some(id)),
                None => forall|j: int| 0 <= j < order@.len() ==> live_id(#[trigger] order@[j]) != Some(id),
            },
    {
        unimplemented!() /* order.iter().position(|v| v.upgrade().map(|u| u.borrow().id == id).unwrap_or_default()) */
    }

    // ---- specification of the order vector ----
    pub open spec fn has_id(ids: Seq<Option<usize>>, id: usize) -> bool {
        exists|i: int| 0 <= i < ids.len() && #[trigger] ids[i] == Some(id)
    }
    pub open spec fn wf_ids(ids: Seq<Option<usize>>) -> bool {
        forall|i: int, j: int| 0 <= i < j < ids.len() && ids[i] is Some ==> ids[i] != ids[j]
    }

    pub proof fn lemma_get_characterization(ids: Seq<Option<usize>>, id: usize)
        ensures
            0 <= spec_get(ids, id) <= ids.len(),
            spec_get(ids, id) > 0 ==> ids[spec_get(ids, id) - 1] == Some(id)
                && (forall|j: int| 0 <= j < spec_get(ids, id) - 1 ==> #[trigger] ids[j] != Some(id)),
            spec_get(ids, id) == 0 ==> (forall|j: int| 0 <= j < ids.len() ==> #[trigger] ids[j] != Some(id)),
        decreases ids.len(),
    {
        if ids.len() == 0 {
        } else if ids[0] == Some(id) {
        } else {
            let t = ids.subrange(1, ids.len() as int);
            lemma_get_characterization(t, id);
            let r = spec_get(t, id);
            if r > 0 {
                assert(t[r - 1] == ids[r]);
                assert forall|j: int| 0 <= j < r implies #[trigger] ids[j] != Some(id) by {
                    if j > 0 { assert(t[j - 1] == ids[j]); }
                }
            } else {
                assert forall|j: int| 0 <= j < ids.len() implies #[trigger] ids[j] != Some(id) by {
                    if j > 0 { assert(t[j - 1] == ids[j]); }
                }
            }
        }
    }

    // the first index is unique: whatever index satisfies the characterization is spec_get - 1
    pub proof fn lemma_get_unique(ids: Seq<Option<usize>>, id: usize, k: int)
        requires
            0 <= k < ids.len(),
            ids[k] == Some(id),
            forall|j: int| 0 <= j < k ==> #[trigger] ids[j] != Some(id),
        ensures spec_get(ids, id) == k + 1,
    {
        lemma_get_characterization(ids, id);
        let g = spec_get(ids, id);
        if g == 0 {
            assert(ids[k] != Some(id));
        } else if g - 1 < k {
            assert(ids[g - 1] != Some(id));
        } else if g - 1 > k {
            assert(ids[k] != Some(id));
        }
    }

    pub proof fn lemma_get_absent(ids: Seq<Option<usize>>, id: usize)
        requires forall|j: int| 0 <= j < ids.len() ==> #[trigger] ids[j] != Some(id),
        ensures spec_get(ids, id) == 0,
    {
        lemma_get_characterization(ids, id);
        let g = spec_get(ids, id);
        if g > 0 { assert(ids[g - 1] != Some(id)); }
    }

    // C14, first sentence (minus the pre-order clause): keys of present nodes are non-zero and pairwise distinct
    pub proof fn lemma_keys_distinct(ids: Seq<Option<usize>>, a: usize, b: usize)
        requires has_id(ids, a), has_id(ids, b), a != b,
        ensures spec_get(ids, a) > 0, spec_get(ids, b) > 0, spec_get(ids, a) != spec_get(ids, b),
    {
        lemma_get_characterization(ids, a);
        lemma_get_characterization(ids, b);
    }

    // appending never moves anybody: the keys of all other ids are unchanged (so `push` need not bump the version)
    pub proof fn lemma_push_keeps_keys(ids: Seq<Option<usize>>, x: Option<usize>, id: usize)
        requires x != Some(id),
        ensures spec_get(ids.push(x), id) == spec_get(ids, id),
    {
        lemma_get_characterization(ids, id);
        let g = spec_get(ids, id);
        let p = ids.push(x);
        if g > 0 {
            assert(p[g - 1] == ids[g - 1]);
            assert forall|j: int| 0 <= j < g - 1 implies #[trigger] p[j] != Some(id) by { assert(p[j] == ids[j]); }
            lemma_get_unique(p, id, g - 1);
        } else {
            assert forall|j: int| 0 <= j < p.len() implies #[trigger] p[j] != Some(id) by {
                if j < ids.len() { assert(p[j] == ids[j]); }
            }
            lemma_get_absent(p, id);
        }
    }

    pub proof fn lemma_push_all(ids: Seq<Option<usize>>, a: usize)
        ensures
            forall|x: usize| x != a ==> spec_get(ids.push(Some(a)), x) == #[trigger] spec_get(ids, x),
            !(spec_get(ids, a) > 0) ==> spec_get(ids.push(Some(a)), a) == ids.len() + 1,
            wf_ids(ids) && !(spec_get(ids, a) > 0) ==> wf_ids(ids.push(Some(a))),
    {
        assert forall|x: usize| x != a implies spec_get(ids.push(Some(a)), x) == #[trigger] spec_get(ids, x) by {
            lemma_push_keeps_keys(ids, Some(a), x);
        }
        let p = ids.push(Some(a));
        lemma_get_characterization(ids, a);
        if spec_get(ids, a) == 0 {
            assert forall|j: int| 0 <= j < ids.len() implies #[trigger] p[j] != Some(a) by { assert(p[j] == ids[j]); }
            lemma_get_unique(p, a, ids.len() as int);
            if wf_ids(ids) {
                assert forall|i: int, j: int| 0 <= i < j < p.len() && p[i] is Some implies p[i] != p[j] by {
                    assert(p[i] == ids[i]);
                    if j < ids.len() { assert(p[j] == ids[j]); }
                }
            }
        }
    }

    // removing the (only) occurrence of a live id from a well-formed vector
    pub proof fn lemma_remove_first(ids: Seq<Option<usize>>, id: usize)
        requires wf_ids(ids), spec_get(ids, id) > 0,
        ensures
            wf_ids(ids.remove(spec_get(ids, id) - 1)),
            spec_get(ids.remove(spec_get(ids, id) - 1), id) == 0,
            forall|x: usize| x != id ==> spec_get(ids.remove(spec_get(ids, id) - 1), x)
                == (if spec_get(ids, x) > spec_get(ids, id) { spec_get(ids, x) - 1 } else { #[trigger] spec_get(ids, x) }),
    {
        lemma_get_characterization(ids, id);
        let k = spec_get(ids, id) - 1;
        let r = ids.remove(k);
        assert forall|i: int, j: int| 0 <= i < j < r.len() && r[i] is Some implies r[i] != r[j] by {
            let i0 = if i < k { i } else { i + 1 };
            let j0 = if j < k { j } else { j + 1 };
            assert(r[i] == ids[i0] && r[j] == ids[j0]);
        }
        assert forall|j: int| 0 <= j < r.len() implies #[trigger] r[j] != Some(id) by {
            let j0 = if j < k { j } else { j + 1 };
            assert(r[j] == ids[j0]);
            if j0 > k { assert(ids[k] != ids[j0]); }
        }
        lemma_get_absent(r, id);
        assert forall|x: usize| x != id implies spec_get(r, x)
            == (if spec_get(ids, x) > spec_get(ids, id) { spec_get(ids, x) - 1 } else { #[trigger] spec_get(ids, x) }) by {
            lemma_get_characterization(ids, x);
            let g = spec_get(ids, x);
            if g == 0 {
                assert forall|j: int| 0 <= j < r.len() implies #[trigger] r[j] != Some(x) by {
                    let j0 = if j < k { j } else { j + 1 };
                    assert(r[j] == ids[j0]);
                }
                lemma_get_absent(r, x);
            } else {
                let m = g - 1;
                assert(m != k);
                let m1 = if m < k { m } else { m - 1 };
                assert(r[m1] == ids[m]);
                assert forall|j: int| 0 <= j < m1 implies #[trigger] r[j] != Some(x) by {
                    let j0 = if j < k { j } else { j + 1 };
                    assert(r[j] == ids[j0]);
                }
                lemma_get_unique(r, x, m1);
            }
        }
    }

    // inserting a fresh live id at position k of a well-formed vector
    pub proof fn lemma_insert_at(ids: Seq<Option<usize>>, k: int, a: usize)
        requires wf_ids(ids), !(spec_get(ids, a) > 0), 0 <= k <= ids.len(),
        ensures
            wf_ids(ids.insert(k, Some(a))),
            spec_get(ids.insert(k, Some(a)), a) == k + 1,
            forall|x: usize| x != a ==> spec_get(ids.insert(k, Some(a)), x)
                == (if spec_get(ids, x) > k { spec_get(ids, x) + 1 } else { #[trigger] spec_get(ids, x) }),
    {
        lemma_get_characterization(ids, a);
        let r = ids.insert(k, Some(a));
        assert forall|i: int, j: int| 0 <= i < j < r.len() && r[i] is Some implies r[i] != r[j] by {
            let i0 = if i < k { i } else { i - 1 };
            let j0 = if j < k { j } else { j - 1 };
            if i == k {
                assert(r[j] == ids[j0]);
            } else if j == k {
                assert(r[i] == ids[i0]);
            } else {
                assert(r[i] == ids[i0] && r[j] == ids[j0]);
            }
        }
        assert forall|j: int| 0 <= j < k implies #[trigger] r[j] != Some(a) by { assert(r[j] == ids[j]); }
        lemma_get_unique(r, a, k);
        assert forall|x: usize| x != a implies spec_get(r, x)
            == (if spec_get(ids, x) > k { spec_get(ids, x) + 1 } else { #[trigger] spec_get(ids, x) }) by {
            lemma_get_characterization(ids, x);
            let g = spec_get(ids, x);
            if g == 0 {
                assert forall|j: int| 0 <= j < r.len() implies #[trigger] r[j] != Some(x) by {
                    if j < k { assert(r[j] == ids[j]); } else if j > k { assert(r[j] == ids[j - 1]); }
                }
                lemma_get_absent(r, x);
            } else {
                let m = g - 1;
                let m1 = if m < k { m } else { m + 1 };
                assert(r[m1] == ids[m]);
                assert forall|j: int| 0 <= j < m1 implies #[trigger] r[j] != Some(x) by {
                    if j < k { assert(r[j] == ids[j]); } else if j > k { assert(r[j] == ids[j - 1]); }
                }
                lemma_get_unique(r, x, m1);
            }
        }
    }

    // map_values commutes with the three Vec edits used by DocumentOrder
    pub proof fn lemma_ids_edits(order: Seq<WeakInfo>, k: int, w: WeakInfo)
        ensures
            ids_of(order.push(w)) =~= ids_of(order).push(live_id(w)),
            0 <= k < order.len() ==> ids_of(order.remove(k)) =~= ids_of(order).remove(k),
            0 <= k <= order.len() ==> ids_of(order.insert(k, w)) =~= ids_of(order).insert(k, live_id(w)),
    {
    }

    // ... and the bridge to spec_get is proved, not assumed
    pub fn shim_position_by_id(order: &Vec<WeakInfo>, id: usize) -> (r: Option<usize>)
        ensures
            0 <= spec_get(ids_of(order@), id) <= order@.len(),
            r == (if spec_get(ids_of(order@), id) == 0 { None::<usize> } else { Some((spec_get(ids_of(order@), id) - 1) as usize) }),
            order@.len() <= usize::MAX,
    {
        let _n = order.len();
        let r = std_position_by_id(order, id);
        proof {
            let ids = ids_of(order@);
            lemma_get_characterization(ids, id);
            match r {
                Some(i) => {
                    assert(ids[i as int] == live_id(order@[i as int]));
                    assert forall|j: int| 0 <= j < i implies #[trigger] ids[j] != Some(id) by {
                        assert(ids[j] == live_id(order@[j]));
                    }
                    lemma_get_unique(ids, id, i as int);
                }
                None => {
                    assert forall|j: int| 0 <= j < ids.len() implies #[trigger] ids[j] != Some(id) by {
                        assert(ids[j] == live_id(order@[j]));
                    }
                    lemma_get_absent(ids, id);
                }
            }
        }
        r
    }

    pub struct DocumentOrder {
        pub order: Vec<WeakInfo>,
        pub version: usize,
    }

    impl DocumentOrder {
        pub open spec fn ids(self) -> Seq<Option<usize>> { ids_of(self.order@) }
        pub open spec fn wf(self) -> bool { wf_ids(self.ids()) }

        //@@ order_get

        //@@ order_insert_after

        //@@ order_insert_before

        //@@ order_push

        //@@ order_remove
    }

    // ---- the per-node side: HasContext trait defaults over a receiver that owns its Context (R11/R14: the
    //      RefCells of `info` and `ordering` are dropped, `&self` becomes `&mut self`; A4) ----
    pub struct Context {
        pub info: ContextInfo,
        pub ordering: DocumentOrder,
    }
    pub struct Item { pub ctx: Context }

    // Rc::clone of the node's own info handle: the same ContextInfo
    #[verifier::external_body]
    pub fn shim_info_handle(info: &ContextInfo) -> (r: ContextInfo)
        ensures r == *info,
    {
        unimplemented!() /* self.context().info.clone() */
    }

    // the cached key of a node is usable iff its version stamp is the order's current version
    pub open spec fn coherent(info: ContextInfo, ordering: DocumentOrder) -> bool {
        info.order_version <= ordering.version
            && (info.order_version == ordering.version ==> info.order_cache == spec_get(ordering.ids(), info.id))
    }

    impl Item {
        //@@ hc_clear_order

        //@@ hc_init_order

        //@@ hc_order

        //@@ hc_set_order_after

        //@@ hc_set_order_before
    }
}

// =====================================================================================================
// dom/src/lib.rs: XmlNode::order -- the key XPath sorts and de-duplicates by.  Payload structs carry their real
// field names; an information item handle (info::XmlNode<T> = Rc<RefCell<T>>) is an opaque value with a ghost key.
// =====================================================================================================
pub mod dom {
    use vstd::prelude::*;

    pub struct InfoItem { pub key: usize }
    impl InfoItem {
        // info::HasContext::order on the borrowed item (verified above as HasContext::order)
        #[verifier::external_body]
        pub fn order(&self) -> (r: usize)
            ensures r == self.key,
        {
            unimplemented!()
        }
    }

    pub struct XmlAttr { pub attribute: InfoItem }
    pub struct XmlCDataSection { pub data: InfoItem }
    pub struct XmlComment { pub data: InfoItem }
    pub struct XmlDocument { pub document: InfoItem }
    pub struct XmlDocumentFragment { pub document: InfoItem }
    pub struct XmlDocumentType { pub declaration: InfoItem }
    pub struct XmlElement { pub element: InfoItem }
    pub struct XmlEntity { pub entity: InfoItem }
    pub struct XmlEntityReference { pub value: InfoItem }
    impl XmlEntityReference {
        #[verifier::external_body]
        pub fn inner(&self) -> (r: &InfoItem)
            ensures *r == self.value,
        {
            unimplemented!()
        }
    }
    pub struct XmlNamespace { pub namespace: InfoItem }
    pub struct XmlNotation { pub notation: InfoItem }
    pub struct XmlProcessingInstruction { pub pi: InfoItem }
    pub struct XmlText { pub data: InfoItem }
    // the merged-text view holds the (non-empty) run of text-like nodes it stands for; in /repo the elements are
    // XmlNode values and `order` recurses into the first one -- here they are item handles (one level, no recursion)
    pub struct XmlExpandedText { pub data: Vec<InfoItem> }

    pub enum XmlNode {
        Element(XmlElement),
        Attribute(XmlAttr),
        Text(XmlText),
        CData(XmlCDataSection),
        EntityReference(XmlEntityReference),
        Entity(XmlEntity),
        PI(XmlProcessingInstruction),
        Comment(XmlComment),
        Document(XmlDocument),
        DocumentType(XmlDocumentType),
        DocumentFragment(XmlDocumentFragment),
        Notation(XmlNotation),
        Namespace(XmlNamespace),
        ExpandedText(XmlExpandedText),
    }

    // the key of the information item a node of the document tree stands for (entities and notations hang off the
    // DOCTYPE, not the tree: no key is demanded for them)
    pub open spec fn item_key(n: XmlNode) -> usize {
        match n {
            XmlNode::Element(v) => v.element.key,
            XmlNode::Attribute(v) => v.attribute.key,
            XmlNode::Text(v) => v.data.key,
            XmlNode::CData(v) => v.data.key,
            XmlNode::EntityReference(v) => v.value.key,
            XmlNode::PI(v) => v.pi.key,
            XmlNode::Comment(v) => v.data.key,
            XmlNode::Document(v) => v.document.key,
            XmlNode::DocumentType(v) => v.declaration.key,
            XmlNode::DocumentFragment(v) => v.document.key,
            XmlNode::Namespace(v) => v.namespace.key,
            XmlNode::ExpandedText(v) => v.data@[0].key,
            XmlNode::Entity(_) => 0,
            XmlNode::Notation(_) => 0,
        }
    }

    impl XmlNode {
        //@@ dom_node_order
    }
}

} // verus!
fn main() {}
'''

OWN = 'impl DocumentOrder'
PUB = Rule('R12', r'^fn ', 'pub fn ', 'visibility inside the environment module (no runtime meaning)')
R_POS = Rule('R13', r'self\.order\s*\.iter\(\)\s*\.position\(\|v\| v\.upgrade\(\)\.map\(\|u\| u\.borrow\(\)\.id == id\)\.unwrap_or_default\(\)\)',
             'shim_position_by_id(&self.order, id)', 'iter().position over Weak::upgrade -> shim: first index whose live id is `id` (A5)')
R_MAP1 = Rule('R15', r'\.map\(\|v\| v \+ 1\)', '.map(|v: usize| -> (r: usize) requires v < usize::MAX ensures r == v + 1 { v + 1 })',
              'closure doing arithmetic gets an explicit contract (specification only); the call site must establish v < usize::MAX')
R_INFOID = Rule('R11', r'info\.borrow\(\)\.id', 'info.id', 'RefCell borrow dropped (A4)')
R_DOWN = Rule('R13', r'Rc::downgrade\(info\)', 'shim_downgrade(info)', 'Rc::downgrade -> shim returning a handle whose live id is info.id')
R_SING = Rule('R11', r'&Singleton<ContextInfo>', '&InfoRef', 'Singleton<ContextInfo> (Rc<RefCell<..>>) -> environment reference type (A4)')

IDS_O = 'old(self).ids()'
IDS_N = 'final(self).ids()'


def build():
    fns = {}
    P = ['C14']
    fns['order_get'] = Fn(
        FI, OWN, 'get', props=P, sig_rules=[PUB], rules=[R_POS, R_MAP1], label='DocumentOrder::get',
        ensures=[('C14:key_is_first_index_plus_one', 'r == spec_get(self.ids(), id)'),
                 ('C14:key_in_range', 'r <= self.order@.len()')])
    VER1 = ('version_has_room', 'old(self).version < usize::MAX')
    VER2 = ('version_has_room', 'old(self).version < usize::MAX - 1')
    G = 'spec_get(old(self).ids(), id)'
    fns['order_remove'] = Fn(
        FI, OWN, 'remove', props=P, sig_rules=[PUB], label='DocumentOrder::remove', requires=[VER1],
        ensures=[('C14:absent_id_changes_nothing', f'!({G} > 0) ==> r is None && {IDS_N} =~= {IDS_O} && final(self).version == old(self).version'),
                 ('C14:removes_exactly_that_entry', f'{G} > 0 ==> r == Some(final(self).version) && final(self).version == old(self).version + 1 && {IDS_N} =~= {IDS_O}.remove({G} - 1)'),
                 ('C14:keeps_ids_unique', 'old(self).wf() ==> final(self).wf()'),
                 ('C14:removed_id_has_no_key', f'old(self).wf() ==> !(spec_get({IDS_N}, id) > 0)'),
                 ('C14:later_keys_move_down_by_one', f'old(self).wf() && {G} > 0 ==> forall|x: usize| x != id ==> spec_get({IDS_N}, x) == (if spec_get({IDS_O}, x) > {G} {{ spec_get({IDS_O}, x) - 1 }} else {{ #[trigger] spec_get({IDS_O}, x) }})')],
        inject=[(r'self\.order\.remove\(', 'proof { lemma_ids_edits(old(self).order@, (' + G + ' - 1) as int, arbitrary()); if old(self).wf() { lemma_remove_first(' + IDS_O + ', id); } }'),
                ])
    fns['order_push'] = Fn(
        FI, OWN, 'push', props=P, sig_rules=[PUB, R_SING], rules=[R_DOWN], label='DocumentOrder::push',
        ensures=[('C14:appends_the_id', f'{IDS_N} =~= {IDS_O}.push(Some(info.id))'),
                 ('C14:returns_new_length_and_unchanged_version', 'r.0 == final(self).order@.len() && r.1 == old(self).version && final(self).version == old(self).version && final(self).order@.len() == old(self).order@.len() + 1'),
                 ('C14:fresh_id_gets_the_last_key', f'!(spec_get({IDS_O}, info.id) > 0) ==> spec_get({IDS_N}, info.id) == r.0'),
                 ('C14:other_keys_do_not_move', f'forall|x: usize| x != info.id ==> spec_get({IDS_N}, x) == #[trigger] spec_get({IDS_O}, x)'),
                 ('C14:keeps_ids_unique', f'old(self).wf() && !(spec_get({IDS_O}, info.id) > 0) ==> final(self).wf()')],
        inject=[(r'self\.order\.push\(', 'proof { let w = self.order@.last(); lemma_ids_edits(old(self).order@, 0, w); lemma_push_all(' + IDS_O + ', info.id); }')])
    A = 'info.id'
    IDS1 = f'(if spec_get({IDS_O}, {A}) > 0 {{ {IDS_O}.remove(spec_get({IDS_O}, {A}) - 1) }} else {{ {IDS_O} }})'
    G1 = f'spec_get({IDS1}, id)'
    for (key, name, at, k, rel) in (
            ('order_insert_after', 'insert_after', f'{G1}', 'order as int', 'spec_get(final(self).ids(), info.id) == spec_get(final(self).ids(), id) + 1'),
            ('order_insert_before', 'insert_before', f'({G1} - 1)', '(order - 1) as int', 'spec_get(final(self).ids(), info.id) + 1 == spec_get(final(self).ids(), id)')):
        fns[key] = Fn(
            FI, OWN, name, props=P, sig_rules=[PUB, R_SING], rules=[R_DOWN, R_INFOID], label=f'DocumentOrder::{name}',
            requires=[VER2, ('ids_unique', 'old(self).wf()')],
            ensures=[('C14:reference_present_succeeds', f'{G1} > 0 && id != {A} ==> r is Some && final(self).version > old(self).version'),
                     ('C14:inserts_next_to_reference', f'r is Some ==> {IDS_N} =~= {IDS1}.insert({at}, Some({A}))'),
                     ('C14:failed_call_changes_nothing', f'r is None ==> {IDS_N} =~= {IDS_O} && final(self).version == old(self).version'),
                     ('C14:success_bumps_version', 'r is Some ==> final(self).version > old(self).version'),
                     ('C14:fails_only_without_reference', f'r is None ==> !(spec_get({IDS_O}, id) > 0) || id == {A}'),
                     ('C14:keeps_ids_unique', 'final(self).wf()'),
                     ('C14:key_is_adjacent_to_reference', f'r is Some ==> {rel}')],
            inject=[(r'^\s*return None;', 'proof { if spec_get(self.ids(), info.id) > 0 { lemma_remove_first(self.ids(), info.id); } }', 'before optional'),
                    (r'let order = self\.get\(id\);', 'let ghost __o1 = self.order@;'),
                    (r'self\.order\.insert\(', f'proof {{ lemma_ids_edits(__o1, {k}, self.order@[{k}]); lemma_insert_at(ids_of(__o1), {k}, info.id); }}')])
    TR = 'pub trait HasContext'
    R_CTX = Rule('R11', r'self\s*\.context\(\)\s*\.', 'self.ctx.', 'self.context() -> the receiver\'s own Context field')
    R_BOR = Rule('R11', r'\.borrow(?:_mut)?\(\)\s*\.', '.', 'RefCell borrow dropped (A4)')
    R_MUT = Rule('R14', r'\(&self\b', '(&mut self', '&self of a method that mutates through RefCell -> &mut self (A4)')
    R_HANDLE = Rule('R11', r'self\.ctx\.info\.clone\(\)', 'shim_info_handle(&self.ctx.info)', 'Rc::clone of the info handle -> the same ContextInfo')
    R_PUSHARG = Rule('R11', r'\.push\(&self\.ctx\.info\)', '.push(&self.ctx.info)', 'unchanged')
    HR = [R_CTX, R_BOR, R_HANDLE]
    OC = 'old(self).ctx'
    NC = 'final(self).ctx'
    COH_IN = ('cache_coherent', 'coherent(old(self).ctx.info, old(self).ctx.ordering)')
    WF_IN = ('ids_unique', 'old(self).ctx.ordering.wf()')
    COH = ('C14:cache_stays_coherent', f'coherent({NC}.info, {NC}.ordering) && {NC}.info.id == {OC}.info.id')
    OTHERS = ('C14:other_nodes_caches_stay_coherent', f'forall|j: ContextInfo| j.id != {OC}.info.id && #[trigger] coherent(j, {OC}.ordering) ==> coherent(j, {NC}.ordering)')
    WF_OUT = ('C14:keeps_ids_unique', f'{NC}.ordering.wf()')
    fns['hc_order'] = Fn(
        FI, TR, 'order', props=P, sig_rules=[PUB, R_MUT], rules=HR, label='HasContext::order (trait default)',
        requires=[COH_IN],
        ensures=[('C14:returns_the_current_key', f'r == spec_get({OC}.ordering.ids(), {OC}.info.id)'),
                 ('C14:order_vector_untouched', f'{NC}.ordering == {OC}.ordering'), COH])
    fns['hc_init_order'] = Fn(
        FI, TR, 'init_order', props=P, sig_rules=[PUB, R_MUT], rules=HR, label='HasContext::init_order (trait default)',
        requires=[WF_IN, ('not_numbered_yet', f'!(spec_get({OC}.ordering.ids(), {OC}.info.id) > 0)')],
        ensures=[('C14:appended_with_the_last_key', f'{NC}.ordering.ids() =~= {OC}.ordering.ids().push(Some({OC}.info.id)) && spec_get({NC}.ordering.ids(), {OC}.info.id) == {OC}.ordering.ids().len() + 1'),
                 COH, OTHERS, WF_OUT])
    fns['hc_clear_order'] = Fn(
        FI, TR, 'clear_order', props=P, sig_rules=[PUB, R_MUT], rules=HR, label='HasContext::clear_order (trait default)',
        requires=[WF_IN, COH_IN, ('version_has_room', f'{OC}.ordering.version < usize::MAX')],
        ensures=[('C14:node_has_no_key_afterwards', f'!(spec_get({NC}.ordering.ids(), {OC}.info.id) > 0)'), COH, OTHERS, WF_OUT])
    for (key, name, rel) in (('hc_set_order_after', 'set_order_after', f'spec_get({NC}.ordering.ids(), {OC}.info.id) == spec_get({NC}.ordering.ids(), id) + 1'),
                             ('hc_set_order_before', 'set_order_before', f'spec_get({NC}.ordering.ids(), {OC}.info.id) + 1 == spec_get({NC}.ordering.ids(), id)')):
        fns[key] = Fn(
            FI, TR, name, props=P, sig_rules=[PUB, R_MUT], rules=HR, label=f'HasContext::{name} (trait default)',
            requires=[WF_IN, COH_IN, ('version_has_room', f'{OC}.ordering.version < usize::MAX - 1')],
            ensures=[('C14:returns_the_new_key_next_to_the_reference', f'r is Some ==> r->Some_0 == spec_get({NC}.ordering.ids(), {OC}.info.id) && {rel}'),
                     ('C14:refused_call_changes_nothing', f'r is None ==> {NC}.ordering.ids() =~= {OC}.ordering.ids() && {NC}.ordering.version == {OC}.ordering.version && {NC}.info == {OC}.info'),
                     COH, OTHERS, WF_OUT])
    fns['dom_node_order'] = Fn(
        FD, 'impl XmlNode', 'order', props=P, sig_rules=[PUB], rules=[Rule('R11', r'\.borrow\(\)\.order\(\)', '.order()', 'RefCell borrow dropped (A4)')],
        label='dom::XmlNode::order',
        requires=[('expanded_text_is_non_empty', 'self is ExpandedText ==> self->ExpandedText_0.data@.len() > 0')],
        ensures=[('C14:key_of_the_underlying_item', '!(self is Entity) && !(self is Notation) ==> r == item_key(*self)')])
    return ENV, fns


TEMPLATE, FNS = build()
UNIT = dict(name='c14_order', template=TEMPLATE, fns=FNS, props=['C14'])
