"""C12, sibling navigation: `XmlNode::previous_sibling_child` / `next_sibling_child` (dom/src/lib.rs) -- what
`previous_sibling()` / `next_sibling()` of every node ask their parent.

Obligation (C12: "previous_sibling and next_sibling match the child list"): when `node` IS the i-th entry of the parent's child
list (by identity: the item id, unique per item), the answer is entry i+1 (i-1), or None at the end (start).  Nodes are opaque
values with uninterpreted `id_of` / `order_of`; the iterator chain `iter().[rev().]skip_while(key differs).nth(1).cloned()` is a shim
with exactly that meaning for whichever key the code compares (the document-order key or the id).  Nothing is assumed about
order keys: detached nodes all carry the key 0."""
from vf.unit import Fn, Rule

FD = 'dom/src/lib.rs'

ENV = r'''use vstd::prelude::*;
verus! {

pub struct Container { pub h: usize }
pub struct Leaf { pub h: usize }
pub enum XmlNode {
    Element(Container), Attribute(Container), EntityReference(Container), Entity(Container), Document(Container), DocumentFragment(Container),
    Other(Leaf),
}
pub uninterp spec fn id_of(n: XmlNode) -> usize;       // the id of the underlying information item: unique per item
pub uninterp spec fn order_of(n: XmlNode) -> usize;    // its document-order key: 0 for every node that is not numbered
pub uninterp spec fn kids_of(c: Container) -> Seq<XmlNode>;

impl Container {
    // HasChild::children(): the child list as DOM nodes
    #[verifier::external_body]
    pub fn children(&self) -> (r: Vec<XmlNode>) ensures r@ == kids_of(*self) { unimplemented!() }
}
impl XmlNode {
    #[verifier::external_body]
    pub fn id(&self) -> (r: usize) ensures r == id_of(*self) { unimplemented!() }
    #[verifier::external_body]
    pub fn order(&self) -> (r: usize) ensures r == order_of(*self) { unimplemented!() }
    pub open spec fn kids(self) -> Seq<XmlNode> {
        match self {
            XmlNode::Element(v) => kids_of(v), XmlNode::Attribute(v) => kids_of(v), XmlNode::EntityReference(v) => kids_of(v),
            XmlNode::Entity(v) => kids_of(v), XmlNode::Document(v) => kids_of(v), XmlNode::DocumentFragment(v) => kids_of(v),
            XmlNode::Other(_) => Seq::<XmlNode>::empty(),
        }
    }

    //@@ previous_sibling_child

    //@@ next_sibling_child
}

pub open spec fn key_of(n: XmlNode, by_id: bool) -> usize { if by_id { id_of(n) } else { order_of(n) } }
// index of the first / last entry whose key matches (-1: none)
pub open spec fn first_match(s: Seq<XmlNode>, key: usize, by_id: bool) -> int
    decreases s.len(),
{
    if s.len() == 0 { -1 } else if key_of(s[0], by_id) == key { 0 } else {
        let r = first_match(s.subrange(1, s.len() as int), key, by_id);
        if r < 0 { -1 } else { r + 1 }
    }
}
pub open spec fn last_match(s: Seq<XmlNode>, key: usize, by_id: bool) -> int
    decreases s.len(),
{
    if s.len() == 0 { -1 } else if key_of(s.last(), by_id) == key { s.len() - 1 } else { last_match(s.drop_last(), key, by_id) }
}
// children.iter().skip_while(|&v| v.KEY() != key).nth(1).cloned(): the entry after the FIRST one whose key matches
#[verifier::external_body]
pub fn shim_after_first(children: &Vec<XmlNode>, key: usize, by_id: bool) -> (r: Option<XmlNode>)
    ensures r == ({ let i = first_match(children@, key, by_id); if 0 <= i && i + 1 < children@.len() { Some(children@[i + 1]) } else { None::<XmlNode> } }),
{ unimplemented!() }
// children.iter().rev().skip_while(|&v| v.KEY() != key).nth(1).cloned(): the entry before the LAST one whose key matches
#[verifier::external_body]
pub fn shim_before_last(children: &Vec<XmlNode>, key: usize, by_id: bool) -> (r: Option<XmlNode>)
    ensures r == ({ let i = last_match(children@, key, by_id); if 1 <= i { Some(children@[i - 1]) } else { None::<XmlNode> } }),
{ unimplemented!() }
// in a list of pairwise different items the id of entry i matches at i and nowhere else
pub proof fn lemma_unique_match(s: Seq<XmlNode>, i: int)
    requires distinct_ids(s), 0 <= i < s.len(),
    ensures first_match(s, id_of(s[i]), true) == i, last_match(s, id_of(s[i]), true) == i,
    decreases s.len(),
{
    let key = id_of(s[i]);
    // first
    if i > 0 {
        let t = s.subrange(1, s.len() as int);
        assert(distinct_ids(t)) by { assert forall|a: int, b: int| 0 <= a < b < t.len() implies id_of(#[trigger] t[a]) != id_of(#[trigger] t[b]) by { assert(t[a] == s[a + 1]); assert(t[b] == s[b + 1]); } }
        assert(t[i - 1] == s[i]);
        lemma_unique_match(t, i - 1);
        assert(id_of(s[0]) != id_of(s[i]));
    }
    // last
    if i < s.len() - 1 {
        let d = s.drop_last();
        assert(distinct_ids(d)) by { assert forall|a: int, b: int| 0 <= a < b < d.len() implies id_of(#[trigger] d[a]) != id_of(#[trigger] d[b]) by { assert(d[a] == s[a]); assert(d[b] == s[b]); } }
        assert(d[i] == s[i]);
        lemma_unique_match(d, i);
        assert(id_of(s[i]) != id_of(s[s.len() - 1]));
    }
}

// the items of a child list are pairwise different items
pub open spec fn distinct_ids(s: Seq<XmlNode>) -> bool { forall|i: int, j: int| 0 <= i < j < s.len() ==> id_of(#[trigger] s[i]) != id_of(#[trigger] s[j]) }

} // verus!
fn main() {}
'''

KEEP_NL = lambda text: (lambda m: text + '\n' * m.group(0).count('\n'))
R_NEXT = Rule('R48', r'children\s*\.iter\(\)\s*\.skip_while\(\|&v\| v\.(order|id)\(\) != node\.(order|id)\(\)\)\s*\.nth\(1\)\s*\.cloned\(\)',
              lambda m: f'shim_after_first(&children, node.{m.group(2)}(), {"true" if m.group(1) == "id" else "false"})' + '\n' * m.group(0).count('\n'),
              'iter().skip_while(key differs).nth(1).cloned() -> shim: the entry after the first one with that key (the key the code compares: order or id)')
R_PREV = Rule('R48', r'children\s*\.iter\(\)\s*\.rev\(\)\s*\.skip_while\(\|&v\| v\.(order|id)\(\) != node\.(order|id)\(\)\)\s*\.nth\(1\)\s*\.cloned\(\)',
              lambda m: f'shim_before_last(&children, node.{m.group(2)}(), {"true" if m.group(1) == "id" else "false"})' + '\n' * m.group(0).count('\n'),
              'iter().rev().skip_while(key differs).nth(1).cloned() -> shim: the entry before the last one with that key')
R_ARMS = Rule('R11', r'_ => return None,', 'XmlNode::Other(_) => return None,', 'the remaining node kinds (no children) are one variant of the model')
REQ = [('the_child_list_holds_pairwise_different_items', 'distinct_ids(self.kids())')]
HINT = (r'shim_(after_first|before_last)\(&children', 'proof { assert forall|i: int| 0 <= i < self.kids().len() && id_of(#[trigger] self.kids()[i]) == id_of(node) implies first_match(self.kids(), id_of(node), true) == i && last_match(self.kids(), id_of(node), true) == i by { lemma_unique_match(self.kids(), i); } }', 'before')


def build():
    P = ['C12']
    fns = {}
    fns['next_sibling_child'] = Fn(
        FD, 'impl XmlNode', 'next_sibling_child', props=P, safety_props=P, label='dom::XmlNode::next_sibling_child', rules=[R_PREV, R_NEXT, R_ARMS], requires=REQ, inject=[HINT],
        ensures=[('C12:the_entry_after_the_node_in_the_child_list',
                  'forall|i: int| 0 <= i < self.kids().len() && id_of(#[trigger] self.kids()[i]) == id_of(node) ==> r == (if i + 1 < self.kids().len() { Some(self.kids()[i + 1]) } else { None::<XmlNode> })')])
    fns['previous_sibling_child'] = Fn(
        FD, 'impl XmlNode', 'previous_sibling_child', props=P, safety_props=P, label='dom::XmlNode::previous_sibling_child', rules=[R_PREV, R_NEXT, R_ARMS], requires=REQ, inject=[HINT],
        ensures=[('C12:the_entry_before_the_node_in_the_child_list',
                  'forall|i: int| 0 <= i < self.kids().len() && id_of(#[trigger] self.kids()[i]) == id_of(node) ==> r == (if i >= 1 { Some(self.kids()[i - 1]) } else { None::<XmlNode> })')])
    return ENV, fns


TEMPLATE, FNS = build()
UNIT = dict(name='c12_siblings', template=TEMPLATE, fns=FNS, props=['C12'])
