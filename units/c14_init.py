"""C14, initial numbering: `init_order_recursive` of XmlElement, XmlDocument and XmlAttribute (info/src/lib.rs), the functions
`XmlDocument::new` numbers a freshly parsed document with.

Every item carries (ghost) `pre`: the ids of its subtree in document order -- the item itself, for an element then its
namespace-declaration attributes, its other attributes and its children, each with everything below it.  The contract of
every `init_order_recursive` is the same and is used inductively at the recursive calls (which dispatch through XmlItem /
XmlAttributeValue to the same family of functions): the order vector grows by exactly `pre` (appended), so numbering a
document from its root yields keys that increase strictly along the pre-order walk "element, attributes, children".
`init_order` (one push, verified in units/c14_order.py) is the base step.
"""
from vf.unit import Fn, Rule

FI = 'info/src/lib.rs'

ENV = r'''use vstd::prelude::*;
verus! {

// an item of the document seen from the numbering pass: its id and (ghost) the ids of its subtree in document order
pub struct ItemRef { pub ident: usize, pub pre: Ghost<Seq<usize>> }

// concatenation of the subtrees of a list of items
pub open spec fn flat(s: Seq<ItemRef>) -> Seq<usize>
    decreases s.len(),
{
    if s.len() == 0 { Seq::<usize>::empty() } else { flat(s.drop_last()) + s.last().pre@ }
}
pub proof fn lemma_flat_step(s: Seq<ItemRef>, i: int)
    requires 0 <= i < s.len(),
    ensures flat(s.take(i + 1)) == flat(s.take(i)) + s[i].pre@,
{
    assert(s.take(i + 1).drop_last() =~= s.take(i));
    assert(s.take(i + 1).last() == s[i]);
}
pub proof fn lemma_flat_all(s: Seq<ItemRef>)
    ensures flat(s.take(s.len() as int)) == flat(s), flat(s.take(0)) == Seq::<usize>::empty(),
{
    assert(s.take(s.len() as int) =~= s);
}

// iterating a child list while the numbering pass mutates the shared order vector: the loop runs over a copy of the handles
#[verifier::external_body]
pub fn shim_clone_items(v: &Vec<ItemRef>) -> (r: Vec<ItemRef>)
    ensures r@ == v@,
{ unimplemented!() /* the slice borrowed from the RefCell */ }

// the document's order vector (ids), shared by all items through the Context
pub struct XmlElement {
    pub ident: usize,
    pub ns_attrs: Vec<ItemRef>,     // namespace_attributes()
    pub attrs: Vec<ItemRef>,        // attributes_specified()
    pub children: Vec<ItemRef>,
    pub order: Ghost<Seq<usize>>,
}
pub struct XmlDocument { pub ident: usize, pub children: Vec<ItemRef>, pub order: Ghost<Seq<usize>> }
pub struct XmlAttribute { pub ident: usize, pub values: Vec<ItemRef>, pub order: Ghost<Seq<usize>> }

impl XmlElement {
    pub open spec fn pre(self) -> Seq<usize> { seq![self.ident] + flat(self.ns_attrs@) + flat(self.attrs@) + flat(self.children@) }
    // HasContext::init_order: one push of the item's own id (units/c14_order.py)
    #[verifier::external_body]
    pub fn world_init_order(&mut self)
        ensures final(self).order@ == old(self).order@.push(old(self).ident), final(self).ident == old(self).ident,
                final(self).ns_attrs@ == old(self).ns_attrs@, final(self).attrs@ == old(self).attrs@, final(self).children@ == old(self).children@,
    { unimplemented!() }
    // child.init_order_recursive() through XmlItem / XmlNode<XmlAttribute>: THE SAME CONTRACT, used inductively
    #[verifier::external_body]
    pub fn world_init_order_recursive(&mut self, child: &ItemRef)
        ensures final(self).order@ == old(self).order@ + child.pre@, final(self).ident == old(self).ident,
                final(self).ns_attrs@ == old(self).ns_attrs@, final(self).attrs@ == old(self).attrs@, final(self).children@ == old(self).children@,
    { unimplemented!() }
    #[verifier::external_body]
    pub fn namespace_attributes(&self) -> (r: Vec<ItemRef>) ensures r@ == self.ns_attrs@ { unimplemented!() }
    #[verifier::external_body]
    pub fn attributes_specified(&self) -> (r: Vec<ItemRef>) ensures r@ == self.attrs@ { unimplemented!() }

    //@@ element_init
}

impl XmlDocument {
    pub open spec fn pre(self) -> Seq<usize> { seq![self.ident] + flat(self.children@) }
    #[verifier::external_body]
    pub fn world_init_order(&mut self)
        ensures final(self).order@ == old(self).order@.push(old(self).ident), final(self).ident == old(self).ident, final(self).children@ == old(self).children@,
    { unimplemented!() }
    #[verifier::external_body]
    pub fn world_init_order_recursive(&mut self, child: &ItemRef)
        ensures final(self).order@ == old(self).order@ + child.pre@, final(self).ident == old(self).ident, final(self).children@ == old(self).children@,
    { unimplemented!() }

    //@@ document_init
}

impl XmlAttribute {
    pub open spec fn pre(self) -> Seq<usize> { seq![self.ident] + flat(self.values@) }
    #[verifier::external_body]
    pub fn world_init_order(&mut self)
        ensures final(self).order@ == old(self).order@.push(old(self).ident), final(self).ident == old(self).ident, final(self).values@ == old(self).values@,
    { unimplemented!() }
    #[verifier::external_body]
    pub fn world_init_order_recursive(&mut self, child: &ItemRef)
        ensures final(self).order@ == old(self).order@ + child.pre@, final(self).ident == old(self).ident, final(self).values@ == old(self).values@,
    { unimplemented!() }

    //@@ attribute_init
}

} // verus!
fn main() {}
'''

PUB = Rule('R12', r'^fn ', 'pub fn ', 'visibility (no runtime meaning)')
R_MUT = Rule('R14', r'\(&self\b', '(&mut self', '&self of a method that mutates through RefCell -> &mut self (A4)')
R_INIT = Rule('R43', r'self\.init_order\(\);', 'self.world_init_order();', 'the item pushes its id on the document order vector: shared state made explicit on the receiver')
R_REC = Rule('R43', r'(\w+)(?:\.borrow\(\))?\.init_order_recursive\(\);', r'self.world_init_order_recursive(&\1);', 'the recursive call numbers the child subtree in the SAME order vector: made explicit on the receiver')


def loop_rule(expr_rx, vec_expr):
    return Rule('R47', r'for (\w+) in ' + expr_rx + r' \{', r'for \1 in __it: ' + vec_expr + r' /*@loop*/ {',
                'for over an iterator of the item list -> for over the list itself, iterator named so that the invariant can refer to its position')


def inv(lst, prefix):
    return [('C14:numbered_so_far_is_the_prefix_in_document_order',
             f'__it.seq() == {lst} && self.order@ =~= old(self).order@ + {prefix} + flat({lst}.take(__it.index@))'),
            ('frame', 'self.ident == old(self).ident')]


def build():
    fns = {}
    P = ['C14']
    POST = ('C14:subtree_is_appended_in_document_order', 'final(self).order@ =~= old(self).order@ + old(self).pre()')
    STEP = 'proof {{ lemma_flat_step({lst}, __it.index@); lemma_flat_all({lst}); }}'
    fns['element_init'] = Fn(
        FI, 'impl HasContext for XmlElement', 'init_order_recursive', props=P, safety_props=P, sig_rules=[PUB, R_MUT], label='XmlElement::init_order_recursive',
        rules=[R_INIT, R_REC,
               loop_rule(r'self\.namespace_attributes\(\)\.iter\(\)', '__ns'),
               loop_rule(r'self\.attributes_specified\(\)\.iter\(\)', '__at'),
               loop_rule(r'self\.children\.borrow\(\)\.as_slice\(\)', 'shim_clone_items(&self.children)')],
        inject=[(r'self\.world_init_order\(\);', 'let __ns = self.namespace_attributes(); let __at = self.attributes_specified(); let ghost __nsv = __ns@; let ghost __atv = __at@; proof { lemma_flat_all(__nsv); lemma_flat_all(__atv); lemma_flat_all(self.children@); }'),
                (r'self\.world_init_order_recursive\(&child\);', 'proof { lemma_flat_step(__it.seq(), __it.index@); }', 'before all')],
        loops={0: dict(invariant=[('C14:namespace_declarations_follow_the_element', '__it.seq() == __nsv && __nsv == old(self).ns_attrs@ && __atv == old(self).attrs@ && self.ns_attrs@ == old(self).ns_attrs@ && self.attrs@ == old(self).attrs@ && self.children@ == old(self).children@ && self.ident == old(self).ident && self.order@ =~= old(self).order@ + seq![old(self).ident] + flat(__nsv.take(__it.index@))')]),
               1: dict(invariant=[('C14:attributes_follow_the_namespace_declarations', '__it.seq() == __atv && __atv == old(self).attrs@ && self.ns_attrs@ == old(self).ns_attrs@ && self.attrs@ == old(self).attrs@ && self.children@ == old(self).children@ && self.ident == old(self).ident && self.order@ =~= old(self).order@ + seq![old(self).ident] + flat(old(self).ns_attrs@) + flat(__atv.take(__it.index@))')]),
               2: dict(invariant=[('C14:children_follow_the_attributes', '__it.seq() == old(self).children@ && self.ns_attrs@ == old(self).ns_attrs@ && self.attrs@ == old(self).attrs@ && self.children@ == old(self).children@ && self.ident == old(self).ident && self.order@ =~= old(self).order@ + seq![old(self).ident] + flat(old(self).ns_attrs@) + flat(old(self).attrs@) + flat(old(self).children@.take(__it.index@))')])},
        ensures=[POST])
    fns['document_init'] = Fn(
        FI, 'impl HasContext for XmlDocument', 'init_order_recursive', props=P, safety_props=P, sig_rules=[PUB, R_MUT], label='XmlDocument::init_order_recursive',
        rules=[R_INIT, R_REC, loop_rule(r'self\.children\.borrow\(\)\.as_slice\(\)', 'shim_clone_items(&self.children)')],
        inject=[(r'self\.world_init_order\(\);', 'proof { lemma_flat_all(self.children@); }'),
                (r'self\.world_init_order_recursive\(&v\);', 'proof { lemma_flat_step(__it.seq(), __it.index@); }', 'before all')],
        loops={0: dict(invariant=[('C14:children_follow_the_document_node', '__it.seq() == old(self).children@ && self.children@ == old(self).children@ && self.ident == old(self).ident && self.order@ =~= old(self).order@ + seq![old(self).ident] + flat(old(self).children@.take(__it.index@))')])},
        ensures=[POST])
    fns['attribute_init'] = Fn(
        FI, 'impl HasContext for XmlAttribute', 'init_order_recursive', props=P, safety_props=P, sig_rules=[PUB, R_MUT], label='XmlAttribute::init_order_recursive',
        rules=[R_INIT, R_REC, loop_rule(r'self\.values\.borrow\(\)\.as_slice\(\)', 'shim_clone_items(&self.values)')],
        inject=[(r'self\.world_init_order\(\);', 'proof { lemma_flat_all(self.values@); }'),
                (r'self\.world_init_order_recursive\(&v\);', 'proof { lemma_flat_step(__it.seq(), __it.index@); }', 'before all')],
        loops={0: dict(invariant=[('C14:value_items_follow_the_attribute', '__it.seq() == old(self).values@ && self.values@ == old(self).values@ && self.ident == old(self).ident && self.order@ =~= old(self).order@ + seq![old(self).ident] + flat(old(self).values@.take(__it.index@))')])},
        ensures=[POST])
    return ENV, fns


TEMPLATE, FNS = build()
UNIT = dict(name='c14_init', template=TEMPLATE, fns=FNS, props=['C14'])
