"""C03, one slice: information-set construction of the document type declaration,
`XmlDocumentTypeDeclaration::node` (info/src/lib.rs) -- run by `XmlDocument::new` / `from_raw` on every document that has a
DOCTYPE.  Obligation: no panic site is reachable whatever the parser produced (every variant of the parser's internal-subset
model is possible: the parser accepts parameter-entity declarations and references).  The parser model enums are mirrored
variant for variant with opaque payloads; the constructors of the child items are assumed callees."""
from vf.unit import Fn, Rule

FI = 'info/src/lib.rs'

ENV = r'''use vstd::prelude::*;
verus! {

pub mod error {
    pub enum Error {
        IsolatedNode,
        InvalidData(String),
        InvalidHierarchy,
        InvalidType,
        NotFoundDoumentElement,
        NotFoundReference(String),
        OufOfIndex(usize),
        Parse(String),
    }
    pub type Result<T> = core::result::Result<T, Error>;
}

// parser/src/model.rs: the enums variant for variant (checked against the source on every run, see `build`); payloads opaque
pub mod parser {
    pub struct QName { pub h: usize }
    pub struct ExternalId { pub h: usize }
    pub struct DeclarationAttList { pub h: usize }
    pub struct Comment { pub h: usize }
    pub struct DeclarationElement { pub h: usize }
    pub struct DeclarationGeneralEntity { pub h: usize }
    pub struct DeclarationParameterEntity { pub name: String }
    pub struct DeclarationNotation { pub h: usize }
    pub struct PI { pub h: usize }
    pub enum DeclarationEntity {
        GeneralEntity(DeclarationGeneralEntity),
        ParameterEntity(DeclarationParameterEntity),
    }
    pub enum DeclarationMarkup {
        Element(DeclarationElement),
        Attributes(DeclarationAttList),
        Entity(DeclarationEntity),
        Notation(DeclarationNotation),
        PI(PI),
        Commnect(Comment),
    }
    pub enum InternalSubset {
        Markup(DeclarationMarkup),
        ParameterEntityReference(String),
        Whitespace(String),
    }
    pub struct DeclarationDoc {
        pub name: QName,
        pub external_id: Option<ExternalId>,
        pub internal_subset: Vec<InternalSubset>,
    }
}

pub struct Context { pub h: usize }
pub struct ItemRef { pub h: usize }
pub struct DeclRef { pub h: usize }
impl DeclRef {
    #[verifier::external_body]
    pub fn id(&self) -> (r: usize) { unimplemented!() }
    #[verifier::external_body]
    pub fn push_child(&self, child: ItemRef) { unimplemented!() }
    #[verifier::external_body]
    pub fn shim_context_add_item(&self, node: &ItemRef) { unimplemented!() }
}
#[verifier::external_body]
pub fn qname(name: &parser::QName) -> (r: (String, Option<String>)) { unimplemented!() }
#[verifier::external_body]
pub fn external_id(id: &parser::ExternalId) -> (r: (String, Option<String>)) { unimplemented!() }
#[verifier::external_body]
pub fn shim_new_declaration(local_name: String, prefix: Option<String>, system_identifier: Option<String>, public_identifier: Option<String>, context: &Context) -> (r: DeclRef) { unimplemented!() }
#[verifier::external_body]
pub fn shim_into_item(d: &DeclRef) -> (r: ItemRef) { unimplemented!() }
#[verifier::external_body]
pub fn shim_error_payload(prefix: &str, v: &str) -> (r: String) { unimplemented!() /* format!("%{};", v) */ }

// constructors of the child items: assumed callees (nothing promised, assumed not to panic)
pub struct XmlDeclarationAttList {}
impl XmlDeclarationAttList {
    #[verifier::external_body]
    pub fn node(v: &parser::DeclarationAttList, parent_id: usize, context: &Context) -> (r: error::Result<ItemRef>) { unimplemented!() }
}
pub struct XmlEntity {}
impl XmlEntity {
    #[verifier::external_body]
    pub fn node(v: &parser::DeclarationGeneralEntity, parent_id: usize, context: &Context) -> (r: ItemRef) { unimplemented!() }
}
pub struct XmlNotation {}
impl XmlNotation {
    #[verifier::external_body]
    pub fn node(v: &parser::DeclarationNotation, parent_id: usize, context: &Context) -> (r: ItemRef) { unimplemented!() }
}
pub struct XmlProcessingInstruction {}
impl XmlProcessingInstruction {
    #[verifier::external_body]
    pub fn node(v: &parser::PI, parent_id: Option<usize>, context: &Context) -> (r: ItemRef) { unimplemented!() }
}

// `unimplemented!(..)`: reaching one is a panic, so the call site must be provably dead
#[verifier::external_body]
pub fn shim_unimplemented<T>() -> (r: T)
    requires false,
    ensures false,
{ unimplemented!() }

pub struct XmlDocumentTypeDeclaration {}
impl XmlDocumentTypeDeclaration {
    //@@ node
}

} // verus!
fn main() {}
'''

RULES = [
    Rule('R11', r'Rc<XmlItem>', 'ItemRef', 'Rc<XmlItem> -> environment handle (A4)'),
    Rule('R11', r"<'_>", '', 'elided lifetime parameter of a parser model type dropped'),
    Rule('R48', r'node\(XmlDocumentTypeDeclaration \{.*?\}\);', 'shim_new_declaration(local_name, prefix, system_identifier, public_identifier, context);',
         'construction of the declaration item in the live document -> shim (fields: the four values computed above, an empty child list, the next context)'),
    Rule('R11', r'\.borrow(?:_mut)?\(\)\s*\.', '.', 'RefCell borrow dropped (A4)'),
    Rule('R48', r'let node: ItemRef = Rc::new\(declaration\.clone\(\)\.into\(\)\);', 'let node: ItemRef = shim_into_item(&declaration);', 'Rc::new(.. .into()) -> shim'),
    Rule('R48', r'declaration\.context\.add_item\(&node\);', 'declaration.shim_context_add_item(&node);', 'registration in the id map (units/c12_idmap.py) -> assumed callee'),
    Rule('R47', r'for subset in &value\.internal_subset \{', 'for subset in __it: value.internal_subset.iter() {', 'for over &Vec -> for over its iterator, named'),
    Rule('R21', r'unimplemented!\([^)]*\)', 'shim_unimplemented()', 'panic site -> call of a function with `requires false`'),
    Rule('R6', r'format!\("%\{\};", ([\w.]+)\)', r'shim_error_payload("%", \1.as_str())', 'format! of an error payload -> unconstrained shim', ),
]


def check_model(repo):
    """The mirrored enums must list exactly the variants of parser/src/model.rs: a new variant there is a lost anchor (exit 2)."""
    import os
    import re
    from vf import rustscan
    src = open(os.path.join(repo, 'parser/src/model.rs')).read()
    want = {'InternalSubset': ['Markup', 'ParameterEntityReference', 'Whitespace'],
            'DeclarationMarkup': ['Element', 'Attributes', 'Entity', 'Notation', 'PI', 'Commnect'],
            'DeclarationEntity': ['GeneralEntity', 'ParameterEntity']}
    for name, variants in want.items():
        m = re.search(r"pub enum " + name + r"<'a> \{(.*?)\n\}", src, re.S)
        got = re.findall(r'^\s*(\w+)\(', m.group(1), re.M) if m else None
        if got is None or sorted(got) != sorted(variants):
            raise rustscan.ScanError(f'lost anchor: parser::{name}: variants {got} differ from the mirrored {variants}')


def build():
    fns = {}
    P = ['C03']
    fns['node'] = Fn(FI, 'impl XmlDocumentTypeDeclaration', 'node', props=P, safety_props=P, label='XmlDocumentTypeDeclaration::node', rules=RULES,
                     sig_rules=[Rule('R12', r'^pub fn ', 'pub fn ', 'visibility kept', ), RULES[0], RULES[1]])
    return ENV, fns


TEMPLATE, FNS = build()
UNIT = dict(name='c03_doctype', template=TEMPLATE, fns=FNS, props=['C03'], precheck=check_model)
