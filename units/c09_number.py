"""C09, lexical forms: string -> number (`TryFrom<&Value> for f64`, `xpath_number`) and number -> string
(`TryFrom<&Value> for String`, Number arm) in xpath/src/eval/model.rs.

XPath 1.0 section 4.4 (number()): "a string that consists of optional whitespace followed by an optional minus sign followed by
a Number followed by whitespace is converted to the IEEE 754 number that is nearest to the mathematical value represented by
the string; any other string is converted to NaN", with  [30] Number ::= Digits ('.' Digits?)? | '.' Digits .
As a predicate on character sequences (written from that text):

  trimmed(s)      s without leading / trailing #x20 #x9 #xD #xA
  core_ok(t)      after an optional leading '-': only digits and at most one '.', at least one digit
  xpath_lexeme(s) = core_ok(trimmed(s))

Obligation: the conversion answers NaN exactly when the string is not such a lexeme, and otherwise the value of the decimal
literal `trimmed(s)` -- `decimal_value`, uninterpreted: that std's `str::parse::<f64>` accepts every such literal and rounds it
correctly is an assumption on std.  Section 4.2 (string()): NaN -> "NaN", zero of either sign -> "0", the infinities ->
"Infinity" / "-Infinity"."""
import os

from vf.unit import Fn, Rule
from vf import unit as U

FM = 'xpath/src/eval/model.rs'

ENV = r'''use vstd::prelude::*;
verus! {

pub mod error {
    pub enum Error { Dom(usize), InvalidType, InvalidArgumentCount(String), NotFoundFunction(String), NotFoundNamespace(String), NotFoundVariable(String) }
    pub type Result<T> = core::result::Result<T, Error>;
}
pub struct XmlNode { pub h: usize }
pub enum Value {
    Boolean(bool),
    Node(Vec<XmlNode>),
    Number(f64),
    Text(String),
}

// ---- XPath 1.0 4.4 as a predicate on character sequences ----
pub open spec fn is_ws(c: char) -> bool { c == ' ' || c == '\t' || c == '\n' || c == '\r' }
pub open spec fn is_digit(c: char) -> bool { '0' <= c && c <= '9' }
pub open spec fn lead_ws(s: Seq<char>) -> int
    decreases s.len(),
{
    if s.len() > 0 && is_ws(s[0]) { 1 + lead_ws(s.subrange(1, s.len() as int)) } else { 0 }
}
pub open spec fn trail_ws(s: Seq<char>) -> int
    decreases s.len(),
{
    if s.len() > 0 && is_ws(s.last()) { 1 + trail_ws(s.drop_last()) } else { 0 }
}
pub open spec fn trimmed(s: Seq<char>) -> Seq<char> {
    if lead_ws(s) + trail_ws(s) >= s.len() { Seq::<char>::empty() } else { s.subrange(lead_ws(s), s.len() - trail_ws(s)) }
}
pub open spec fn dots(s: Seq<char>) -> nat
    decreases s.len(),
{
    if s.len() == 0 { 0 } else { dots(s.drop_last()) + (if s.last() == '.' { 1nat } else { 0nat }) }
}
pub open spec fn unsigned_ok(u: Seq<char>) -> bool {
    (forall|i: int| 0 <= i < u.len() ==> is_digit(#[trigger] u[i]) || u[i] == '.') && dots(u) <= 1 && (exists|i: int| 0 <= i < u.len() && is_digit(#[trigger] u[i]))
}
pub open spec fn core_ok(t: Seq<char>) -> bool {
    if t.len() > 0 && t[0] == '-' { unsigned_ok(t.subrange(1, t.len() as int)) } else { unsigned_ok(t) }
}
pub open spec fn xpath_lexeme(s: Seq<char>) -> bool { core_ok(trimmed(s)) }

pub uninterp spec fn is_nan(x: f64) -> bool;
pub uninterp spec fn is_zero(x: f64) -> bool;          // +0 or -0
pub uninterp spec fn is_pos_inf(x: f64) -> bool;
pub uninterp spec fn is_neg_inf(x: f64) -> bool;
pub uninterp spec fn decimal_value(t: Seq<char>) -> f64;   // the f64 nearest to the decimal literal t
pub uninterp spec fn display_of(x: f64) -> Seq<char>;      // Rust's Display of a finite non-zero f64 (no exponent)
pub uninterp spec fn rust_float(s: Seq<char>) -> bool;     // what str::parse::<f64> accepts (a superset: exponents, "inf", "+1", ...)
pub uninterp spec fn rust_value(s: Seq<char>) -> f64;

pub uninterp spec fn sign_neg(x: f64) -> bool;            // the sign bit
pub open spec fn lit(s: &str) -> Seq<char> { s@ }
#[verifier::external_body]
pub fn shim_is_pos_inf(x: f64) -> (r: bool) ensures r == is_pos_inf(x) { x == f64::INFINITY }
#[verifier::external_body]
pub fn shim_is_neg_inf(x: f64) -> (r: bool) ensures r == is_neg_inf(x) { x == f64::NEG_INFINITY }
// f64::to_string (Display): "NaN" for a NaN, "0" / "-0" for the zeros (the sign is printed), otherwise the shortest
// decimal representation without an exponent
#[verifier::external_body]
pub fn shim_f64_to_string(x: f64) -> (r: String)
    ensures is_nan(x) ==> r@ == lit("NaN"),
            is_zero(x) && !sign_neg(x) ==> r@ == lit("0"),
            is_zero(x) && sign_neg(x) ==> r@ == lit("-0"),
            !is_nan(x) && !is_zero(x) ==> r@ == display_of(x),
{ x.to_string() }
#[verifier::external_body]
pub fn shim_lit(s: &str) -> (r: String) ensures r@ == lit(s) { s.to_string() }
#[verifier::external_body]
pub fn shim_clone_string(s: &String) -> (r: String) ensures r@ == s@ { s.to_string() }
impl XmlNode {
    #[verifier::external_body]
    pub fn as_string_value(&self) -> (r: error::Result<String>) { unimplemented!() }
}
#[verifier::external_body]
pub fn shim_nan() -> (r: f64) ensures is_nan(r) { f64::NAN }
// v.parse::<f64>().unwrap_or(f64::NAN) on an ARBITRARY string: std's grammar decides
#[verifier::external_body]
pub fn shim_parse_any(v: &String) -> (r: f64)
    ensures rust_float(v@) ==> r == rust_value(v@), !rust_float(v@) ==> is_nan(r),
{ v.parse::<f64>().unwrap_or(f64::NAN) }
// cs[start..end].iter().collect::<String>().parse::<f64>().unwrap_or(f64::NAN) on a literal that satisfies core_ok
// (assumption on std: accepted, correctly rounded)
#[verifier::external_body]
pub fn shim_parse_decimal(cs: &Vec<char>, start: usize, end: usize) -> (r: f64)
    requires start <= end <= cs@.len(), core_ok(cs@.subrange(start as int, end as int)),
    ensures r == decimal_value(cs@.subrange(start as int, end as int)),
{ cs[start..end].iter().collect::<String>().parse::<f64>().unwrap_or(f64::NAN) }
#[verifier::external_body]
pub fn shim_chars(v: &str) -> (r: Vec<char>) ensures r@ == v@ { v.chars().collect() }
#[verifier::external_body]
pub fn shim_is_ascii_digit(c: char) -> (r: bool) ensures r == is_digit(c) { c.is_ascii_digit() }
#[verifier::external_body]
pub fn shim_is_xml_space(c: char) -> (r: bool) ensures r == is_ws(c) { c == ' ' || c == '\t' || c == '\n' || c == '\r' }

pub proof fn lemma_lead(s: Seq<char>, k: int)
    requires 0 <= k <= s.len(), forall|i: int| 0 <= i < k ==> is_ws(#[trigger] s[i]), k == s.len() || !is_ws(s[k]),
    ensures lead_ws(s) == k,
    decreases s.len(),
{
    if k > 0 {
        let t = s.subrange(1, s.len() as int);
        assert forall|i: int| 0 <= i < k - 1 implies is_ws(#[trigger] t[i]) by { assert(t[i] == s[i + 1]); }
        if k < s.len() { assert(t[k - 1] == s[k]); }
        lemma_lead(t, k - 1);
    }
}
pub proof fn lemma_trail(s: Seq<char>, k: int)
    requires 0 <= k <= s.len(), forall|i: int| s.len() - k <= i < s.len() ==> is_ws(#[trigger] s[i]), k == s.len() || !is_ws(s[s.len() - k - 1]),
    ensures trail_ws(s) == k,
    decreases s.len(),
{
    if k > 0 {
        let t = s.drop_last();
        assert forall|i: int| t.len() - (k - 1) <= i < t.len() implies is_ws(#[trigger] t[i]) by { assert(t[i] == s[i]); }
        if k < s.len() { assert(t[t.len() - (k - 1) - 1] == s[s.len() - k - 1]); }
        lemma_trail(t, k - 1);
    }
}
pub proof fn lemma_trail_nonneg(s: Seq<char>)
    ensures trail_ws(s) >= 0,
    decreases s.len(),
{
    if s.len() > 0 && is_ws(s.last()) { lemma_trail_nonneg(s.drop_last()); }
}
pub proof fn lemma_dots_digits(s: Seq<char>)
    requires forall|i: int| 0 <= i < s.len() ==> is_digit(#[trigger] s[i]),
    ensures dots(s) == 0,
    decreases s.len(),
{
    if s.len() > 0 {
        assert forall|i: int| 0 <= i < s.drop_last().len() implies is_digit(#[trigger] s.drop_last()[i]) by { assert(s.drop_last()[i] == s[i]); }
        lemma_dots_digits(s.drop_last());
    }
}
pub proof fn lemma_dots_add(a: Seq<char>, b: Seq<char>)
    ensures dots(a + b) == dots(a) + dots(b),
    decreases b.len(),
{
    if b.len() == 0 { assert(a + b =~= a); } else {
        assert((a + b).drop_last() =~= a + b.drop_last());
        lemma_dots_add(a, b.drop_last());
    }
}
pub proof fn lemma_dots_one()
    ensures dots(seq!['.']) == 1,
{
    let s = seq!['.'];
    assert(s.len() == 1 && s.last() == '.');
    assert(s.drop_last() =~= Seq::<char>::empty());
    assert(dots(s.drop_last()) == 0);
}
pub proof fn lemma_dots_positions(u: Seq<char>, i: int, j: int)
    requires 0 <= i < j < u.len(), u[i] == '.', u[j] == '.',
    ensures dots(u) >= 2,
{
    let a = u.subrange(0, i); let b = u.subrange(i + 1, j); let c = u.subrange(j + 1, u.len() as int);
    assert(u =~= a + seq!['.'] + b + seq!['.'] + c);
    lemma_dots_add(a + seq!['.'] + b + seq!['.'], c);
    lemma_dots_add(a + seq!['.'] + b, seq!['.']);
    lemma_dots_add(a + seq!['.'], b);
    lemma_dots_add(a, seq!['.']);
    lemma_dots_one();
}

@SLOTS@

} // verus!
fn main() {}
'''

R_SELF = Rule('R11', r'Result<Self, Self::Error>', 'Result<@SELF@, error::Error>', 'associated types of the TryFrom impl spelled out')


def build(repo=None):
    src = open(os.path.join(repo or U.REPO, FM)).read()
    repaired = 'fn xpath_number(' in src
    fns = {}
    P = ['C09']
    POST = [('C09:a_number_lexeme_converts_to_its_decimal_value', 'value is Text && xpath_lexeme(value->Text_0@) ==> r is Ok && r->Ok_0 == decimal_value(trimmed(value->Text_0@))'),
            ('C09:any_other_string_converts_to_nan', 'value is Text && !xpath_lexeme(value->Text_0@) ==> r is Ok && is_nan(r->Ok_0)')]
    common = [Rule('R11', r'Result<Self, Self::Error>', 'Result<f64, error::Error>', 'associated types of the TryFrom impl spelled out'),
              Rule('R19', r'let s = String::try_from\(value\)\?;', 'let s = value_to_string(value)?;', 'the sibling conversion (below) -> assumed callee'),
              Rule('R19', r'Ok\(f64::try_from\(&Value::Text\(s\)\)\?\)', 'Ok(text_to_number(&s))', 'the Text arm of this very function applied to the string value -> named (same contract)'),
              Rule('R22', r'Ok\(1f64\)', 'Ok(shim_one())', 'float literal -> shim'), Rule('R22', r'Ok\(0f64\)', 'Ok(shim_zero())', 'float literal -> shim')]
    if repaired:
        fns['xpath_number'] = Fn(
            FM, None, 'xpath_number', props=P, safety_props=P, label='xpath::model::xpath_number',
            rules=[Rule('R5', r'let cs: Vec<char> = v\.chars\(\)\.collect\(\);', 'let cs: Vec<char> = shim_chars(v);', 'chars().collect() -> shim (the characters of the string)'),
                   Rule('R8', r'is_xml_space\(cs\[(\w+(?: - 1)?)\]\)', r'shim_is_xml_space(cs[\1])', 'white-space test -> shim with the same four characters'),
                   Rule('R8', r'cs\[i\]\.is_ascii_digit\(\)', 'shim_is_ascii_digit(cs[i])', 'char::is_ascii_digit -> shim'),
                   Rule('R22', r'f64::NAN', 'shim_nan()', 'float constant -> shim'),
                   Rule('R7', r'cs\[start\.\.end\]\s*\.iter\(\)\s*\.collect::<String>\(\)\s*\.parse::<f64>\(\)\s*\.unwrap_or\(shim_nan\(\)\)', lambda m: 'shim_parse_decimal(&cs, start, end)' + '\n' * m.group(0).count('\n'),
                        'collect the slice and str::parse::<f64> -> shim: requires the literal to satisfy core_ok, returns its decimal value')],
            loops={0: dict(invariant=[('leading_white_space', 'cs@ == v@ && start <= cs@.len() && forall|k: int| 0 <= k < start ==> is_ws(#[trigger] cs@[k])')], decreases='cs@.len() - start'),
                   1: dict(invariant=[('trailing_white_space', 'cs@ == v@ && start <= end <= cs@.len() && forall|k: int| end <= k < cs@.len() ==> is_ws(#[trigger] cs@[k])')], decreases='end'),
                   2: dict(invariant=[('integer_digits', 'start <= i <= end <= cs@.len() && 0 <= __i0 <= i && int_digits == i - __i0 && forall|k: int| __i0 <= k < i ==> is_digit(#[trigger] cs@[k])')], decreases='end - i'),
                   3: dict(invariant=[('fraction_digits', 'start <= i <= end <= cs@.len() && 0 <= __idot && __idot + 1 <= i && frac_digits == i - (__idot + 1) && forall|k: int| __idot + 1 <= k < i ==> is_digit(#[trigger] cs@[k])')], decreases='end - i')},
            inject=[(r'let mut int_digits = 0usize;', 'let ghost __i0 = i as int; let ghost __neg = (i as int) > (start as int);'),
                    (r'let mut frac_digits = 0usize;', 'let ghost __idot = i as int;'),
                    (r'if i != end \|\| int_digits \+ frac_digits == 0 \{', 'proof { let __dot = (i as int) > __idot; lemma_scan(cs@, start as int, end as int, __i0, __idot, if __dot { __idot + 1 } else { __idot }, i as int, __dot); }', 'before')],
            ensures=[('C09:a_number_lexeme_converts_to_its_decimal_value', 'xpath_lexeme(v@) ==> r == decimal_value(trimmed(v@))'),
                     ('C09:any_other_string_converts_to_nan', '!xpath_lexeme(v@) ==> is_nan(r)')])
    fns['f64_try_from'] = Fn(
        FM, 'impl TryFrom<&Value> for f64', 'try_from', props=P, safety_props=P, label='xpath::model::f64::try_from(&Value)',
        sig_rules=[common[0], Rule('R12', r'^fn ', 'pub fn ', 'visibility')], rules=common + [
            Rule('R7', r'v\.parse::<f64>\(\)\.unwrap_or\(f64::NAN\)', 'shim_parse_any(v)', "str::parse::<f64> on the raw text -> shim: std's own grammar decides what is a number"),
            Rule('R19', r'xpath_number\(v\)', 'xpath_number(v.as_str())', '&String -> &str')],
        ensures=POST)
    fns['string_try_from'] = Fn(
        FM, 'impl TryFrom<&Value> for String', 'try_from', props=P, safety_props=P, label='xpath::model::String::try_from(&Value)',
        sig_rules=[Rule('R11', r'Result<Self, Self::Error>', 'Result<String, error::Error>', 'associated types of the TryFrom impl spelled out'), Rule('R12', r'^fn ', 'pub fn ', 'visibility')],
        rules=[Rule('R11', r'Result<Self, Self::Error>', 'Result<String, error::Error>', 'associated types of the TryFrom impl spelled out'),
               Rule('R22', r'match \*v \{\s*f64::INFINITY => (Ok\("Infinity"\.to_string\(\)\)),\s*f64::NEG_INFINITY => (Ok\("-Infinity"\.to_string\(\)\)),\s*_ => (Ok\(v\.to_string\(\)\)),\s*\}',
                    lambda m: f'if shim_is_pos_inf(*v) {{ {m.group(1)} }} else if shim_is_neg_inf(*v) {{ {m.group(2)} }} else {{ Ok(shim_f64_to_string(*v)) }}' + '\n' * m.group(0).count('\n'),
                    'match on float constants -> if-chain over the same three cases (Verus has no float patterns); f64::to_string -> shim with the contract of Display'),
               Rule('R6', r'"(true|false|Infinity|-Infinity|)"\.to_string\(\)', r'shim_lit("\1")', 'str::to_string of a literal -> shim'),
               Rule('R6', r'Ok\(v\.to_string\(\)\)', 'Ok(shim_clone_string(v))', 'String::to_string -> shim (a copy)')],
        ensures=[('C09:nan_is_spelled_NaN', 'value is Number && is_nan(value->Number_0) ==> r is Ok && r->Ok_0@ == lit("NaN")'),
                 ('C09:the_infinities_are_spelled_Infinity', 'value is Number && is_pos_inf(value->Number_0) ==> r is Ok && r->Ok_0@ == lit("Infinity")'),
                 ('C09:the_negative_infinity_is_spelled_minus_Infinity', 'value is Number && is_neg_inf(value->Number_0) ==> r is Ok && r->Ok_0@ == lit("-Infinity")'),
                 ('C09:a_zero_of_either_sign_is_spelled_0', 'value is Number && is_zero(value->Number_0) && !is_pos_inf(value->Number_0) && !is_neg_inf(value->Number_0) ==> r is Ok && r->Ok_0@ == lit("0")'),
                 ('C09:booleans_are_spelled_true_and_false', 'value is Boolean ==> r is Ok && r->Ok_0@ == (if value->Boolean_0 { lit("true") } else { lit("false") })'),
                 ('C09:a_string_is_itself', 'value is Text ==> r is Ok && r->Ok_0@ == value->Text_0@')],
        requires=[('the_float_classes_are_disjoint', 'value is Number ==> !(is_nan(value->Number_0) && (is_pos_inf(value->Number_0) || is_neg_inf(value->Number_0))) && !(is_pos_inf(value->Number_0) && is_neg_inf(value->Number_0))')])
    slots = '''
pub struct __ConvF64 {}
#[verifier::external_body]
pub fn value_to_string(v: &Value) -> (r: error::Result<String>) { unimplemented!() }
#[verifier::external_body]
pub fn shim_one() -> (r: f64) { 1f64 }
#[verifier::external_body]
pub fn shim_zero() -> (r: f64) { 0f64 }
// f64::try_from(&Value::Text(s)): the Text arm below, on the string value of a node-set
#[verifier::external_body]
pub fn text_to_number(s: &String) -> (r: f64) { unimplemented!() }
'''
    if repaired:
        slots += LEMMA_SCAN + '\n//@@ xpath_number\n'
    slots += '\nimpl __ConvF64 {\n    //@@ f64_try_from\n}\npub struct __ConvString {}\nimpl __ConvString {\n    //@@ string_try_from\n}\n'
    return ENV.replace('@SLOTS@', slots), fns


LEMMA_SCAN = r'''
// what the four scanning loops have established decides the lexeme question
pub proof fn lemma_scan(cs: Seq<char>, start: int, end: int, i0: int, idot: int, i1: int, i: int, dot: bool)
    requires
        0 <= start <= end <= cs.len(),
        forall|k: int| 0 <= k < start ==> is_ws(#[trigger] cs[k]), start == cs.len() || !is_ws(cs[start]) || start == end,
        forall|k: int| end <= k < cs.len() ==> is_ws(#[trigger] cs[k]), end == start || !is_ws(cs[end - 1]),
        start <= i0 <= idot <= i1 <= i <= end,
        i0 == start || (i0 == start + 1 && cs[start] == '-'), i0 == start ==> (start == end || cs[start] != '-'),
        forall|k: int| i0 <= k < idot ==> is_digit(#[trigger] cs[k]), idot == end || !is_digit(cs[idot]),
        dot ==> idot < end && cs[idot] == '.' && i1 == idot + 1, !dot ==> i1 == idot && i == idot && (idot == end || cs[idot] != '.'),
        forall|k: int| i1 <= k < i ==> is_digit(#[trigger] cs[k]), i == end || !is_digit(cs[i]),
    ensures
        start < end ==> trimmed(cs) == cs.subrange(start, end),
        start == end ==> !xpath_lexeme(cs),
        xpath_lexeme(cs) <==> (i == end && (idot - i0) + (i - i1) > 0),
{
    if start == end {
        // only white space
        assert forall|k: int| 0 <= k < cs.len() implies is_ws(#[trigger] cs[k]) by {}
        lemma_lead(cs, cs.len() as int);
        assert(trail_ws(cs) >= 0) by { lemma_trail_nonneg(cs); }
        assert(trimmed(cs) =~= Seq::<char>::empty());
        assert(!unsigned_ok(Seq::<char>::empty()));
        assert(!core_ok(Seq::<char>::empty()));
    } else {
        lemma_lead(cs, start);
        lemma_trail(cs, cs.len() - end);
        let t = cs.subrange(start, end);
        assert(trimmed(cs) == t);
        let u = if t[0] == '-' { t.subrange(1, t.len() as int) } else { t };
        assert(u =~= cs.subrange(i0, end));
        if i == end && (idot - i0) + (i - i1) > 0 {
            assert forall|k: int| 0 <= k < u.len() implies is_digit(#[trigger] u[k]) || u[k] == '.' by { assert(u[k] == cs[i0 + k]); }
            if dot {
                let a = u.subrange(0, idot - i0); let b = u.subrange(idot - i0 + 1, u.len() as int);
                assert(u =~= a + seq!['.'] + b);
                assert forall|k: int| 0 <= k < a.len() implies is_digit(#[trigger] a[k]) by { assert(a[k] == cs[i0 + k]); }
                assert forall|k: int| 0 <= k < b.len() implies is_digit(#[trigger] b[k]) by { assert(b[k] == cs[i1 + k]); }
                lemma_dots_digits(a); lemma_dots_digits(b);
                lemma_dots_add(a + seq!['.'], b); lemma_dots_add(a, seq!['.']);
                lemma_dots_one();
            } else {
                assert forall|k: int| 0 <= k < u.len() implies is_digit(#[trigger] u[k]) by { assert(u[k] == cs[i0 + k]); }
                lemma_dots_digits(u);
            }
            if idot - i0 > 0 { assert(is_digit(u[0])); } else { assert(is_digit(u[i1 - i0])); }
            assert(unsigned_ok(u));
        } else {
            // not a lexeme: a character that is neither digit nor the one dot, or a second dot, or no digit at all
            if unsigned_ok(u) {
                if i < end {
                    assert(u[i - i0] == cs[i]);
                    assert(cs[i] == '.');
                    if dot { lemma_dots_positions(u, idot - i0, i - i0); } else { }
                } else {
                    let k = choose|k: int| 0 <= k < u.len() && is_digit(#[trigger] u[k]);
                    assert(u[k] == cs[i0 + k]);
                }
            }
        }
    }
}
'''

TEMPLATE, FNS = build()
UNIT = dict(name='c09_number', template=TEMPLATE, fns=FNS, props=['C09'], build=build)
