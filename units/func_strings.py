"""String functions of the XPath core library (xpath/src/eval/func.rs) that count or index characters (C09).

  string_length   the number of CHARACTERS of the argument (String::len is given its real contract, the UTF-8 byte length,
                  so that a byte count is refuted and not merely unsupported)
  substring       the characters selected by `substring_range` (verified by Kani over every f64: kani/src/c09.rs), taken
                  with chars().skip().take().collect()

`model::Value` conversions (`String::try_from(&Value)`, `f64::try_from(&Value)`) are assumed callees: the string / number
the argument converts to is an uninterpreted function of the argument (conversions themselves: Kani for scalars, not
decided for strings)."""
from vf.unit import Fn, Rule

FF = 'xpath/src/eval/func.rs'

ENV = r'''use vstd::prelude::*;
verus! {

pub mod dom {
    use vstd::prelude::*;
    pub struct XmlNode { pub h: usize }
    pub struct XmlDocument { pub h: usize }
    pub struct XmlDocumentType { pub h: usize }
    impl XmlNode {
        // nothing is promised: None for a Document or namespace node, Some otherwise
        #[verifier::external_body]
        pub fn owner_document(&self) -> (r: Option<XmlDocument>) { unimplemented!() }
    }
    impl XmlDocument {
        #[verifier::external_body]
        pub fn doc_type(&self) -> (r: Option<XmlDocumentType>) { unimplemented!() }
    }
}
pub mod error {
    pub enum Error { Dom(usize), InvalidType, InvalidArgumentCount(String), NotFoundFunction(String), NotFoundNamespace(String), NotFoundVariable(String) }
    pub type Result<T> = core::result::Result<T, Error>;
}
pub mod model {
    use vstd::prelude::*;
    use crate::dom::XmlNode;
    pub struct Context { pub h: usize }
    pub enum Value {
        Boolean(bool),
        Node(Vec<XmlNode>),
        Number(f64),
        Text(String),
    }
}

use core::ops::Range;

// String::len is the UTF-8 BYTE length (real contract, recursive over the characters)
pub open spec fn utf8_width(c: char) -> nat {
    if (c as u32) < 0x80 { 1 } else if (c as u32) < 0x800 { 2 } else if (c as u32) < 0x10000 { 3 } else { 4 }
}
pub open spec fn utf8_len(s: Seq<char>) -> nat
    decreases s.len(),
{
    if s.len() == 0 { 0 } else { utf8_width(s[0]) + utf8_len(s.subrange(1, s.len() as int)) }
}
pub assume_specification [String::len] (s: &String) -> (r: usize)
    ensures r == utf8_len(s@);

// ---- assumed callees: conversions of model.rs; what they return is an uninterpreted function of the value ----
pub uninterp spec fn string_of(v: model::Value) -> Seq<char>;
pub uninterp spec fn number_of(v: model::Value) -> f64;
#[verifier::external_body]
pub fn value_to_string(v: &model::Value) -> (r: error::Result<String>)
    ensures r is Ok ==> r->Ok_0@ == string_of(*v),
{ unimplemented!() }
#[verifier::external_body]
pub fn value_to_number(v: &model::Value) -> (r: error::Result<f64>)
    ensures r is Ok ==> r->Ok_0 == number_of(*v),
{ unimplemented!() }

// `n as f64`: Verus has no float casts; the number a count converts to is an uninterpreted function of the count
pub uninterp spec fn f64_of_nat(n: nat) -> f64;
#[verifier::external_body]
pub fn shim_usize_as_f64(n: usize) -> (r: f64)
    ensures r == f64_of_nat(n as nat),
{ n as f64 }

#[verifier::external_body]
pub fn shim_char_count(s: &String) -> (r: usize)
    ensures r == s@.len(),
{ s.chars().count() }

// &model::Value::Node(vec![node]): the context node as a one-element node-set (zero-argument forms)
#[verifier::external_body]
pub fn shim_node_value(node: dom::XmlNode) -> (r: model::Value)
{ unimplemented!() /* model::Value::Node(vec![node]) */ }

//@@ string_length

// `unimplemented!(..)`: reaching one is a panic, so the call site must be provably dead
#[verifier::external_body]
pub fn shim_unimplemented<T>() -> (r: T)
    requires false,
    ensures false,
{
    unimplemented!()
}

#[verifier::external_body]
pub fn shim_not_found_function() -> (r: error::Error)
{
    error::Error::NotFoundFunction("id".to_string())
}

//@@ id

// substring_range: verified by Kani on the real crate for every f64 / length / position (kani/src/c09.rs); here only
// the part of its contract the slicing needs
pub uninterp spec fn spec_range(len: nat, start: f64, length: Option<f64>) -> (int, int);
#[verifier::external_body]
pub fn substring_range(len: usize, start: f64, length: Option<f64>) -> (r: Range<usize>)
    ensures r.start <= r.end, r.end <= len, (r.start as int, r.end as int) == spec_range(len as nat, start, length),
{ unimplemented!() }

// v.chars().skip(a).take(n).collect(): saturating at the end of the string, never panics
#[verifier::external_body]
pub fn shim_skip_take(s: &String, a: usize, n: usize) -> (r: String)
    ensures r@ == s@.subrange(if a <= s@.len() { a as int } else { s@.len() as int }, if a + n <= s@.len() { a + n } else { s@.len() as int }),
{ s.chars().skip(a).take(n).collect() }

//@@ substring

// ---- translate(): the per-character walk ----
#[verifier::external_body]
pub fn shim_chars_vec(s: &String) -> (r: Vec<char>)
    ensures r@ == s@,
{ s.chars().collect::<Vec<char>>() }
// s2.chars().position(|v| v == ch): index of the FIRST occurrence
#[verifier::external_body]
pub fn shim_char_position(s: &String, ch: char) -> (r: Option<usize>)
    ensures match r {
        Some(i) => i < s@.len() && s@[i as int] == ch && (forall|j: int| 0 <= j < i ==> s@[j] != ch),
        None => forall|j: int| 0 <= j < s@.len() ==> s@[j] != ch,
    },
{ s.chars().position(|v| v == ch) }
// s3.chars().nth(index)
#[verifier::external_body]
pub fn shim_char_nth(s: &String, index: usize) -> (r: Option<char>)
    ensures r == (if index < s@.len() { Some(s@[index as int]) } else { None::<char> }),
{ s.chars().nth(index) }
#[verifier::external_body]
pub fn shim_string_push(s: &mut String, ch: char)
    ensures final(s)@ == old(s)@.push(ch),
{ s.push(ch) }
#[verifier::external_body]
pub fn shim_string_new() -> (r: String)
    ensures r@ == Seq::<char>::empty(),
{ String::new() }

// XPath 1.0 4.2 translate(): a character of s1 that occurs in s2 is replaced by the character at the position of its
// FIRST occurrence in s3, or removed when s3 has no character there; every other character is copied
pub open spec fn first_index(s: Seq<char>, c: char) -> int
    decreases s.len(),
{
    if s.len() == 0 { -1 } else if s[0] == c { 0 } else {
        let r = first_index(s.subrange(1, s.len() as int), c);
        if r < 0 { -1 } else { r + 1 }
    }
}
pub open spec fn translate_char(c: char, s2: Seq<char>, s3: Seq<char>) -> Seq<char> {
    let i = first_index(s2, c);
    if i < 0 { seq![c] } else if i < s3.len() { seq![s3[i]] } else { Seq::<char>::empty() }
}
pub open spec fn translate_spec(s1: Seq<char>, s2: Seq<char>, s3: Seq<char>) -> Seq<char>
    decreases s1.len(),
{
    if s1.len() == 0 { s1 } else { translate_spec(s1.drop_last(), s2, s3) + translate_char(s1.last(), s2, s3) }
}
pub proof fn lemma_first_index(s: Seq<char>, c: char)
    ensures
        -1 <= first_index(s, c) < s.len(),
        first_index(s, c) >= 0 ==> s[first_index(s, c)] == c && (forall|j: int| 0 <= j < first_index(s, c) ==> s[j] != c),
        first_index(s, c) < 0 ==> (forall|j: int| 0 <= j < s.len() ==> s[j] != c),
    decreases s.len(),
{
    if s.len() > 0 && s[0] != c {
        let t = s.subrange(1, s.len() as int);
        lemma_first_index(t, c);
        let r = first_index(t, c);
        if r >= 0 {
            assert(t[r] == s[r + 1]);
            assert forall|j: int| 0 <= j < r + 1 implies s[j] != c by { if j > 0 { assert(t[j - 1] == s[j]); } }
        } else {
            assert forall|j: int| 0 <= j < s.len() implies s[j] != c by { if j > 0 { assert(t[j - 1] == s[j]); } }
        }
    }
}

//@@ translate

} // verus!
fn main() {}
'''

R_TOSTRING = Rule('R19', r'String::try_from\(', 'value_to_string(', '`String::try_from(&Value)` (TryFrom impl of model.rs) -> assumed callee')
R_TONUMBER = Rule('R19', r'f64::try_from\(', 'value_to_number(', '`f64::try_from(&Value)` (TryFrom impl of model.rs) -> assumed callee')
R_ASF64 = Rule('R22', r'(value_to_string\(arg\)\?\.(?:len|chars\(\)\.count)\(\)) as f64', r'shim_usize_as_f64(\1)', 'usize -> f64 cast: Verus has no float casts')
R_COUNT = Rule('R5', r'value_to_string\(arg\)\?\.chars\(\)\.count\(\)', 'shim_char_count(&value_to_string(arg)?)', 'chars().count() -> shim')
R_COUNT2 = Rule('R5', r'\bv\.chars\(\)\.count\(\)', 'shim_char_count(&v)', 'chars().count() -> shim')
R_NODEARG = Rule('R36', r'let arg = if let Some\(arg\) = args\.first\(\) \{\s*arg\s*\} else \{\s*&model::Value::Node\(vec!\[node\]\)\s*\};',
                 'let __ctx_node = shim_node_value(node); let arg = if let Some(arg) = args.first() { arg } else { &__ctx_node };',
                 'reference to a temporary `&Value::Node(vec![node])` -> a named local holding the same value (Verus rejects the temporary borrow)')
R_UNUSED2 = Rule('R10', r'\b_: (?:(Vec<model::Value>)|(&mut model::Context))', lambda m: ('_args: ' + m.group(1)) if m.group(1) else ('_context: ' + m.group(2)), 'wildcard parameter gets a name (no runtime meaning)')
R_UNUSED = Rule('R10', r'\b_: (?:(dom::XmlNode)|(&mut model::Context))', lambda m: ('_node: ' + m.group(1)) if m.group(1) else ('_context: ' + m.group(2)), 'wildcard parameter gets a name (no runtime meaning)')


def build(repo=None):
    from units.func_lib import table_arities, arity_req
    from vf import unit as U
    ar = table_arities(repo or U.REPO)   # the argument counts func::table() lets through, read on every run
    fns = {}
    fns['string_length'] = Fn(
        FF, None, 'string_length', props=['C09'], safety_props=['C09'], label='xpath::func::string_length',
        sig_rules=[R_UNUSED], requires=[arity_req(ar['string_length'])],
        rules=[R_NODEARG, R_TOSTRING, R_ASF64, R_COUNT],
        ensures=[('C05+C09:counts_characters', 'args@.len() >= 1 && r is Ok ==> r->Ok_0 is Number && r->Ok_0->Number_0 == f64_of_nat(string_of(args@[0]).len())')])
    fns['id'] = Fn(
        FF, None, 'id', props=['C06'], safety_props=['C06'], label='xpath::func::id', sig_rules=[R_UNUSED2], requires=[arity_req(ar['id']).__class__((arity_req(ar['id'])[0], arity_req(ar['id'])[1].replace('args@', '_args@')))],
        rules=[Rule('R21', r'unimplemented!\(\)', 'shim_unimplemented()', 'panic site -> call of a function with `requires false`')],
        ensures=[('C06:an_error_or_a_node_set', 'r is Ok ==> r->Ok_0 is Node')])
    fns['substring'] = Fn(
        FF, None, 'substring', props=['C09'], safety_props=['C09'], label='xpath::func::substring', skip_global=['R5'],
        sig_rules=[R_UNUSED],
        rules=[R_TOSTRING, R_TONUMBER, R_COUNT2,
               Rule('R4', r'let r: String = v\s*\.chars\(\)\s*\.skip\(range\.start\)\s*\.take\(range\.end - range\.start\)\s*\.collect\(\);',
                    'let r: String = shim_skip_take(&v, range.start, range.end - range.start);', 'chars().skip().take().collect() -> shim')],
        ensures=[('C05+C09:selects_the_characters_of_the_range',
                  'args@.len() == 2 && r is Ok ==> r->Ok_0 is Text && ({ let s = string_of(args@[0]); let (lo, hi) = spec_range(s.len(), number_of(args@[1]), None::<f64>); r->Ok_0->Text_0@ == s.subrange(lo, hi) })'),
                 ('C05+C09:selects_the_characters_of_the_range_with_length',
                  'args@.len() == 3 && r is Ok ==> r->Ok_0 is Text && ({ let s = string_of(args@[0]); let (lo, hi) = spec_range(s.len(), number_of(args@[1]), Some(number_of(args@[2]))); r->Ok_0->Text_0@ == s.subrange(lo, hi) })')],
        requires=[arity_req(ar['substring'])])
    fns['translate'] = Fn(
        FF, None, 'translate', props=['C09'], safety_props=['C06'], label='xpath::func::translate', sig_rules=[R_UNUSED],
        requires=[arity_req(ar['translate'])],
        rules=[R_TOSTRING,
               Rule('R40', r'let mut r = String::new\(\);', 'let mut r = shim_string_new();', 'String::new -> shim'),
               Rule('R40', r'for ch in s1\.chars\(\) \{', 'for ch in __it: shim_chars_vec(&s1) /*@loop*/ {', 'for over str::chars() -> for over the shim-built Vec<char>'),
               Rule('R40', r's2\.chars\(\)\.position\(\|v\| v == ch\)', 'shim_char_position(&s2, ch)', 'chars().position(closure) -> shim: first index'),
               Rule('R40', r's3\.chars\(\)\.nth\(index\)', 'shim_char_nth(&s3, index)', 'chars().nth -> shim'),
               Rule('R40', r'\br\.push\(ch\)', 'shim_string_push(&mut r, ch)', 'String::push -> shim')],
        loops={0: dict(invariant=[('C05+C09:prefix_translated', '__it.seq() == s1@ && r@ == translate_spec(s1@.take(__it.index@), s2@, s3@)')])},
        inject=[(r'shim_char_position\(&s2, ch\)', 'proof { lemma_first_index(s2@, ch); assert(s1@.take(__it.index@ + 1).drop_last() =~= s1@.take(__it.index@)); }', 'before'),
                (r'^\s*Ok\(model::Value::Text\(r\)\)', 'proof { assert(s1@.take(s1@.len() as int) =~= s1@); }', 'before')],
        ensures=[('C05+C09:translate_maps_by_first_occurrence_and_removes_unmatched',
                  'r is Ok ==> r->Ok_0 is Text && r->Ok_0->Text_0@ == translate_spec(string_of(args@[0]), string_of(args@[1]), string_of(args@[2]))')])
    return ENV, fns


TEMPLATE, FNS = build()
UNIT = dict(name='func_strings', template=TEMPLATE, fns=FNS, props=['C09'], build=build)   # id(): C06 (per-function props)
