"""C13 ("it never panics"): the two conversions every DOM mutator argument and every navigation result goes through,
`TryFrom<XmlNode> for Rc<info::XmlItem>` (arguments of append_child / insert_before / replace_child) and
`From<Rc<info::XmlItem>> for XmlNode` (dom/src/lib.rs).  Obligation: no panic site is reachable, for every variant.

Variants are mirrored one for one with opaque payloads (compared with the source on every run); the wrapper constructors are
assumed callees.  `From<Rc<XmlItem>> for XmlNode` has no DOM node kind for an attribute-list declaration and no error channel:
its `unimplemented!` arm is dead only under the precondition that no caller converts such an item (they hang below the document
type declaration, whose children the DOM layer does not convert) -- an assumption about the call sites, listed as such."""
import os
import re

from vf.unit import Fn, Rule
from vf import rustscan

FD = 'dom/src/lib.rs'
DOM_VARIANTS = ['Element', 'Attribute', 'Text', 'CData', 'EntityReference', 'Entity', 'PI', 'Comment', 'Document', 'DocumentType', 'DocumentFragment', 'Notation', 'Namespace', 'ExpandedText']
INFO_VARIANTS = ['Attribute', 'CData', 'CharReference', 'Comment', 'DeclarationAttList', 'Document', 'DocumentType', 'Element', 'Entity', 'Namespace', 'Notation', 'PI', 'Text', 'Unexpanded', 'Unparsed']

ENV = r'''use vstd::prelude::*;
verus! {

pub mod error {
    pub enum DomException { IndexSizeErr, DomStringSizeErr, HierarchyRequestErr, WrongDocumentErr, InvalidCharacterErr, NoDataAllowedErr, NoModificationAllowedErr, NotFoundErr, NotSupportErr, InuseAttributeErr }
    pub enum Error { Dom(DomException), Info(usize), Parse(String) }
    pub type Result<T> = core::result::Result<T, Error>;
}
pub struct H { pub h: usize }
pub struct ItemRef { pub h: usize }
pub enum XmlEntityReferenceValue { Char(H), Entity(H) }
pub struct XmlAttr { pub attribute: H }
pub struct XmlCDataSection { pub data: H }
pub struct XmlComment { pub data: H }
pub struct XmlDocument { pub document: H }
pub struct XmlDocumentFragment { pub document: H }
pub struct XmlDocumentType { pub declaration: H }
pub struct XmlElement { pub element: H }
pub struct XmlEntity { pub entity: H }
pub struct XmlEntityReference { pub value: XmlEntityReferenceValue }
pub struct XmlNamespace { pub namespace: H }
pub struct XmlNotation { pub notation: H }
pub struct XmlProcessingInstruction { pub pi: H }
pub struct XmlExpandedText { pub data: Vec<H> }
pub struct XmlText { pub data: H }
pub enum XmlNode {
    Element(XmlElement), Attribute(XmlAttr), Text(XmlText), CData(XmlCDataSection), EntityReference(XmlEntityReference), Entity(XmlEntity),
    PI(XmlProcessingInstruction), Comment(XmlComment), Document(XmlDocument), DocumentType(XmlDocumentType), DocumentFragment(XmlDocumentFragment),
    Notation(XmlNotation), Namespace(XmlNamespace), ExpandedText(XmlExpandedText),
}
pub mod info {
    use crate::H;
    pub enum XmlItem {
        Attribute(H), CData(H), CharReference(H), Comment(H), DeclarationAttList(H), Document(H), DocumentType(H), Element(H), Entity(H),
        Namespace(H), Notation(H), PI(H), Text(H), Unexpanded(H), Unparsed(H),
    }
}
// Rc::new(<handle>.into()): wraps the information item of the handle
#[verifier::external_body]
pub fn shim_item(h: H) -> (r: ItemRef) { unimplemented!() }
// <Wrapper>::from(v.clone()).as_node(): the DOM node around an information item
#[verifier::external_body]
pub fn shim_node(h: &H) -> (r: XmlNode) { unimplemented!() }
#[verifier::external_body]
pub fn shim_unimplemented<T>() -> (r: T)
    requires false,
    ensures false,
{ unimplemented!() }

// ---- the character-data factories of DocumentMut ----
pub uninterp spec fn lexically_valid(kind: int, data: Seq<char>) -> bool;   // what info::Xml{Text,Comment,CData}::insert accepts (units/c16_chardata.py)
pub struct Ctx { pub h: usize }
pub struct TextItem { pub kind: Ghost<int> }
impl TextItem {
    // info::XmlText / XmlComment / XmlCData ::insert(0, data) on an EMPTY item: Ok exactly when the data is lexically valid
    // for that kind of item (no `<` / `&` / `]]>` in text, no `--` or trailing `-` in a comment, no `]]>` in a CDATA section)
    #[verifier::external_body]
    pub fn insert(&mut self, offset: usize, data: &str) -> (r: core::result::Result<(), error::Error>)
        ensures r is Ok <==> lexically_valid(old(self).kind@, data@),
    { unimplemented!() }
}
#[verifier::external_body]
pub fn shim_empty_item(ctx: &Ctx, kind: Ghost<int>) -> (r: TextItem) ensures r.kind@ == kind@ { unimplemented!() }
pub struct DocInner { pub ctx: Ctx }
impl DocInner { pub fn context(&self) -> (r: &Ctx) { &self.ctx } }
pub struct XmlDocumentM { pub document: DocInner }
pub struct XmlTextM { pub data: TextItem }
pub struct XmlCommentM { pub data: TextItem }
pub struct XmlCDataSectionM { pub data: TextItem }
impl XmlDocumentM {
    //@@ create_text_node

    //@@ create_comment

    //@@ create_cdata_section
}

pub struct __Conv {}
impl __Conv {
    //@@ to_item

    //@@ to_node
}

} // verus!
impl std::fmt::Debug for error::Error { fn fmt(&self, f: &mut std::fmt::Formatter<'_>) -> std::fmt::Result { write!(f, "Error") } }
fn main() {}
'''


def check_variants(repo):
    src = open(os.path.join(repo, FD)).read()
    m = re.search(r'pub enum XmlNode \{(.*?)\n\}', src, re.S)
    got = re.findall(r'^\s*(\w+)\(', m.group(1), re.M) if m else None
    if got is None or sorted(got) != sorted(DOM_VARIANTS):
        raise rustscan.ScanError(f'lost anchor: dom::XmlNode variants {got} differ from the mirrored {DOM_VARIANTS}')
    isrc = open(os.path.join(repo, 'info/src/lib.rs')).read()
    m = re.search(r'pub enum XmlItem \{(.*?)\n\}', isrc, re.S)
    got = re.findall(r'^\s*(\w+)\(', m.group(1), re.M) if m else None
    if got is None or sorted(got) != sorted(INFO_VARIANTS):
        raise rustscan.ScanError(f'lost anchor: info::XmlItem variants {got} differ from the mirrored {INFO_VARIANTS}')


R_UNIMPL = Rule('R21', r'(unimplemented|unreachable|todo)!\([^)]*\)', 'shim_unimplemented()', 'panic site -> call of a function with `requires false`')


def build():
    P = ['C13']
    fns = {}
    fns['to_item'] = Fn(
        FD, 'impl convert::TryFrom<XmlNode> for Rc<info::XmlItem>', 'try_from', props=P, safety_props=P, label='dom::TryFrom<XmlNode> for Rc<XmlItem>',
        sig_rules=[Rule('R11', r'Result<Self, Self::Error>', 'Result<ItemRef, error::Error>', 'associated types of the TryFrom impl spelled out'), Rule('R12', r'^fn ', 'pub fn ', 'visibility')],
        rules=[Rule('R11', r'Result<Self, Self::Error>', 'Result<ItemRef, error::Error>', 'associated types spelled out'),
               Rule('R48', r'Rc::new\((v(?:\.\w+)?)\.into\(\)\)', r'shim_item(\1)', 'Rc::new(<handle>.into()) -> shim: the information item behind the handle'),
               Rule('R16', r'Err\((error::DomException::\w+)\)\?', r'return Err(error::Error::Dom(\1))', '`Err(x)?` desugared by hand (definition of `?` with From<DomException>)'),
               R_UNIMPL])
    fns['to_node'] = Fn(
        FD, 'impl From<Rc<info::XmlItem>> for XmlNode', 'from', props=P, safety_props=P, label='dom::From<Rc<XmlItem>> for XmlNode',
        sig_rules=[Rule('R11', r'value: Rc<info::XmlItem>\) -> Self', 'value: info::XmlItem) -> XmlNode', 'Rc dropped (A4); Self spelled out'), Rule('R12', r'^fn ', 'pub fn ', 'visibility')],
        rules=[Rule('R44', r'match &\*value \{', 'match &value {', 'deref of Rc -> the value'),
               Rule('R48', r'Xml\w+::from\(v\.clone\(\)\)\.as_node\(\)', 'shim_node(v)', 'wrapper construction -> shim'),
               R_UNIMPL],
        requires=[('no_caller_hands_over_an_attribute_list_declaration', '!(value is DeclarationAttList)')])
    for (key, fname, wrapper, empty, conv, kind) in (('create_text_node', 'create_text_node', 'XmlText', 'XmlText', 'as_text', 0), ('create_comment', 'create_comment', 'XmlComment', 'XmlComment', 'as_comment', 1),
                                                     ('create_cdata_section', 'create_cdata_section', 'XmlCDataSection', 'XmlCData', 'as_cdata', 2)):
        var = {'create_text_node': 'text', 'create_comment': 'comment', 'create_cdata_section': 'cdata'}[key]
        fns[key] = Fn(
            FD, 'impl DocumentMut for XmlDocument', fname, props=P, safety_props=P, label=f'dom::XmlDocument::{fname}',
            sig_rules=[Rule('R11', r'-> ' + wrapper, '-> ' + wrapper + 'M', 'wrapper type of the model'), Rule('R12', r'^fn ', 'pub fn ', 'visibility')],
            rules=[Rule('R48', r'let ' + var + r' = info::' + empty + r'::empty\(self\.document\.borrow\(\)\.context\(\)\);', f'let {var} = shim_empty_item(self.document.context(), Ghost({kind}));', 'a fresh empty item of that kind -> shim'),
                   Rule('R48', r'let ' + var + r' = ' + var + r'\.' + conv + r'\(\)\.unwrap\(\);', f'let mut {var} = {var};', 'the item handed out by the factory is of that kind: conversion + unwrap read as the identity'),
                   Rule('R11', var + r'\.borrow_mut\(\)\.insert', var + '.insert', 'RefCell borrow dropped (A4)'),
                   Rule('R11', wrapper + r' \{ data: ' + var + r' \}', wrapper + 'M { data: ' + var + ' }', 'wrapper type of the model')])
    return ENV, fns


TEMPLATE, FNS = build()
UNIT = dict(name='c13_convert', template=TEMPLATE, fns=FNS, props=['C13'], precheck=check_variants)
