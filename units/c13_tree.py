"""C13 (tree mutators, the order-key half of "a call that fails leaves the document observably unchanged") and C14
(keys stay attached to attached nodes): the `HasChildren` trait defaults of info/src/lib.rs -- append, insert_before,
insert_after, delete -- which every DOM tree mutator (append_child, insert_before, replace_child, remove_child,
attribute value edits) goes through.

Abstract state of the receiver: `children: Seq<usize>` (ids of its child list) and `order: Seq<usize>` (the document's
order vector, shared with the inserted item: both live in the same per-document Context; that sharing is made explicit by
rewriting `value.set_order_after(id)` to `self.order_set_after(&value, id)`).  The per-type primitives
(`insert_by_id`, `delete_by_id`, `child_index`, `child_by_index`, `last_child_or_self_id`) are ASSUMED callees with the
contract their three implementations are meant to have: `insert_by_id` checks hierarchy and node type and, when it refuses,
has changed nothing.  What is verified is the composition in the trait defaults: the order vector must not be edited
before the last check that can still refuse the call.
"""
from vf.unit import Fn, Rule

FI = 'info/src/lib.rs'

ENV = r'''use vstd::prelude::*;
verus! {

pub mod error {
    pub enum Error {
        IsolatedNode,
        InvalidData(String),
        InvalidHierarchy,
        InvalidType,
        NotFoundDoumentElement,
        NotFoundReference(String),
        OufOfIndex(usize),
        Parse(String),
    }
    pub type Result<T> = core::result::Result<T, Error>;
}

// Rc<XmlItem>: a handle on an item of the same document: the item's id and WHICH allocation the handle is (the DOM layer
// wraps an item in a fresh Rc for every call; Context::node(id) resolves ids through Weak pointers to one allocation)
pub struct ItemRef { pub ident: usize, pub alloc: Ghost<int>, pub subtree: Ghost<Seq<usize>> }   // subtree: ids of the item and everything below it, in document order
impl ItemRef {
    pub fn id(&self) -> (r: usize) ensures r == self.ident { self.ident }
}
impl Clone for ItemRef {
    #[verifier::external_body]
    fn clone(&self) -> (r: Self) ensures r == *self { unimplemented!() }
}

pub open spec fn without_id(s: Seq<usize>, x: usize) -> Seq<usize> { s.filter(|v: usize| v != x) }
// the order vector with the ids of `block` taken out and put back, contiguously, directly after / before `anchor`
pub open spec fn without_block(s: Seq<usize>, block: Seq<usize>) -> Seq<usize> { s.filter(|v: usize| !block.contains(v)) }
pub open spec fn placed_after(s: Seq<usize>, anchor: usize, block: Seq<usize>) -> Seq<usize> {
    let rest = without_block(s, block);
    let k = rest.index_of(anchor);
    rest.subrange(0, k + 1) + block + rest.subrange(k + 1, rest.len() as int)
}
pub open spec fn placed_before(s: Seq<usize>, anchor: usize, block: Seq<usize>) -> Seq<usize> {
    let rest = without_block(s, block);
    let k = rest.index_of(anchor);
    rest.subrange(0, k) + block + rest.subrange(k, rest.len() as int)
}
pub open spec fn index_of_id(s: Seq<usize>, x: usize) -> int { s.index_of(x) }

// a node with children, seen from its trait defaults
pub struct Parent {
    pub ident: usize,
    pub children: Ghost<Seq<usize>>,   // ids of the child list
    pub order: Ghost<Seq<usize>>,      // the document's order vector (ids), shared through the Context
    pub registered: Ghost<Map<usize, int>>,   // Context.id_map: which allocation an id resolves to (shared through the Context)
    pub last_desc: Ghost<usize>,       // id of the last item, in document order, of this node's subtree (itself if it has nothing below)
}

impl Parent {
    // whether insert_by_id's hierarchy / type checks let this item in (uninterpreted: decided by the per-type primitive)
    pub uninterp spec fn accepts(self, value: ItemRef) -> bool;
    // the child list after `value` was (re)inserted before child `id` / appended
    pub open spec fn inserted_before(children: Seq<usize>, v: usize, id: usize) -> Seq<usize> {
        let rest = without_id(children, v);
        rest.insert(rest.index_of(id), v)
    }

    pub open spec fn same_state(self, other: Parent) -> bool {
        self.children@ == other.children@ && self.order@ == other.order@ && self.ident == other.ident && self.registered@ == other.registered@
    }

    // ---- assumed callees: the per-type primitives (XmlElement / XmlDocument / XmlAttribute implement them) ----
    #[verifier::external_body]
    pub fn child_index(&self, id: usize) -> (r: Option<usize>)
        ensures r is Some <==> self.children@.contains(id),
                r is Some ==> r->Some_0 < self.children@.len() && self.children@[r->Some_0 as int] == id && r->Some_0 == self.children@.index_of(id),
                self.children@.len() <= usize::MAX,   // the child list is a Vec
    { unimplemented!() }

    #[verifier::external_body]
    pub fn child_by_index(&self, index: usize) -> (r: Option<ItemRef>)
        ensures r is Some <==> index < self.children@.len(),
                r is Some ==> r->Some_0.ident == self.children@[index as int],
    { unimplemented!() }

    // verified for XmlElement / XmlDocument below (prim): the LAST DESCENDANT (or the last attribute, or the node itself)
    #[verifier::external_body]
    pub fn last_child_or_self_id(&self) -> (r: usize)
        ensures r == self.last_desc@,
    { unimplemented!() }

    // removes the child with that id from the child list (the order vector is not its business)
    #[verifier::external_body]
    pub fn delete_by_id(&mut self, id: usize) -> (r: Option<ItemRef>)
        ensures final(self).order@ == old(self).order@, final(self).ident == old(self).ident, final(self).registered@ == old(self).registered@,
                r is None ==> final(self).children@ == old(self).children@,
                r is Some <==> old(self).children@.contains(id),   // proved of XmlElement's and XmlDocument's below
                r is Some ==> r->Some_0.ident == id && final(self).children@ == without_id(old(self).children@, id),
    { unimplemented!() }

    // hierarchy and type checks, then the child-list edit; a refused call has changed nothing (assumed: what the three
    // implementations are meant to guarantee)
    #[verifier::external_body]
    pub fn insert_by_id(&mut self, value: ItemRef, id: Option<usize>) -> (r: error::Result<ItemRef>)
        ensures final(self).order@ == old(self).order@, final(self).ident == old(self).ident, final(self).registered@ == old(self).registered@,
                final(self).last_desc@ == old(self).last_desc@,
                r is Err ==> final(self).children@ == old(self).children@,
                r is Err ==> !(r->Err_0 is OufOfIndex),   // proved of the three implementations below: OufOfIndex is the trait default's own answer (the reference is not a child)
                r is Ok <==> old(self).accepts(value),
                r is Ok ==> r->Ok_0 == value && final(self).children@.contains(value.ident),
                r is Ok ==> final(self).children@ == (match id {
                    Some(x) => Parent::inserted_before(old(self).children@, value.ident, x),
                    None => without_id(old(self).children@, value.ident).push(value.ident),
                }),
    { unimplemented!() }

    // value.set_order_after(id) / set_order_before(id) / clear_order(): HasContext methods of the ITEM, acting on the
    // document's shared order vector (verified in units/c14_order.py); None = refused, nothing changed
    #[verifier::external_body]
    pub fn order_set_after(&mut self, value: &ItemRef, id: usize) -> (r: Option<usize>)
        ensures final(self).children@ == old(self).children@, final(self).ident == old(self).ident, final(self).registered@ == old(self).registered@,
                r is None ==> final(self).order@ == old(self).order@,
                r is Some <==> (old(self).order@.contains(id) && id != value.ident),
                r is Some ==> final(self).order@ == placed_after(old(self).order@, id, seq![value.ident]),
                final(self).last_desc@ == old(self).last_desc@,
    { unimplemented!() }
    #[verifier::external_body]
    pub fn order_set_before(&mut self, value: &ItemRef, id: usize) -> (r: Option<usize>)
        ensures final(self).children@ == old(self).children@, final(self).ident == old(self).ident, final(self).registered@ == old(self).registered@,
                r is None ==> final(self).order@ == old(self).order@,
                r is Some <==> (old(self).order@.contains(id) && id != value.ident),
                r is Some ==> final(self).order@ == placed_before(old(self).order@, id, seq![value.ident]),
                final(self).last_desc@ == old(self).last_desc@,
    { unimplemented!() }
    // value.place_subtree_after(id) / place_subtree_before(id): the item AND everything below it get consecutive keys next
    // to `id`.  VERIFIED in units/c14_subtree.py (XmlItem::place_subtree_after / _before over the concrete item tree) on
    // exactly this domain: the anchor is numbered and outside the subtree, ids are unique; nothing is claimed outside it
    #[verifier::external_body]
    pub fn order_place_subtree_after(&mut self, value: &ItemRef, id: usize) -> (r: Option<usize>)
        ensures final(self).children@ == old(self).children@, final(self).ident == old(self).ident, final(self).registered@ == old(self).registered@,
                final(self).last_desc@ == old(self).last_desc@,
                (old(self).order@.contains(id) && !value.subtree@.contains(id) && old(self).order@.no_duplicates() && value.subtree@.no_duplicates())
                    ==> r is Some && final(self).order@ == placed_after(old(self).order@, id, value.subtree@),
    { unimplemented!() }
    #[verifier::external_body]
    pub fn order_place_subtree_before(&mut self, value: &ItemRef, id: usize) -> (r: Option<usize>)
        ensures final(self).children@ == old(self).children@, final(self).ident == old(self).ident, final(self).registered@ == old(self).registered@,
                final(self).last_desc@ == old(self).last_desc@,
                (old(self).order@.contains(id) && !value.subtree@.contains(id) && old(self).order@.no_duplicates() && value.subtree@.no_duplicates())
                    ==> r is Some && final(self).order@ == placed_before(old(self).order@, id, value.subtree@),
    { unimplemented!() }
    #[verifier::external_body]
    pub fn order_clear(&mut self, value: &ItemRef)
        ensures final(self).children@ == old(self).children@, final(self).ident == old(self).ident, final(self).registered@ == old(self).registered@,
                final(self).order@ == without_id(old(self).order@, value.ident),
    { unimplemented!() }

    // self.context().register(&value): Context.id_map[value.id] now points at THIS handle
    #[verifier::external_body]
    pub fn ctx_register(&mut self, value: &ItemRef)
        ensures final(self).children@ == old(self).children@, final(self).ident == old(self).ident, final(self).order@ == old(self).order@,
                final(self).registered@ == old(self).registered@.insert(value.ident, value.alloc@), final(self).last_desc@ == old(self).last_desc@,
    { unimplemented!() }

    //@@ append

    //@@ delete

    //@@ insert_after

    //@@ insert_before
}

// =====================================================================================================
// the per-type primitive insert_by_id of XmlElement and XmlAttribute (XmlDocument's uses a nested helper fn and stays
// an assumed callee).  World model on the receiver: its own child list (a real Vec of handles) and the parent link of
// every item of the document (`parent_of`, ghost).  `value.remove_from_parent()` / `value.set_parent_id(..)` act on that
// shared world and are rewritten to methods of the receiver (R43).
// =====================================================================================================
pub mod prim {
    use vstd::prelude::*;
    use crate::error;

    // info::XmlItem (variants only; the payload is the handle)
    pub enum XmlItem {
        Attribute(usize), CData(usize), CharReference(usize), Comment(usize), DeclarationAttList(usize), Document(usize),
        DocumentType(usize), Element(usize), Entity(usize), Namespace(usize), Notation(usize), PI(usize), Text(usize),
        Unexpanded(usize), Unparsed(usize),
    }
    // subtree: ids of the item and everything below it (attributes before children), in document order; key: its cached order key
    pub struct ItemRef { pub ident: usize, pub item: XmlItem, pub subtree: Ghost<Seq<usize>>, pub key: Ghost<usize> }
    impl ItemRef {
        pub open spec fn wf(self) -> bool { self.subtree@.len() > 0 && self.subtree@[0] == self.ident }
        // XmlItem::last_descendant_or_self_id: walks the live subtree (assumed callee)
        #[verifier::external_body]
        pub fn last_descendant_or_self_id(&self) -> (r: usize)
            ensures r == self.subtree@.last(),
        { unimplemented!() }
        #[verifier::external_body]
        pub fn order(&self) -> (r: usize)
            ensures r == self.key@,
        { unimplemented!() }
        pub fn id(&self) -> (r: usize) ensures r == self.ident { self.ident }
        pub fn item(&self) -> (r: &XmlItem) ensures *r == self.item { &self.item }
    }
    impl Clone for ItemRef {
        #[verifier::external_body]
        fn clone(&self) -> (r: Self) ensures r == *self { unimplemented!() }
    }
    pub open spec fn ids(v: Seq<ItemRef>) -> Seq<usize> { v.map_values(|x: ItemRef| x.ident) }

    // XmlAttributeValue::try_from(item): only text, character references and entity references are attribute values
    pub struct XmlAttributeValue { pub ident: usize }
    impl Clone for XmlAttributeValue {
        #[verifier::external_body]
        fn clone(&self) -> (r: Self) ensures r == *self { unimplemented!() }
    }
    #[verifier::external_body]
    pub fn attribute_value_try_from(value: ItemRef) -> (r: error::Result<XmlAttributeValue>)
        ensures r is Ok ==> r->Ok_0.ident == value.ident,
                r is Ok <==> (value.item is Text || value.item is CharReference || value.item is Unexpanded),
                r is Err ==> !(r->Err_0 is OufOfIndex),   // its one error is InvalidType
    { unimplemented!() }
    pub open spec fn value_ids(v: Seq<XmlAttributeValue>) -> Seq<usize> { v.map_values(|x: XmlAttributeValue| x.ident) }

    // what survives `filter(ident != dropped)`: every element with another id
    pub proof fn lemma_filter_keeps_items(s: Seq<ItemRef>, dropped: usize, keep: Option<usize>)
        requires keep is Some, keep->Some_0 != dropped, ids(s).contains(keep->Some_0),
        ensures ids(s.filter(|x: ItemRef| x.ident != dropped)).contains(keep->Some_0),
    {
        let pred = |x: ItemRef| x.ident != dropped;
        s.filter_lemma(pred);
        let i = choose|i: int| 0 <= i < ids(s).len() && ids(s)[i] == keep->Some_0;
        assert(ids(s)[i] == s[i].ident);
        assert(pred(s[i]));
        let f = s.filter(pred);
        assert(f.contains(s[i]));
        let j = choose|j: int| 0 <= j < f.len() && f[j] == s[i];
        assert(ids(f)[j] == keep->Some_0);
    }
    pub proof fn lemma_filter_keeps_values(s: Seq<XmlAttributeValue>, dropped: usize, keep: Option<usize>)
        requires keep is Some, keep->Some_0 != dropped, value_ids(s).contains(keep->Some_0),
        ensures value_ids(s.filter(|x: XmlAttributeValue| x.ident != dropped)).contains(keep->Some_0),
    {
        let pred = |x: XmlAttributeValue| x.ident != dropped;
        s.filter_lemma(pred);
        let i = choose|i: int| 0 <= i < value_ids(s).len() && value_ids(s)[i] == keep->Some_0;
        assert(value_ids(s)[i] == s[i].ident);
        assert(pred(s[i]));
        let f = s.filter(pred);
        assert(f.contains(s[i]));
        let j = choose|j: int| 0 <= j < f.len() && f[j] == s[i];
        assert(value_ids(f)[j] == keep->Some_0);
    }

    pub struct XmlElement {
        pub ident: usize,
        pub children: Vec<ItemRef>,
        pub attributes: Vec<ItemRef>,
        pub parent_of: Ghost<Map<usize, Option<usize>>>,
        pub order: Ghost<Seq<usize>>,   // the document's order vector (shared through the Context)
    }
    // self.children.borrow().iter().last() / self.attributes.iter().max_by_key(|v| v.order())
    #[verifier::external_body]
    pub fn shim_last<'a>(v: &'a Vec<ItemRef>) -> (r: Option<&'a ItemRef>)
        ensures r is Some <==> v@.len() > 0, r is Some ==> *r->Some_0 == v@.last(),
    { v.iter().last() }
    pub open spec fn is_max_key(v: Seq<ItemRef>, x: ItemRef) -> bool {
        v.contains(x) && (forall|i: int| 0 <= i < v.len() ==> #[trigger] v[i].key@ <= x.key@)
    }
    #[verifier::external_body]
    pub fn shim_max_by_order<'a>(v: &'a Vec<ItemRef>) -> (r: Option<&'a ItemRef>)
        ensures r is Some <==> v@.len() > 0, r is Some ==> is_max_key(v@, *r->Some_0),
    { unimplemented!() /* v.iter().max_by_key(|v| v.order()) */ }
    // the id after which a new child (resp. a new attribute) of an element belongs in document order
    pub open spec fn child_anchor(e: XmlElement, a: usize) -> bool {
        if e.children@.len() > 0 { a == e.children@.last().subtree@.last() }
        else if e.attributes@.len() > 0 { exists|x: ItemRef| is_max_key(e.attributes@, x) && a == x.subtree@.last() }
        else { a == e.ident }
    }
    pub open spec fn attribute_anchor(e: XmlElement, a: usize) -> bool {
        if e.attributes@.len() > 0 { exists|x: ItemRef| is_max_key(e.attributes@, x) && a == x.subtree@.last() }
        else { a == e.ident }
    }
    pub struct XmlAttribute {
        pub ident: usize,
        pub values: Vec<XmlAttributeValue>,
        pub parent_of: Ghost<Map<usize, Option<usize>>>,
    }

    // ---- XmlElement::remove_attribute: the attribute list by local name ----
    pub uninterp spec fn local_name_of(id: usize) -> Seq<char>;     // the local name of an attribute item: never changes
    pub open spec fn first_named(s: Seq<ItemRef>, name: Seq<char>) -> int
        decreases s.len(),
    {
        if s.len() == 0 { -1 } else if local_name_of(s[0].ident) == name { 0 } else { let r = first_named(s.subrange(1, s.len() as int), name); if r < 0 { -1 } else { r + 1 } }
    }
    pub open spec fn distinct_items(s: Seq<ItemRef>) -> bool { forall|i: int, j: int| 0 <= i < j < s.len() ==> (#[trigger] s[i]).ident != (#[trigger] s[j]).ident }
    // self.attributes.iter().find(|v| v.as_attribute().unwrap().borrow().local_name() == name).cloned(): the first one with that local name
    #[verifier::external_body]
    pub fn shim_find_by_local_name(v: &Vec<ItemRef>, name: &str) -> (r: Option<ItemRef>)
        ensures ({ let i = first_named(v@, name@); (r is Some <==> i >= 0) && (r is Some ==> r->Some_0 == v@[i]) }),
    { unimplemented!() }
    // self.attributes.retain(|a| a.id() != id)
    #[verifier::external_body]
    pub fn shim_retain_other_ids(v: &mut Vec<ItemRef>, id: usize)
        ensures final(v)@ == old(v)@.filter(|x: ItemRef| x.ident != id),
    { unimplemented!() }
    pub proof fn lemma_first_named_bounds(s: Seq<ItemRef>, name: Seq<char>)
        ensures -1 <= first_named(s, name) < s.len(),
        decreases s.len(),
    {
        if s.len() > 0 && local_name_of(s[0].ident) != name { lemma_first_named_bounds(s.subrange(1, s.len() as int), name); }
    }
    // keeping everything keeps everything
    pub proof fn lemma_filter_keeps_all(s: Seq<ItemRef>, id: usize)
        requires forall|k: int| 0 <= k < s.len() ==> (#[trigger] s[k]).ident != id,
        ensures s.filter(|x: ItemRef| x.ident != id) =~= s,
        decreases s.len(),
    {
        reveal(Seq::filter);
        if s.len() > 0 {
            let d = s.drop_last();
            assert forall|k: int| 0 <= k < d.len() implies (#[trigger] d[k]).ident != id by { assert(d[k] == s[k]); }
            lemma_filter_keeps_all(d, id);
            assert(s.last().ident != id);
        }
    }
    // in a list of pairwise different items, dropping "the id of entry i" drops exactly entry i
    pub proof fn lemma_filter_is_remove(s: Seq<ItemRef>, i: int)
        requires distinct_items(s), 0 <= i < s.len(),
        ensures s.filter(|x: ItemRef| x.ident != s[i].ident) =~= s.remove(i),
        decreases s.len(),
    {
        reveal(Seq::filter);
        let id = s[i].ident;
        let d = s.drop_last();
        if i == s.len() - 1 {
            assert forall|k: int| 0 <= k < d.len() implies (#[trigger] d[k]).ident != id by { assert(d[k] == s[k]); }
            lemma_filter_keeps_all(d, id);
            assert(s.remove(i) =~= d);
        } else {
            assert(distinct_items(d)) by { assert forall|a: int, b: int| 0 <= a < b < d.len() implies (#[trigger] d[a]).ident != (#[trigger] d[b]).ident by { assert(d[a] == s[a]); assert(d[b] == s[b]); } }
            assert(d[i] == s[i]);
            lemma_filter_is_remove(d, i);
            assert(s.last().ident != id);
            assert(s.remove(i) =~= d.remove(i).push(s.last()));
        }
    }

    impl XmlElement {
        pub fn id(&self) -> (r: usize) ensures r == self.ident { self.ident }
        // v.clear_order(): the item leaves the document order vector (units/c14_order.py); lists and parent links stay
        #[verifier::external_body]
        pub fn world_clear_order(&mut self, value: &ItemRef)
            ensures final(self).ident == old(self).ident, final(self).children@ == old(self).children@, final(self).attributes@ == old(self).attributes@,
                    final(self).parent_of@ == old(self).parent_of@,
        { unimplemented!() }
        // HasParent::ancestor: walks parent links (assumed callee, read-only)
        #[verifier::external_body]
        pub fn ancestor(&self, id: usize) -> (r: bool) { unimplemented!() }
        #[verifier::external_body]
        pub fn child_index(&self, id: usize) -> (r: Option<usize>)
            ensures r is Some <==> ids(self.children@).contains(id),
                    r is Some ==> r->Some_0 < self.children@.len() && self.children@[r->Some_0 as int].ident == id,
        { unimplemented!() }
        // value.remove_from_parent(): the old parent forgets the item (if the old parent is this node, its own list shrinks)
        #[verifier::external_body]
        pub fn world_remove_from_parent(&mut self, value: &ItemRef)
            ensures final(self).ident == old(self).ident,
                    final(self).parent_of@ == old(self).parent_of@.insert(value.ident, None),
                    final(self).children@ == old(self).children@.filter(|x: ItemRef| x.ident != value.ident),
        { unimplemented!() }
        #[verifier::external_body]
        pub fn world_set_parent_id(&mut self, value: &ItemRef, parent: Option<usize>)
            ensures final(self).ident == old(self).ident, final(self).children@ == old(self).children@,
                    final(self).attributes@ == old(self).attributes@, final(self).order@ == old(self).order@,
                    final(self).parent_of@ == old(self).parent_of@.insert(value.ident, parent),
        { unimplemented!() }

        // value.parent_id(): the parent link as the shared world records it
        #[verifier::external_body]
        pub fn world_parent_id(&self, value: &ItemRef) -> (r: Option<usize>)
            ensures r == (if self.parent_of@.dom().contains(value.ident) { self.parent_of@[value.ident] } else { None::<usize> }),
        { unimplemented!() }

        // attr.init_order_recursive(): numbers the item and everything below it at the END of the order vector
        #[verifier::external_body]
        pub fn world_init_order_recursive(&mut self, value: &ItemRef)
            ensures final(self).ident == old(self).ident, final(self).children@ == old(self).children@, final(self).attributes@ == old(self).attributes@,
                    final(self).parent_of@ == old(self).parent_of@,
                    final(self).order@ == crate::without_block(old(self).order@, value.subtree@) + value.subtree@,
        { unimplemented!() }
        // attr.place_subtree_after(id): verified in units/c14_subtree.py on this domain (see HasChildren above)
        #[verifier::external_body]
        pub fn world_place_subtree_after(&mut self, value: &ItemRef, id: usize) -> (r: Option<usize>)
            ensures final(self).ident == old(self).ident, final(self).children@ == old(self).children@, final(self).attributes@ == old(self).attributes@,
                    final(self).parent_of@ == old(self).parent_of@,
                    (old(self).order@.contains(id) && !value.subtree@.contains(id) && old(self).order@.no_duplicates() && value.subtree@.no_duplicates())
                        ==> r is Some && final(self).order@ == crate::placed_after(old(self).order@, id, value.subtree@),
        { unimplemented!() }

        //@@ element_last_child_or_self_id

        //@@ element_append_attribute

        //@@ element_remove_attribute

        //@@ element_insert_by_id

        //@@ element_delete_by_id
    }

    pub struct XmlDocument {
        pub ident: usize,
        pub children: Vec<ItemRef>,
        pub parent_of: Ghost<Map<usize, Option<usize>>>,
        pub has_doctype: Ghost<bool>,   // the child list already holds a document type declaration
        pub root: Ghost<Option<usize>>, // the handle (= id) of the document element the child list holds, if any
    }
    impl XmlDocument {
        pub fn id(&self) -> (r: usize) ensures r == self.ident { self.ident }
        #[verifier::external_body]
        pub fn child_index(&self, id: usize) -> (r: Option<usize>)
            ensures r is Some <==> ids(self.children@).contains(id),
                    r is Some ==> r->Some_0 < self.children@.len() && self.children@[r->Some_0 as int].ident == id,
        { unimplemented!() }
        // read-only lookups over the child list (assumed callees)
        #[verifier::external_body]
        pub fn document_declaration(&self) -> (r: Option<usize>) ensures r is Some <==> self.has_doctype@ { unimplemented!() }
        #[verifier::external_body]
        pub fn document_element(&self) -> (r: error::Result<usize>) ensures r is Ok <==> self.root@ is Some, r is Ok ==> r->Ok_0 == self.root@->Some_0 { unimplemented!() }
        // Rc::ptr_eq on two element handles: the same item
        #[verifier::external_body]
        pub fn same_handle(a: usize, b: usize) -> (r: bool) ensures r == (a == b) { unimplemented!() }
        #[verifier::external_body]
        pub fn world_remove_from_parent(&mut self, value: &ItemRef)
            ensures final(self).ident == old(self).ident,
                    final(self).parent_of@ == old(self).parent_of@.insert(value.ident, None),
                    final(self).children@ == old(self).children@.filter(|x: ItemRef| x.ident != value.ident),
        { unimplemented!() }
        #[verifier::external_body]
        pub fn world_set_parent_id(&mut self, value: &ItemRef, parent: Option<usize>)
            ensures final(self).ident == old(self).ident, final(self).children@ == old(self).children@,
                    final(self).parent_of@ == old(self).parent_of@.insert(value.ident, parent),
        { unimplemented!() }

        // value.parent_id(): the parent link as the shared world records it
        #[verifier::external_body]
        pub fn world_parent_id(&self, value: &ItemRef) -> (r: Option<usize>)
            ensures r == (if self.parent_of@.dom().contains(value.ident) { self.parent_of@[value.ident] } else { None::<usize> }),
        { unimplemented!() }

        //@@ document_last_child_or_self_id

        //@@ document_insert_by_id

        //@@ document_delete_by_id
    }

    impl XmlAttribute {
        pub fn id(&self) -> (r: usize) ensures r == self.ident { self.ident }
        #[verifier::external_body]
        pub fn ancestor(&self, id: usize) -> (r: bool) { unimplemented!() }
        #[verifier::external_body]
        pub fn child_index(&self, id: usize) -> (r: Option<usize>)
            ensures r is Some <==> value_ids(self.values@).contains(id),
                    r is Some ==> r->Some_0 < self.values@.len() && self.values@[r->Some_0 as int].ident == id,
        { unimplemented!() }
        #[verifier::external_body]
        pub fn world_remove_from_parent(&mut self, value: &ItemRef)
            ensures final(self).ident == old(self).ident,
                    final(self).parent_of@ == old(self).parent_of@.insert(value.ident, None),
                    final(self).values@ == old(self).values@.filter(|x: XmlAttributeValue| x.ident != value.ident),
        { unimplemented!() }
        #[verifier::external_body]
        pub fn world_set_parent_id(&mut self, value: &ItemRef, parent: Option<usize>)
            ensures final(self).ident == old(self).ident, final(self).values@ == old(self).values@,
                    final(self).parent_of@ == old(self).parent_of@.insert(value.ident, parent),
        { unimplemented!() }

        // value.parent_id(): the parent link as the shared world records it
        #[verifier::external_body]
        pub fn world_parent_id(&self, value: &ItemRef) -> (r: Option<usize>)
            ensures r == (if self.parent_of@.dom().contains(value.ident) { self.parent_of@[value.ident] } else { None::<usize> }),
        { unimplemented!() }

        //@@ attribute_insert_by_id
    }
}

} // verus!
fn main() {}
'''

TR = 'pub trait HasChildren: HasContext'
PUB = Rule('R12', r'^fn ', 'pub fn ', 'visibility (no runtime meaning)')
R_MUT = Rule('R14', r'\(&self\b', '(&mut self', '&self of a method that mutates through RefCell -> &mut self (A4)')
R_RC = Rule('R11', r'Rc<XmlItem>', 'ItemRef', 'Rc<XmlItem> -> environment handle carrying the id (A4)')
R_AFTER = Rule('R43', r'value\s*\.set_order_after\(id\)', 'self.order_set_after(&value, id)', 'the item edits the order vector of the SAME document: the shared state is made explicit on the receiver')
R_BEFORE = Rule('R43', r'value\s*\.set_order_before\(id\)', 'self.order_set_before(&value, id)', 'same')
R_PLA = Rule('R43', r'value\s*\.place_subtree_after\(id\)', 'self.order_place_subtree_after(&value, id)', 'the item renumbers its subtree in the SAME document order vector: made explicit on the receiver')
R_PLB = Rule('R43', r'value\s*\.place_subtree_before\(id\)', 'self.order_place_subtree_before(&value, id)', 'same')
R_REG = Rule('R43', r'self\.context\(\)\.register\(&value\);', 'self.ctx_register(&value);', 'Context::register on the shared id map: made explicit on the receiver')
R_CLEAR = Rule('R43', r'v\.clear_order\(\);', 'self.order_clear(&v);', 'same')
UNCHANGED = 'final(self).same_state(*old(self))'


def build():
    fns = {}
    P = ['C13']
    SR = [PUB, R_MUT, R_RC]
    fns['append'] = Fn(FI, TR, 'append', props=P, sig_rules=SR, rules=[R_AFTER, R_PLA, R_REG], label='HasChildren::append (trait default)',
                       ensures=[('C13+C14:refused_call_changes_nothing', f'r is Err ==> {UNCHANGED}'),
                                ('C13:accepted_child_is_in_the_list_and_numbered', 'r is Ok ==> final(self).children@.contains(value.ident)'),
                                ('C13:succeeds_exactly_when_the_node_is_acceptable', 'r is Ok <==> old(self).accepts(value)'),
                                ('C13:the_child_becomes_the_last_child', 'r is Ok ==> final(self).children@ == without_id(old(self).children@, value.ident).push(value.ident)'),
                                ('C12:the_listed_handle_is_the_one_the_id_resolves_to', 'r is Ok ==> final(self).registered@.dom().contains(value.ident) && final(self).registered@[value.ident] == value.alloc@'),
                                ('C14:whole_subtree_is_numbered_after_the_last_descendant', 'r is Ok && old(self).order@.contains(old(self).last_desc@) && !value.subtree@.contains(old(self).last_desc@) && old(self).order@.no_duplicates() && value.subtree@.no_duplicates() ==> final(self).order@ == placed_after(old(self).order@, old(self).last_desc@, value.subtree@)')])
    fns['delete'] = Fn(FI, TR, 'delete', props=P, sig_rules=SR, rules=[R_CLEAR], label='HasChildren::delete (trait default)',
                       ensures=[('C13:unknown_child_changes_nothing', f'r is None ==> {UNCHANGED}'),
                                ('C13:a_child_is_removed_and_answered_exactly_when_it_is_listed', 'r is Some <==> old(self).children@.contains(id)'),
                                ('C13:the_answer_is_the_child', 'r is Some ==> r->Some_0.ident == id'),
                                ('C13+C14:removed_child_loses_its_key', 'r is Some ==> final(self).children@ == without_id(old(self).children@, id) && final(self).order@ == without_id(old(self).order@, id)')])
    fns['insert_before'] = Fn(FI, TR, 'insert_before', props=P, sig_rules=SR, rules=[R_BEFORE, R_PLB, R_REG], label='HasChildren::insert_before (trait default)',
                              ensures=[('C13+C14:refused_call_changes_nothing', f'r is Err ==> {UNCHANGED}'),
                                       ('C13:unknown_reference_is_refused', '!old(self).children@.contains(id) ==> r is Err'),
                                       # (a node inserted before ITSELF: DOM Level 1 does not say; refused with OufOfIndex today, and a call that succeeded and changed
                                       # nothing would be as good -- the clauses below leave that corner open rather than pin it down)
                                       ('C13:out_of_index_exactly_when_the_reference_is_not_a_child_or_is_the_node_itself',
                                        '(!old(self).children@.contains(id) ==> r is Err && r->Err_0 is OufOfIndex) && (r is Err && r->Err_0 is OufOfIndex ==> !old(self).children@.contains(id) || value.ident == id)'),
                                       ('C13:accepted_child_is_in_the_list_and_numbered', 'r is Ok ==> final(self).children@.contains(value.ident)'),
                                       ('C13:succeeds_exactly_when_reference_and_node_are_acceptable', '(r is Ok ==> old(self).children@.contains(id)) && (value.ident != id ==> (r is Ok <==> (old(self).children@.contains(id) && old(self).accepts(value))))'),
                                       ('C13:the_child_lands_directly_before_the_reference', '(r is Ok && value.ident != id ==> final(self).children@ == Parent::inserted_before(old(self).children@, value.ident, id)) && (r is Ok && value.ident == id ==> final(self).children@ == old(self).children@)'),
                                       ('C12:the_listed_handle_is_the_one_the_id_resolves_to', 'r is Ok ==> final(self).registered@.dom().contains(value.ident) && final(self).registered@[value.ident] == value.alloc@'),
                                       ('C14:whole_subtree_is_numbered_before_the_reference', 'r is Ok && old(self).order@.contains(id) && !value.subtree@.contains(id) && old(self).order@.no_duplicates() && value.subtree@.no_duplicates() ==> final(self).order@ == placed_before(old(self).order@, id, value.subtree@)')])
    fns['insert_after'] = Fn(FI, TR, 'insert_after', props=P, sig_rules=SR, label='HasChildren::insert_after (trait default)',
                             rules=[Rule('R28', r'child\.id\(\)', 'child.id()', 'unchanged')],
                             ensures=[('C13+C14:refused_call_changes_nothing', f'r is Err ==> {UNCHANGED}'),
                                      ('C13:unknown_reference_is_refused', '!old(self).children@.contains(id) ==> r is Err'),
                                      ('C13:accepted_child_is_in_the_list_and_numbered', 'r is Ok ==> final(self).children@.contains(value.ident)'),
                                      ('C13:the_child_lands_directly_after_the_reference',
                                       '({ let l = old(self).children@; let k = l.index_of(id) + 1; r is Ok ==> final(self).children@ == (if k < l.len()'
                                       ' { if value.ident != l[k] { Parent::inserted_before(l, value.ident, l[k]) } else { l } }'   # (already directly after the reference: see insert_before)
                                       ' else { without_id(l, value.ident).push(value.ident) }) })'),
                                      ('C12:the_listed_handle_is_the_one_the_id_resolves_to', 'r is Ok ==> final(self).registered@.dom().contains(value.ident) && final(self).registered@[value.ident] == value.alloc@')])
    R_PRIM = [Rule('R43', r'value\.parent_id\(\)', 'self.world_parent_id(&value)', 'the parent link lives in the shared world: read through the receiver'),
              Rule('R43', r'value\.remove_from_parent\(\);', 'self.world_remove_from_parent(&value);', 'the item leaves its old parent: shared world made explicit on the receiver'),
              Rule('R43', r'value\.set_parent_id\(Some\(self\.id\(\)\)\);', 'let __me = self.id(); self.world_set_parent_id(&value, Some(__me));', 'same'),
              Rule('R11', r'self\.(children|values)\.borrow_mut\(\)\.', r'self.\1.', 'RefCell borrow dropped (A4)'),
              Rule('R44', r'match &\*value \{', 'match value.item() {', 'deref of Rc<XmlItem> -> accessor of the environment handle'),
              Rule('R44', r'XmlAttributeValue::try_from\(value\.clone\(\)\)', 'attribute_value_try_from(value.clone())', 'TryFrom<Rc<XmlItem>> for XmlAttributeValue -> assumed callee')]
    SRP = [PUB, R_MUT, Rule('R11', r'Rc<XmlItem>', 'ItemRef', 'Rc<XmlItem> -> environment handle (A4)')]
    REQ = [('reference_child_exists_and_is_not_the_value', 'id is Some ==> id->Some_0 != value.ident && {}.contains(id->Some_0)')]
    for (key, owner, lst, idsf, label, lem) in (('element_insert_by_id', 'impl HasChildren for XmlElement', 'children', 'ids', 'XmlElement::insert_by_id', 'lemma_filter_keeps_items'),
                                                ('attribute_insert_by_id', 'impl HasChildren for XmlAttribute', 'values', 'value_ids', 'XmlAttribute::insert_by_id', 'lemma_filter_keeps_values')):
        fns[key] = Fn(FI, owner, 'insert_by_id', props=P, sig_rules=SRP, rules=R_PRIM, label=label,
                      requires=[('reference_child_exists_and_is_not_the_value', f'id is Some ==> id->Some_0 != value.ident && {idsf}(old(self).{lst}@).contains(id->Some_0)')],
                      ensures=[('C13+C12:refused_call_changes_nothing', f'r is Err ==> final(self).{lst}@ == old(self).{lst}@ && final(self).parent_of@ == old(self).parent_of@'),
                               ('C13+C12:accepted_child_is_listed_once_under_this_parent', f'r is Ok ==> r->Ok_0 == value && {idsf}(final(self).{lst}@).contains(value.ident) && final(self).parent_of@[value.ident] == Some(old(self).ident)'),
                               ('C13:a_refusal_is_never_out_of_index', 'r is Err ==> !(r->Err_0 is OufOfIndex)')],
                      inject=[(r'let index = self\.child_index\(id\)\.unwrap\(\);', f'proof {{ {lem}(old(self).{lst}@, value.ident, Some(id)); }}', 'before'),
                              (rf'self\.{lst}\.insert\(index, ', f'proof {{ assert({idsf}(self.{lst}@)[index as int] == value.ident); }}'),
                              (rf'self\.{lst}\.push\(', f'proof {{ assert({idsf}(self.{lst}@)[self.{lst}@.len() - 1] == value.ident); }}')])
    ADD_REQ = 'requires id is Some ==> id->Some_0 != value.ident && ids(old(doc).children@).contains(id->Some_0),'
    ADD_ENS = ('ensures ids(final(doc).children@).contains(value.ident) && final(doc).parent_of@[value.ident] == Some(old(doc).ident) && final(doc).ident == old(doc).ident'
               ' && (forall|i: int, j: int| 0 <= i < final(doc).children@.len() && 0 <= j < final(doc).children@.len() && #[trigger] ids(final(doc).children@)[i] == value.ident && #[trigger] ids(final(doc).children@)[j] == value.ident ==> i == j),')
    fns['document_insert_by_id'] = Fn(
        FI, 'impl HasChildren for XmlDocument', 'insert_by_id', props=P, sig_rules=SRP, label='XmlDocument::insert_by_id',
        rules=[Rule('R45', r'fn add_or_insert\(doc: &XmlDocument, value: Rc<XmlItem>, id: Option<usize>\) \{(.*?)\n        \}',
                    lambda m: (f'fn add_or_insert(doc: &mut XmlDocument, value: ItemRef, id: Option<usize>) {ADD_REQ} {ADD_ENS} {{'
                               + m.group(1).replace('value.remove_from_parent();', 'doc.world_remove_from_parent(&value);')
                                           .replace('value.set_parent_id(Some(doc.id()));', 'let __me = doc.id(); doc.world_set_parent_id(&value, Some(__me));')
                                           .replace('doc.children.borrow_mut().', 'doc.children.')
                               + '\n        }'),
                    'nested helper: &XmlDocument mutated through RefCell -> &mut (A4), Rc<XmlItem> -> ItemRef, world edits on `doc`; its contract is spliced here (specification only)'),
               Rule('R43', r'value\.remove_from_parent\(\);', 'self.world_remove_from_parent(&value);', 'outside the helper the shared world is the receiver'),
               Rule('R43', r'value\.set_parent_id\(Some\(self\.id\(\)\)\);', 'let __me = self.id(); self.world_set_parent_id(&value, Some(__me));', 'same'),
               Rule('R44', r'match &\*value \{', 'match value.item() {', 'deref of Rc<XmlItem> -> accessor of the environment handle'),
               Rule('R49', r'self\.document_element\(\)\.is_ok_and\(\|root\| !Rc::ptr_eq\(&root, v\)\)', '(match self.document_element() { Ok(root) => !XmlDocument::same_handle(root, *v), Err(_) => false })',
                    'Result::is_ok_and(closure) inlined by its definition; Rc::ptr_eq on two element handles -> same_handle (the same item)')],
        requires=[('reference_child_exists_and_is_not_the_value', 'id is Some ==> id->Some_0 != value.ident && ids(old(self).children@).contains(id->Some_0)'),
                  ('the_handle_of_an_element_item_is_its_id', 'value.item is Element ==> value.item->Element_0 == value.ident')],
        ensures=[('C13+C12:refused_call_changes_nothing', 'r is Err ==> final(self).children@ == old(self).children@ && final(self).parent_of@ == old(self).parent_of@'),
                 ('C13+C12:accepted_child_is_listed_once_under_this_parent', 'r is Ok ==> r->Ok_0 == value && ids(final(self).children@).contains(value.ident) && final(self).parent_of@[value.ident] == Some(old(self).ident)'),
                 ('C13:a_refusal_is_never_out_of_index', 'r is Err ==> !(r->Err_0 is OufOfIndex)'),
                 ('C12:accepted_child_is_listed_exactly_once', 'r is Ok ==> (forall|i: int, j: int| 0 <= i < final(self).children@.len() && 0 <= j < final(self).children@.len()'
                  ' && #[trigger] ids(final(self).children@)[i] == value.ident && #[trigger] ids(final(self).children@)[j] == value.ident ==> i == j)'),
                 ('C12:at_most_one_document_element_and_one_document_type',
                  '(value.item is Element && old(self).root@ is Some && old(self).root@ != Some(value.ident) ==> r is Err) && (value.item is DocumentType && (old(self).has_doctype@ || old(self).root@ is Some) ==> r is Err)'),
                 ('C13:only_comments_pis_one_doctype_and_one_element_are_children_of_a_document',
                  'r is Ok ==> (value.item is Comment || value.item is PI || value.item is Element || value.item is DocumentType)')],
        inject=[(r'let index = doc\.child_index\(id\)\.unwrap\(\);', 'proof { lemma_filter_keeps_items(old(doc).children@, value.ident, Some(id)); }', 'before'),
                (r'doc\.children\.insert\(index, ', 'proof { assert(ids(doc.children@)[index as int] == value.ident); }'),
                (r'doc\.children\.push\(', 'proof { assert(ids(doc.children@)[doc.children@.len() - 1] == value.ident); }')])
    fns['element_last_child_or_self_id'] = Fn(
        FI, 'impl HasChildren for XmlElement', 'last_child_or_self_id', props=['C14'], safety_props=['C14'], sig_rules=[PUB], label='XmlElement::last_child_or_self_id',
        rules=[Rule('R46', r'self\.children\.borrow\(\)\.iter\(\)\.last\(\)', 'shim_last(&self.children)', 'RefCell borrow dropped (A4); iter().last() -> shim'),
               Rule('R46', r'self\.attributes\.iter\(\)\.max_by_key\(\|v\| v\.order\(\)\)', 'shim_max_by_order(&self.attributes)', 'iter().max_by_key(order) -> shim: an element with the greatest key')],
        requires=[('items_are_well_formed', 'forall|i: int| 0 <= i < self.children@.len() ==> (#[trigger] self.children@[i]).wf()'),
                  ('attributes_are_well_formed', 'forall|i: int| 0 <= i < self.attributes@.len() ==> (#[trigger] self.attributes@[i]).wf()')],
        ensures=[('C14:answers_the_last_item_of_the_subtree_in_document_order', 'child_anchor(*self, r)')])
    fns['document_last_child_or_self_id'] = Fn(
        FI, 'impl HasChildren for XmlDocument', 'last_child_or_self_id', props=['C14'], safety_props=['C14'], sig_rules=[PUB], label='XmlDocument::last_child_or_self_id',
        rules=[Rule('R46', r'self\.children\.borrow\(\)\.iter\(\)\.last\(\)', 'shim_last(&self.children)', 'RefCell borrow dropped (A4); iter().last() -> shim')],
        ensures=[('C14:answers_the_last_item_of_the_subtree_in_document_order',
                  'r == (if self.children@.len() > 0 { self.children@.last().subtree@.last() } else { self.ident })')])
    fns['element_append_attribute'] = Fn(
        FI, 'impl XmlElement', 'append_attribute', props=['C14', 'C12'], safety_props=['C14'], sig_rules=[PUB, Rule('R11', r'Rc<XmlItem>', 'ItemRef', 'Rc<XmlItem> -> environment handle (A4)')],
        label='XmlElement::append_attribute',
        rules=[Rule('R43', r'attr\.init_order_recursive\(\);', 'self.world_init_order_recursive(&attr);', 'the attribute is numbered in the SAME document order vector: made explicit on the receiver'),
               Rule('R43', r'attr\.place_subtree_after\(id\);', 'self.world_place_subtree_after(&attr, id);', 'same'),
               Rule('R43', r'attr\.set_parent_id\(Some\(self\.id\(\)\)\);', 'let __me = self.id(); self.world_set_parent_id(&attr, Some(__me));', 'the owner link lives in the shared world: made explicit on the receiver'),
               Rule('R46', r'self\.attributes\.iter\(\)\.max_by_key\(\|v\| v\.order\(\)\)', 'shim_max_by_order(&self.attributes)', 'iter().max_by_key(order) -> shim')],
        requires=[('attributes_are_well_formed', 'forall|i: int| 0 <= i < old(self).attributes@.len() ==> (#[trigger] old(self).attributes@[i]).wf()'),
                  ('the_element_is_numbered', 'old(self).order@.contains(old(self).ident)')],
        ensures=[('C14:the_new_attribute_is_numbered_after_the_last_attribute_before_the_children',
                  'exists|a: usize| attribute_anchor(*old(self), a) && (old(self).order@.contains(a) && !attr.subtree@.contains(a) && old(self).order@.no_duplicates() && attr.subtree@.no_duplicates() ==> final(self).order@ == crate::placed_after(old(self).order@, a, attr.subtree@))'),
                 ('listed', 'final(self).attributes@ == old(self).attributes@.push(attr)'),
                 ('C12:the_attribute_names_the_element_as_its_owner', 'final(self).parent_of@.dom().contains(attr.ident) && final(self).parent_of@[attr.ident] == Some(old(self).ident)')],
        inject=[(r'self\.world_place_subtree_after\(&attr, id\);', 'proof { assert(attribute_anchor(*old(self), id)); }', 'before optional')])
    fns['element_remove_attribute'] = Fn(
        FI, 'impl XmlElement', 'remove_attribute', props=['C13', 'C12'], safety_props=['C13'], sig_rules=[PUB, Rule('R11', r'Option<Rc<XmlItem>>', 'Option<ItemRef>', 'Rc<XmlItem> -> environment handle (A4)')],
        label='XmlElement::remove_attribute',
        rules=[Rule('R46', r'self\s*\.attributes\s*\.iter\(\)\s*\.find\(\|v\| v\.as_attribute\(\)\.unwrap\(\)\.borrow\(\)\.local_name\(\) == name\)\s*\.cloned\(\)',
                    lambda m: 'shim_find_by_local_name(&self.attributes, name)' + '\n' * m.group(0).count('\n'), 'iter().find(local name equals).cloned() -> shim: the first attribute with that local name'),
               Rule('R46', r'self\.attributes\.retain\(\|a\| a\.id\(\) != v\.id\(\)\);', 'shim_retain_other_ids(&mut self.attributes, v.id());', 'Vec::retain(id differs) -> shim: Seq::filter'),
               Rule('R43', r'v\.clear_order\(\);', 'self.world_clear_order(&v);', 'the document order vector is shared: made explicit on the receiver'),
               Rule('R43', r'v\.set_parent_id\(None\);', 'self.world_set_parent_id(&v, None);', 'the owner link lives in the shared world: made explicit on the receiver')],
        inject=[(r'shim_retain_other_ids\(&mut self\.attributes, v\.id\(\)\);', 'proof { lemma_first_named_bounds(old(self).attributes@, name@); if distinct_items(old(self).attributes@) { lemma_filter_is_remove(old(self).attributes@, first_named(old(self).attributes@, name@)); } }', 'before')],
        ensures=[('C13+C12:no_attribute_of_that_name_nothing_changes',
                  'first_named(old(self).attributes@, name@) < 0 ==> r is None && final(self).attributes@ == old(self).attributes@ && final(self).parent_of@ == old(self).parent_of@'),
                 ('C13+C12:the_first_attribute_of_that_name_is_answered_leaves_the_list_and_loses_its_owner',
                  '({ let l = old(self).attributes@; let i = first_named(l, name@); i >= 0 ==> r == Some(l[i]) && final(self).attributes@ == l.filter(|x: ItemRef| x.ident != l[i].ident)'
                  ' && final(self).parent_of@ == old(self).parent_of@.insert(l[i].ident, None) && (distinct_items(l) ==> final(self).attributes@ =~= l.remove(i)) })'),
                 ('C12:the_children_stay', 'final(self).children@ == old(self).children@ && final(self).ident == old(self).ident')])
    for (key, owner, label) in (('element_delete_by_id', 'impl HasChildren for XmlElement', 'XmlElement::delete_by_id'), ('document_delete_by_id', 'impl HasChildren for XmlDocument', 'XmlDocument::delete_by_id')):
      fns[key] = Fn(
        FI, owner, 'delete_by_id', props=['C12', 'C13'], safety_props=['C12'], sig_rules=SRP, label=label,
        rules=[Rule('R11', r'self\.children\.borrow_mut\(\)\.', 'self.children.', 'RefCell borrow dropped (A4)'),
               Rule('R43', r'value\.set_parent_id\(None\);', 'self.world_set_parent_id(&value, None);', 'the parent link lives in the shared world: made explicit on the receiver')],
        ensures=[('C12:unknown_child_changes_nothing', '!ids(old(self).children@).contains(id) ==> r is None && final(self).children@ == old(self).children@ && final(self).parent_of@ == old(self).parent_of@'),
                 ('C12:removed_child_has_no_parent_and_is_not_listed',
                  'ids(old(self).children@).contains(id) ==> r is Some && r->Some_0.ident == id && final(self).parent_of@ == old(self).parent_of@.insert(id, None)'
                  ' && (exists|k: int| 0 <= k < old(self).children@.len() && old(self).children@[k].ident == id && final(self).children@ == old(self).children@.remove(k))'),
                 ('C13:a_child_is_answered_exactly_when_it_is_listed', 'r is Some <==> ids(old(self).children@).contains(id)')])
    # C12 clauses on insert_by_id: the accepted child is listed exactly once
    for key, lst, idsf in (('element_insert_by_id', 'children', 'ids'), ('attribute_insert_by_id', 'values', 'value_ids')):
        fns[key].ensures.append(('C12:accepted_child_is_listed_exactly_once',
                                 f'r is Ok ==> (forall|i: int, j: int| 0 <= i < final(self).{lst}@.len() && 0 <= j < final(self).{lst}@.len()'
                                 f' && #[trigger] {idsf}(final(self).{lst}@)[i] == value.ident && #[trigger] {idsf}(final(self).{lst}@)[j] == value.ident ==> i == j)'))
    return ENV, fns


TEMPLATE, FNS = build()
UNIT = dict(name='c13_tree', template=TEMPLATE, fns=FNS, props=['C13'])
