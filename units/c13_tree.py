"""C13 (tree mutators, the order-key half of "a call that fails leaves the document observably unchanged") and C14
(keys stay attached to attached nodes): the `HasChildren` trait defaults of info/src/lib.rs -- append, insert_before,
insert_after, delete -- which every DOM tree mutator (append_child, insert_before, replace_child, remove_child,
attribute value edits) goes through.

Abstract state of the receiver: `children: Seq<usize>` (ids of its child list) and `order: Seq<usize>` (the document's
order vector, shared with the inserted item: both live in the same per-document Context; that sharing is made explicit by
rewriting `value.set_order_after(id)` to `self.order_set_after(&value, id)`).  The per-type primitives
(`insert_by_id`, `delete_by_id`, `child_index`, `child_by_index`, `last_child_or_self_id`) are ASSUMED callees with the
contract their three implementations are meant to have: `insert_by_id` checks hierarchy and node type and, when it refuses,
has changed nothing.  What is verified is the composition in the trait defaults: the order vector must not be edited
before the last check that can still refuse the call.
"""
from vf.unit import Fn, Rule

FI = 'info/src/lib.rs'

ENV = r'''use vstd::prelude::*;
verus! {

pub mod error {
    pub enum Error {
        IsolatedNode,
        InvalidData(String),
        InvalidHierarchy,
        InvalidType,
        NotFoundDoumentElement,
        NotFoundReference(String),
        OufOfIndex(usize),
        Parse(String),
    }
    pub type Result<T> = core::result::Result<T, Error>;
}

// Rc<XmlItem>: a handle on an item of the same document; only its id matters here
pub struct ItemRef { pub ident: usize }
impl ItemRef {
    pub fn id(&self) -> (r: usize) ensures r == self.ident { self.ident }
}
impl Clone for ItemRef {
    fn clone(&self) -> (r: Self) ensures r == *self { ItemRef { ident: self.ident } }
}

pub open spec fn without_id(s: Seq<usize>, x: usize) -> Seq<usize> { s.filter(|v: usize| v != x) }
pub open spec fn index_of_id(s: Seq<usize>, x: usize) -> int { s.index_of(x) }

// a node with children, seen from its trait defaults
pub struct Parent {
    pub ident: usize,
    pub children: Ghost<Seq<usize>>,   // ids of the child list
    pub order: Ghost<Seq<usize>>,      // the document's order vector (ids), shared through the Context
}

impl Parent {
    pub open spec fn same_state(self, other: Parent) -> bool {
        self.children@ == other.children@ && self.order@ == other.order@ && self.ident == other.ident
    }

    // ---- assumed callees: the per-type primitives (XmlElement / XmlDocument / XmlAttribute implement them) ----
    #[verifier::external_body]
    pub fn child_index(&self, id: usize) -> (r: Option<usize>)
        ensures r is Some <==> self.children@.contains(id),
                r is Some ==> r->Some_0 < self.children@.len() && self.children@[r->Some_0 as int] == id,
                self.children@.len() <= usize::MAX,   // the child list is a Vec
    { unimplemented!() }

    #[verifier::external_body]
    pub fn child_by_index(&self, index: usize) -> (r: Option<ItemRef>)
        ensures r is Some <==> index < self.children@.len(),
                r is Some ==> r->Some_0.ident == self.children@[index as int],
    { unimplemented!() }

    #[verifier::external_body]
    pub fn last_child_or_self_id(&self) -> (r: usize)
    { unimplemented!() }

    // removes the child with that id from the child list (the order vector is not its business)
    #[verifier::external_body]
    pub fn delete_by_id(&mut self, id: usize) -> (r: Option<ItemRef>)
        ensures final(self).order@ == old(self).order@, final(self).ident == old(self).ident,
                r is None ==> final(self).children@ == old(self).children@,
                r is Some ==> r->Some_0.ident == id && final(self).children@ == without_id(old(self).children@, id),
    { unimplemented!() }

    // hierarchy and type checks, then the child-list edit; a refused call has changed nothing (assumed: what the three
    // implementations are meant to guarantee)
    #[verifier::external_body]
    pub fn insert_by_id(&mut self, value: ItemRef, id: Option<usize>) -> (r: error::Result<ItemRef>)
        ensures final(self).order@ == old(self).order@, final(self).ident == old(self).ident,
                r is Err ==> final(self).children@ == old(self).children@,
                r is Ok ==> r->Ok_0 == value && final(self).children@.contains(value.ident),
    { unimplemented!() }

    // value.set_order_after(id) / set_order_before(id) / clear_order(): HasContext methods of the ITEM, acting on the
    // document's shared order vector (verified in units/c14_order.py); None = refused, nothing changed
    #[verifier::external_body]
    pub fn order_set_after(&mut self, value: &ItemRef, id: usize) -> (r: Option<usize>)
        ensures final(self).children@ == old(self).children@, final(self).ident == old(self).ident,
                r is None ==> final(self).order@ == old(self).order@,
                r is Some ==> final(self).order@.contains(value.ident),
    { unimplemented!() }
    #[verifier::external_body]
    pub fn order_set_before(&mut self, value: &ItemRef, id: usize) -> (r: Option<usize>)
        ensures final(self).children@ == old(self).children@, final(self).ident == old(self).ident,
                r is None ==> final(self).order@ == old(self).order@,
                r is Some ==> final(self).order@.contains(value.ident),
    { unimplemented!() }
    #[verifier::external_body]
    pub fn order_clear(&mut self, value: &ItemRef)
        ensures final(self).children@ == old(self).children@, final(self).ident == old(self).ident,
                final(self).order@ == without_id(old(self).order@, value.ident),
    { unimplemented!() }

    //@@ append

    //@@ delete

    //@@ insert_after

    //@@ insert_before
}

} // verus!
fn main() {}
'''

TR = 'pub trait HasChildren: HasContext'
PUB = Rule('R12', r'^fn ', 'pub fn ', 'visibility (no runtime meaning)')
R_MUT = Rule('R14', r'\(&self\b', '(&mut self', '&self of a method that mutates through RefCell -> &mut self (A4)')
R_RC = Rule('R11', r'Rc<XmlItem>', 'ItemRef', 'Rc<XmlItem> -> environment handle carrying the id (A4)')
R_AFTER = Rule('R43', r'value\s*\.set_order_after\(id\)', 'self.order_set_after(&value, id)', 'the item edits the order vector of the SAME document: the shared state is made explicit on the receiver')
R_BEFORE = Rule('R43', r'value\s*\.set_order_before\(id\)', 'self.order_set_before(&value, id)', 'same')
R_CLEAR = Rule('R43', r'v\.clear_order\(\);', 'self.order_clear(&v);', 'same')
UNCHANGED = 'final(self).same_state(*old(self))'


def build():
    fns = {}
    P = ['C13']
    SR = [PUB, R_MUT, R_RC]
    fns['append'] = Fn(FI, TR, 'append', props=P, sig_rules=SR, rules=[R_AFTER], label='HasChildren::append (trait default)',
                       ensures=[('C13+C14:refused_call_changes_nothing', f'r is Err ==> {UNCHANGED}'),
                                ('C13:accepted_child_is_in_the_list_and_numbered', 'r is Ok ==> final(self).children@.contains(value.ident)')])
    fns['delete'] = Fn(FI, TR, 'delete', props=P, sig_rules=SR, rules=[R_CLEAR], label='HasChildren::delete (trait default)',
                       ensures=[('C13:unknown_child_changes_nothing', f'r is None ==> {UNCHANGED}'),
                                ('C13+C14:removed_child_loses_its_key', 'r is Some ==> final(self).children@ == without_id(old(self).children@, id) && final(self).order@ == without_id(old(self).order@, id)')])
    fns['insert_before'] = Fn(FI, TR, 'insert_before', props=P, sig_rules=SR, rules=[R_BEFORE], label='HasChildren::insert_before (trait default)',
                              ensures=[('C13+C14:refused_call_changes_nothing', f'r is Err ==> {UNCHANGED}'),
                                       ('C13:unknown_reference_is_refused', '!old(self).children@.contains(id) ==> r is Err'),
                                       ('C13:accepted_child_is_in_the_list_and_numbered', 'r is Ok ==> final(self).children@.contains(value.ident)')])
    fns['insert_after'] = Fn(FI, TR, 'insert_after', props=P, sig_rules=SR, label='HasChildren::insert_after (trait default)',
                             rules=[Rule('R28', r'child\.id\(\)', 'child.id()', 'unchanged')],
                             ensures=[('C13+C14:refused_call_changes_nothing', f'r is Err ==> {UNCHANGED}'),
                                      ('C13:unknown_reference_is_refused', '!old(self).children@.contains(id) ==> r is Err'),
                                      ('C13:accepted_child_is_in_the_list_and_numbered', 'r is Ok ==> final(self).children@.contains(value.ident)')])
    return ENV, fns


TEMPLATE, FNS = build()
UNIT = dict(name='c13_tree', template=TEMPLATE, fns=FNS, props=['C13'])
