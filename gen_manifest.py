#!/usr/bin/env python3
"""Writes MANIFEST.json from props.py (single source for the claimed / not-applicable lists)."""
import json, os, sys
ROOT = os.path.dirname(os.path.abspath(__file__))
sys.path.insert(0, ROOT)
from props import PROPS, NOT_APPLICABLE, MANIFEST_TEXT

checks = []
for pid in sorted(PROPS):
    cfg = PROPS[pid]
    t = MANIFEST_TEXT[pid]
    checks.append(dict(
        property_id=pid,
        quick_cmd=f'./check {pid} --tier quick',
        thorough_cmd=f'./check {pid} --tier thorough',
        evidence_file=f'/verif/evidence/{pid}.json',
        replay_cmd_template=f'./check {pid} --replay {{path}}',
        engine='contracts',
        level_claimed=dict(category=cfg.get('level', 'proof'), text=t['level_text'], design_ref=t.get('design_ref', 'DESIGN.md §4')),
        level_note=t['level_note'],
        technique=t['technique'],
    ))
m = dict(
    version=1,
    setup_cmd='./setup.sh',
    hooks=dict(guard='cargo feature `verif` (xml-nom, xml-info, xml-xpath; off by default)',
               enable='path dependencies with features = ["verif"] from /verif/replay and /verif/kani (cargo build / cargo kani); the Verus side reads source text and needs no hook',
               baseline_off_cmd='cd /repo && cargo test --workspace --no-fail-fast --offline',
               source_commits=['826c76f', '42a8a68'], add_only=True),
    engines=[dict(name='contracts', path='/verif/check', serves_properties=sorted(PROPS),
                  kind_free_text='contract-based deductive verification: functions extracted mechanically from /repo on every run into single-file Verus programs with spliced requires/ensures/invariants (vf/, units/); loop-free full-domain Kani harnesses on the real crates (kani/); replay/witness search against the real code (replay/)')],
    checks=checks,
    not_applicable=[dict(property_id=k, reason=v) for k, v in sorted(NOT_APPLICABLE.items())],
    notes='See DESIGN.md. Exit 0 = every obligation of the property discharged; exit 1 + VIOLATION line = an obligation failed; exit 2 = undecided (lost anchor, unsupported construct, resource limit), never an alarm.',
)
json.dump(m, open(os.path.join(ROOT, 'MANIFEST.json'), 'w'), indent=1)
print('MANIFEST.json written:', len(checks), 'checks,', len(m['not_applicable']), 'not applicable')
