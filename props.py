"""Per-property configuration: which units / harness groups decide it, and what the evidence says about it."""

TRUSTED_VERUS = ['Verus 0.2026.09.13 + Z3 (SMT back end)', 'rustc 1.98.1 front end used by Verus',
                 '/verif/vf extractor + rewrite table R (verbatim_ratio per function in the evidence)',
                 'vstd specifications of Vec/String/Option/Result']
TRUSTED_KANI = ['Kani 0.68.0 + CBMC 6.11 + its SAT back end (cadical / kissat)', 'Kani pinned nightly rustc']

A1 = 'A1 oracle: spec/xml_chars.json and the spec functions are hand transcriptions of W3C text (XML 1.0 5th Ed., DOM Level 1 Core, XPath 1.0)'
A2 = 'A2 std shims: each external_body shim has as its body the original std expression and as its contract the documented std behaviour; not verified'
A3 = 'A3 validity checkers: the nom-based `check` closures (xml_parser::content/comment/cdsect) are assumed to decide the lexical validity of their argument; the parser is not verified'
A4 = 'A4 RefCell/Rc: receivers are modelled as plain (mutable) references; BorrowMutError panics and aliasing are not checked'
A5 = 'A5 opaque handles: Weak<RefCell<ContextInfo>> is an opaque value with a fixed ghost id that may be dead'
A6 = 'A6 machine arithmetic: Verus keeps usize width symbolic (32/64); Kani is x86-64; f64 is bit-precise in CBMC; Verus never reasons about floats'
A7 = 'A7 inert node: func.rs functions ignore their XmlNode argument when given all arguments; harnesses pass a zeroed, never-read node'
A9 = 'A9 expression model: xpath::expr::model values are opaque handles; the accessor stubs promise only that Or/And expressions have at least one operand (the parser builds them with separated_list1); Number lexemes parse as f64'
A10 = 'A10 DOM handles: dom::XmlNode is an opaque value with an uninterpreted order key; nothing is assumed about parent_node(), owner_document(), the axes, as_expanded_name(), the function library except that it leaves the context stacks alone and returns no unordered node-set'
A11 = 'A11 termination of the mutually recursive eval_* functions is not verified (exec_allows_no_decreases_clause): structural recursion over an opaque expression tree; every loop ranges over a finite vector'
A8 = 'A8 toolchains: Verus compiles the extracted text with Rust 1.98.1, Kani with its pinned nightly, the repo tests with 1.95; std behaviour assumed identical'


EVAL_FUNCS = 'eval_expr, eval_or_expr, eval_and_expr, eval_eq_expr, eval_relational_expr, eval_add_expr, eval_mul_expr, eval_unary_expr, eval_union_expr, eval_path_expr, eval_filter_expr, eval_primary_expr, eval_filtered_loc_expr, eval_loc_expr, eval_step_expr, eval_axis_node_test, eval_node_test, eval_predicate, eval_func_expr'

PROPS = {
    'C05': dict(
        standin_ops=['xpath.corpus_paths', 'xpath.corpus_scalars', 'xpath.corpus_names', 'xpath.query.node_test', 'xpath.query.axes', 'xpath.query.predicates', 'xpath.query.strings', 'xpath.func.translate', 'xpath.func.substring', 'xpath.func.string_length'],
        quick_grids=['xpath.corpus_paths', 'xpath.corpus_scalars', 'xpath.corpus_names'],
        verus_units=['eval_ctx', 'func_lib', 'func_strings', 'c05_axes'],
        level='proof',
        trusted_base=TRUSTED_VERUS,
        assumptions=[A2, A9, A10 + '; node_type() / node_name() of a node are uninterpreted functions of the node (namespace nodes answer Attribute in this library)', A11, A8],
        not_decided='as PROOFS: the attribute axis (NamedNodeMap), namespace nodes as context nodes (their element is not recorded), name tests against expanded names (see C10), the value of a predicate expression itself (eval_predicate is proved to turn a numeric value into `number = position` and any other value into its boolean value, over a named but otherwise unconstrained value), operators on node-sets, string-values, the expression grammar. Bounded and labelled so, both tiers: xpath.corpus_paths / _scalars / _names evaluate 96 923 expressions enumerated from a grammar (12 axes x node tests x 25 predicate shapes from several context paths, the core functions over mixed-type argument pools, the 13 binary operators over 24 x 24 operands, curated paths) over nine documents and compare the value -- node identities for node-sets -- with the value two independent XPath 1.0 implementations agree on exactly (JDK javax.xml.xpath and libxml2; tools/gen_xpath_corpus.py, corpus committed)',
        explanation='node tests of the evaluator: eval_node_test answers every name test with false for a node that is not of the principal node type of the axis and `*` with true for one that is, text() with text / CDATA / entity-reference nodes, comment() and processing-instruction() by node type, node() always, and processing-instruction(\'t\') by node type and target, for every node; the axes (unit c05_axes, over uninterpreted parent / children / sibling-index functions tied together by a tree well-formedness precondition): ancestor, ancestor-or-self, child, descendant, descendant-or-self, following-sibling, preceding-sibling, following and preceding return exactly the node list XPath 1.0 section 2.2 defines, in axis order (following: the subtrees of the following siblings, then whatever follows the parent; preceding: the reversed subtrees of the preceding siblings, then whatever precedes the parent, ancestors excluded); the core functions count, string, concat, starts-with, contains, substring-before, substring-after, boolean, not, true, false, number, floor, ceiling, round return what XPath 1.0 section 4 prescribes in terms of the string / number / boolean value of their arguments (the conversions themselves are uninterpreted here; scalars: C09)',
    ),
    'C03': dict(
        standin_ops=['info.attr_value', 'info.build_print', 'info.build_print_corpus'],
        quick_grids=['info.build_print_corpus'],
        verus_units=['c03_entity', 'c03_doctype'],
        level='proof',
        trusted_base=TRUSTED_VERUS,
        assumptions=[A4, A8, 'the entity table (Context::entity) and the value list of an entity are assumed callees over the live document; of the values only "the radix of a character reference is 10 or 16" is assumed (what XmlEntityValue construction from the parser model produces); char_from_char10/16 and normalize_ws are verified in units/info_helpers.py and assumed here',
                     'the parser model enums InternalSubset / DeclarationMarkup / DeclarationEntity are mirrored variant for variant (compared with parser/src/model.rs on every run); the constructors of the child items (XmlDeclarationAttList::node, XmlEntity::node, XmlNotation::node, XmlProcessingInstruction::node) are assumed callees, assumed not to panic',
                     'termination is proved for the recursion on entity references only; the loops run over finite vectors'],
        not_decided='everything else C03 states: totality of the nom grammar on arbitrary strings, recursion depth of the parser / information-set construction / Display on deeply nested documents, running time (backtracking in the content-model grammar, exponential entity expansion), the other construction functions. None of it is a contract on a function either verifier can load; the thorough tier only samples it with a bounded grid of hostile shapes (labelled bounded)',
        explanation='two functions of information-set construction and attribute access cannot panic or recurse forever, whatever the parser produced: attr_value_from_name (entity expansion in attribute values: the recursion on entity references has a decreasing measure, a parameter-entity reference is an error) and XmlDocumentTypeDeclaration::node (every variant of the internal subset, including parameter-entity declarations and references, leads to a value or an error)',
    ),
    'C12': dict(
        standin_ops=['dom.views_after_edits', 'dom.children_after_edits', 'dom.tree_atomic', 'dom.attr_owner', 'dom.seq_tree', 'dom.edit_views'],
        quick_grids=['dom.seq1_tree', 'dom.edit_views1'],
        verus_units=['c13_tree', 'c12_idmap', 'c12_remove', 'c12_siblings'],
        level='proof',
        trusted_base=TRUSTED_VERUS,
        assumptions=[A4, A8, 'world model: the parent link of every item of the document is a ghost map on the receiver; value.remove_from_parent() is an assumed callee (the old parent forgets the item, its parent link becomes None; if the old parent is the receiver its own list loses the item); XmlAttributeValue::try_from accepts exactly text, character references and entity references; HasParent::ancestor is an assumed read-only callee',
                     'XmlDocument::delete_by_id and XmlAttribute::delete_by_id are not extracted (same shape as the element version)', 'c13_tree uses value.remove_from_parent() as a callee with an unconditional effect; c12_remove proves that effect for an item whose parent link names a live node that lists it (the C12 invariant at the previous step) and that the parent link always names an attribute, a document or an element is a precondition there'],
        not_decided='the tree invariant over whole edit histories (first_child/last_child/previous_sibling/next_sibling agreement, no node beneath itself, at most one document element / document type): these quantify over the live aliasing graph; only the local steps of the two primitives on elements and attributes are decided. Bounded and labelled so: dom.seq_tree (thorough; its single-call part dom.seq1_tree in the quick tier) runs append_child / insert_before / remove_child / replace_child for every (receiver, argument, reference) choice from a pool of 15 live nodes (attached, detached, created, attribute, doctype, fragment, foreign) -- 2 250 single calls and 239 200 two-call sequences -- and compares child lists, parent links and the sibling / first / last views with a reference model of DOM Level 1 after every call',
        explanation='the local steps that keep child lists and parent links in agreement: XmlElement::insert_by_id, XmlDocument::insert_by_id (with its nested helper add_or_insert) and XmlAttribute::insert_by_id either refuse and change nothing (child list, parent links) or leave the value listed exactly once under this parent with its parent link pointing here; XmlElement::delete_by_id removes exactly that child and clears its parent link, and changes nothing for an unknown id; the trait defaults append / insert_before leave the id of the inserted node resolving to the very handle the child list now owns (Context.id_map), which is what parent_node() of its children goes through; Context::node resolves a registered id for as long as the item itself is alive (unit c12_idmap, over uninterpreted ownership predicates); XmlItem::remove_from_parent (unit c12_remove, over an explicit world of parent links and child lists) takes a node that its live parent lists out of that list and clears its parent link, touches no other list, and changes nothing for a node without a parent; dom XmlNode::previous_sibling_child / next_sibling_child (unit c12_siblings) answer the entry before / after the node in the parent\'s child list, by identity, for every child list of pairwise different items, whatever the order keys are',
    ),
    'C10': dict(
        standin_ops=['ctx.script', 'info.namespace_names', 'info.ns_corpus', 'xpath.query.names', 'xpath.corpus_names'],
        quick_grids=['xpath.corpus_names', 'info.ns_corpus'],
        verus_units=['c10_ns', 'c10_scope'],
        level='proof',
        trusted_base=TRUSTED_VERUS,
        assumptions=[A2 + ' (Vec::retain with the prefix closure = keep the bindings of other prefixes in order; iter().find = first match; Option::map(to_string), to_string, String == String as equality of character sequences)', A8,
                     'the expanded name the DOM layer computes for a node (dom as_expanded_name) is an uninterpreted function of the node in unit c10_ns',
                     A4 + '; unit c10_scope: an element is a concrete recursive value (own namespace declarations with their normalized values, parent item as Box<XmlElement> / document / nothing); namespace_attributes() (a filter over the attribute list), normalized_value() of a declaration and the parent lookup through the id map are assumed callees; iter().any(prefix comparison) and Vec::retain(non-empty URI) are shims with those contracts; preconditions: at most one declaration per key on an element (well-formedness: unique attributes), no prefix spelled "xmlns"'],
        not_decided='the DOM-level re-implementation of the same scoping (dom in_scope_namespace / as_expanded_name for elements and attributes, which XPath name tests go through); identity of namespace nodes per element (count(//namespace::*) counts an inherited declaration once, not once per element: observed, outside every contract here); ns_att_name in the parser; the NameTest::Namespace branch of eval_node_test',
        explanation='caller-side prefix bindings and name-test comparison: Context::add_ns makes the prefix resolve to the new URI and leaves every other prefix alone (re-binding replaces), remove_ns unbinds exactly that prefix, get_ns_uri answers the first binding, expanded_name resolves a prefixed QName through the bindings (NotFoundNamespace when unbound) and gives an unprefixed one the default binding, equal_qname compares local part and URI and never the prefix; a lemma shows that renaming prefixes injectively in bindings and QName alike leaves every resolution unchanged; document side at the information-set level (unit c10_scope, specification written from Namespaces in XML: nearest enclosing declaration, empty value un-declares, xml bound at the document): XmlElement::namespaces lists the own declarations, in_scope_namespace returns exactly one item per key that resolves with the resolved URI (sound, complete, no key twice; induction through the recursive call on the parent), find_nameapce_uri(prefix) and the element namespace_name() answer resolve(element, prefix or "xmlns"), XmlAttribute::namespace_name() is None for an unprefixed attribute and resolves a prefix in the scope of the owner element',
    ),
    'C15': dict(
        quick_grids=['dom.edit_roundtrip1'],
        standin_ops=['dom.edit_roundtrip', 'info.text.insert', 'info.comment.insert', 'info.cdata.insert', 'dom.text.insert_data', 'dom.text.append_data', 'dom.comment.insert_data', 'dom.comment.append_data', 'dom.cdata.insert_data', 'dom.cdata.append_data'],
        verus_units=['c16_chardata', 'c15_print'],
        level='proof',
        trusted_base=TRUSTED_VERUS,
        assumptions=[A1, A2, A3 + ' -- for C15 the assumption is the strong form: each checker DECIDES production [14] CharData / [15] Comment / [20] CData for its argument', A4, A6, A8],
        not_decided='as PROOFS: "the serialization is accepted by the parser" itself (nom); PI targets and data, element and attribute names, attribute values (validated only through nom: set_content, set_values, empty); the factories (live document); adjacency between sibling nodes. Bounded and labelled so: dom.edit_roundtrip (thorough; its single-call part in the quick tier) applies the data-editing and creating calls of the DOM (insert / append / set / replace / delete / split on text, comment and CDATA; PI data; attribute value; set_attribute with a new name or value; create_text_node / comment / cdata / processing_instruction / element + append) with 19 argument strings over the markup-significant characters to one document, 483 single calls and 233 289 two-call histories: when every call reported success the serialization parses completely and denotes what the DOM reports (histories that end in data invalid on its own after a delete are left to the three recorded delete findings)',
        explanation='character data only: whenever insert/delete on a text, comment or CDATA information item reports success, the stored string is still lexically valid for its node kind (no ]]> in text or CDATA, no -- in a comment and no trailing -, no < or & in text, only XML Chars), also when the offending sequence arises only from joining the edit with the existing data',
    ),
    'C14': dict(
        standin_ops=['order.script', 'dom.order_keys', 'dom.keys_after_edits', 'dom.preorder_after_edits', 'dom.seq_order', 'dom.edit_order'],
        quick_grids=['dom.seq1_order', 'dom.edit_order1'],
        verus_units=['c14_order', 'c13_tree', 'c14_init', 'c14_subtree'],
        level='proof',
        trusted_base=TRUSTED_VERUS,
        assumptions=[A2 + ' (Iterator::position over Weak::upgrade as "first index whose live id matches"; Rc::downgrade)', A4, A5, A6 + '; `version += 1` gets the precondition version < usize::MAX (2^64 edits)', A8],
        not_decided='the link between the units is by restated contracts (c13_tree uses, as the contract of value.place_subtree_after/_before, exactly what c14_subtree proves; c14_subtree uses for set_after/set_before the id-sequence reading of what c14_order proves about DocumentOrder::insert_after/_before): each restatement is by hand; that the order vector and the subtree have unique ids is a hypothesis of the placement clauses (an invariant of DocumentOrder.wf and of a tree, not re-proved per edit); the equivalence of queries on an edited document with queries on its re-parse (evaluator + parser)',
        explanation='the DocumentOrder layer: get/push/remove/insert_after/insert_before of info/src/lib.rs verified against a sequence-of-live-ids view with the data-structure invariant "no live id twice": the key of a node is 1 + its first index (0 when absent), so keys of present nodes are non-zero and pairwise distinct (lemma), push appends without moving any other key, remove deletes exactly one entry, insert_after/insert_before place the node directly next to the reference node, and a refused call changes nothing; on top of it (unit c13_tree) the callers choose the right neighbour: append numbers the whole inserted subtree after the LAST DESCENDANT of the parent, insert_before before the reference child, append_attribute after the last attribute and before the children, and last_child_or_self_id of elements and documents answers the last item of the subtree; the subtree layer (unit c14_subtree, over a concrete recursive item tree): sub_items lists namespace declarations, other attributes, children in that order, last_descendant_or_self_id answers the last id of the pre-order list, place_descendants puts every id below an item, contiguously and in pre-order, directly after it, and place_subtree_after/_before put the whole subtree next to the anchor -- by structural induction through the recursive call, with the sequence surgery proved as lemmas; the initial numbering (unit c14_init: init_order_recursive of elements, documents and attributes, induction by contract over the recursion) appends exactly the subtree in the order element, namespace declarations, attributes, children',
    ),
    'C19': dict(
        standin_ops=['xpath.query.ctx_reuse', 'xpath.corpus_repeat', 'xpath.ctx_series'],
        quick_grids=['xpath.corpus_repeat', 'xpath.ctx_series'],
        verus_units=['eval_ctx'],
        level='proof',
        trusted_base=TRUSTED_VERUS,
        assumptions=[A2 + ' (into_iter().enumerate(), iter().skip(1), sort_by_cached_key, HashSet+retain, flat_map, reverse)', A4, A9, A10, A11, A8],
        not_decided='determinism of parsing and of evaluation itself, and "a query does not change the document" (live graph, nom); only the context-restoration half of C19 is decided',
        explanation='context-stack balance of the XPath evaluator: all 19 eval_* functions of xpath/src/eval/mod.rs and the six push/pop/get methods of model::Context are extracted and each is verified against the contracts of its callees: when a function returns, with Ok or with Err, the size and position stacks and the namespace bindings of the caller\'s context are exactly what they were on entry; so a query that fails inside a predicate cannot change the answer of a later query on the same context',
    ),
    'C07': dict(
        standin_ops=['xpath.query.order', 'xpath.corpus_order', 'xpath.union_algebra', 'dom.edit_order1'],
        quick_grids=['xpath.corpus_order', 'xpath.union_algebra', 'dom.edit_order0'],
        verus_units=['eval_ctx'],
        level='proof',
        trusted_base=TRUSTED_VERUS,
        assumptions=[A2 + ' (sort_by_cached_key = ascending permutation; HashSet+retain = keep the first node of every key)', A9, A10, A11, A8,
                     'order keys are taken as given (uninterpreted): that distinct attached nodes have distinct keys in document order is C14, not decided here'],
        not_decided='that the selected nodes are the right ones (axes, node tests: live graph) and the set-algebra laws as equalities between queries; order keys themselves (C14)',
        explanation='ordering and duplicate-freeness of node-sets in the evaluator skeleton: every value-returning eval_* function promises that a node-set value lists strictly increasing order keys (eval_path_expr / eval_filtered_loc_expr: non-strictly, after the sort); eval_union_expr must re-establish it over the concatenation of its operands, eval_filter_expr must keep it through predicate filtering (so positional predicates on a parenthesised node-set count in document order)',
    ),
    'C06': dict(
        standin_ops=['xpath.query.no_panic', 'xpath.mutants', 'xpath.deep'],
        quick_grids=['xpath.mutants', 'xpath.deep'],
        verus_units=['eval_ctx', 'func_strings', 'func_lib', 'c05_axes'],
        level='proof',
        trusted_base=TRUSTED_VERUS,
        assumptions=[A2, A9, A10, A11, A8, 'the conversions String/f64/bool::try_from(&Value), as_expanded_name and the DOM accessors used by lang() are assumed callees (assumed not to panic); std string methods (starts_with, contains, split_once, split_whitespace/join, push_str) by their documented meaning; lang() walks the ancestors: its termination is not verified (A11)'],
        not_decided='the nom expression grammar (parse totality, backtracking cost), the axes and comparison helpers over live nodes, the value conversions of model.rs, running time',
        explanation='panic-freedom of the evaluator skeleton and of the whole core function library: in the 19 extracted eval_* functions and the 27 functions of func.rs every Option::unwrap, every unimplemented!/unreachable!, every arithmetic operation is a proof obligation (unwrap needs `is Some`, unimplemented! is a call of a function with `requires false`); nothing is assumed about parent_node() or the axes; each library function is verified under the argument count its own entry of func::table() lets through (read from the table on every run), and eval_func_expr is verified to call Entry::exec only with an argument count inside the entry\'s range',
    ),

    'C18': dict(
        standin_ops=['xmlchar.is_char', 'xmlchar.is_name_start_char', 'xmlchar.is_name_char', 'xmlchar.is_pubid_char', 'xmlchar.is_enc_name', 'xmlchar.is_char_except', 'xmlchar.is_name_char_except', 'xmlchar.is_pubid_char_except', 'names.accepted'],
        quick_grids=['names.accepted'],
        verus_units=['c18_xmlchar'],
        kani=['c18'],
        level='proof',
        trusted_base=TRUSTED_VERUS + TRUSTED_KANI,
        assumptions=[A1, A2 + ' (char::is_ascii_digit/lowercase/uppercase on the Verus side only; Kani executes them; str::contains(char) shim)', A6, A8],
        not_decided='name-syntax half of C18: name, ncname, qname, nmtoken, pi_target, enc_name, take_except are nom combinator compositions, outside both verifiers',
        explanation='classification half of C18: every is_* predicate of nom/src/xmlchar.rs equals the production range table for every char; Verus (SMT, all chars) and Kani (loop-free, kani::any::<char>(), complete) as two independent back ends',
    ),
    'C09': dict(
        quick_grids=['xpath.corpus_scalars0'],
        standin_ops=['xpath.corpus_scalars0', 'xpath.func.floor', 'xpath.func.ceiling', 'xpath.func.round', 'xpath.func.boolean', 'xpath.func.not', 'xpath.func.number', 'xpath.func.substring', 'xpath.func.string_length', 'xpath.func.translate', 'xpath.cmp.equal_value', 'xpath.cmp.not_equal_value', 'xpath.cmp.less_than_value', 'xpath.cmp.less_eq_value', 'xpath.cmp.greater_than_value', 'xpath.cmp.greater_eq_value', 'xpath.op.neg', 'xpath.query.numbers'],
        verus_units=['func_strings', 'c09_number'],
        kani=['c09'],
        level='proof',
        trusted_base=TRUSTED_KANI + TRUSTED_VERUS,
        assumptions=[A1, A2 + ' (Verus side: chars().count(), chars().skip().take().collect(), String::len as the UTF-8 byte length, usize -> f64 cast uninterpreted)', A6, A7, A8,
                     'CBMC reports NaN-producing float operations (inf - inf inside round, inf + -inf, inf * 0) as failed checks of class "NaN on ..."; NaN is specified XPath behaviour, so that class is classified as expected and only assertion/panic/integer classes count',
                     'substring_range is proved for string lengths up to 2^53 characters (positions beyond are not representable as XPath numbers)',
                     'Verus side: String::try_from(&Value) / f64::try_from(&Value) are assumed callees (what an argument converts to is an uninterpreted function of the argument); substring_range enters the Verus unit through the part of its contract Kani proves (ordered, within the string)'],
        not_decided='number<->string lexical forms (f64::to_string / str::parse did not finish under Kani and Verus has no floats: number("1e3") = 1000 and number(" 1 ") = NaN on the real code are NOT decided here); mod (CBMC models fmod nondeterministically) and div (the division circuit did not finish in 40 min under either SAT back end); operands of kind Text or node-set in comparisons and arithmetic; concat, starts-with, contains, substring-before/after, normalize-space, translate (thin wrappers over str methods); function lookup and arity (func::table() does not compile under Kani)',
        explanation='scalar semantics of the core library on the real crate: floor/ceiling/round/xpath_round for every f64 (ties towards +infinity, -0 for [-0.5,0)); boolean()/not()/number() coercions for every number and boolean; unary minus; the six comparison operators on every pair of Boolean/Number operands (coercion order of XPath 3.4, every comparison with NaN false except !=); + - * as IEEE 754 and the three-argument substring_range (thorough tier, kissat); substring: substring_range selects exactly the positions round(start) <= p < round(start)+round(length) for every f64 and every length/position (Kani, loop-free), and substring() returns the characters of that range (Verus, all strings); string-length counts characters (Verus, String::len given its byte-length contract); translate maps by first occurrence and removes characters without counterpart (Verus, loop invariant over the recursive specification)',
    ),
    'C16': dict(
        standin_ops=['dom.text.length', 'dom.text.substring_data', 'dom.text.insert_data', 'dom.text.delete_data', 'dom.text.replace_data', 'dom.text.append_data', 'dom.text.set_data', 'dom.comment.length', 'dom.comment.substring_data', 'dom.comment.insert_data', 'dom.comment.delete_data', 'dom.comment.replace_data', 'dom.comment.append_data', 'dom.comment.set_data', 'dom.cdata.length', 'dom.cdata.substring_data', 'dom.cdata.insert_data', 'dom.cdata.delete_data', 'dom.cdata.replace_data', 'dom.cdata.append_data', 'dom.cdata.set_data', 'info.delete_char_range', 'info.insert_char_at'],
        verus_units=['c16_chardata'],
        level='proof',
        trusted_base=TRUSTED_VERUS,
        assumptions=[A1, A2 + ' (chars().collect, iter().collect, drain, chars().count, skip/take/collect, to_string; String character count fits usize)', A3, A4, A6, A8],
        not_decided='the DOM-level split_text (parent lookup and sibling insertion are tree structure; its string half, info split_at, is decided), RefCell re-entrancy, the nom validity checkers themselves, XmlExpandedText::data (concatenation over live pieces: assumed callee)',
        explanation='DOM Level 1 CharacterData over the character sequence of text, comment and CDATA nodes, three layers (info helpers, info methods, DOM methods and CharacterDataMut trait defaults), every function verified against the contracts of its callees for all contents, offsets and counts, including absence of overflow and of std panics',
    ),
    'C13': dict(
        quick_grids=['dom.seq1_atomic', 'dom.attr_seq1'],
        standin_ops=['dom.seq_atomic', 'dom.attr_seq', 'dom.tree_atomic', 'dom.children_after_edits', 'dom.attr_owner', 'dom.factory', 'dom.text.insert_data', 'dom.text.delete_data', 'dom.text.replace_data', 'dom.text.append_data', 'dom.text.set_data', 'dom.comment.insert_data', 'dom.comment.delete_data', 'dom.comment.replace_data', 'dom.comment.append_data', 'dom.comment.set_data', 'dom.cdata.insert_data', 'dom.cdata.delete_data', 'dom.cdata.replace_data', 'dom.cdata.append_data', 'dom.cdata.set_data'],
        verus_units=['c16_chardata', 'c13_tree', 'c13_convert', 'c13_attrs', 'c13_domtree'],
        level='proof',
        trusted_base=TRUSTED_VERUS,
        assumptions=[A1, A2, A3, A4, A6, A8, 'c13_tree: the per-type primitives insert_by_id / delete_by_id / child_index / child_by_index / last_child_or_self_id are assumed callees (insert_by_id: hierarchy and type checks first, a refusal changes nothing); the item and the receiver share one document order vector'],
        not_decided='the per-type primitives under the tree mutators (insert_by_id, delete_by_id of XmlElement/XmlDocument/XmlAttribute: hierarchy and type checks, child-list edits on the live Rc<RefCell> graph -- assumed here; by reading, XmlAttribute::insert_by_id detaches the value before XmlAttributeValue::try_from can refuse it), attribute maps (set_named_item, remove_named_item) and the DOM exception mapping of the tree mutators as PROOFS. Bounded and labelled so: dom.seq_atomic (append / insert_before / remove / replace, 2 250 single calls + 239 200 two-call sequences over a pool of 15 nodes) and dom.attr_seq (set_attribute_node, set_named_item, remove_attribute_node, remove_attribute, remove_named_item, set_attribute: 120 single calls + 14 400 two-call sequences over 4 elements, two of them look-alikes, and 7 attribute nodes) compare every call with a reference model of DOM Level 1: effect, exception class (every class that applies is accepted where several do), nothing changed on refusal, no panic; their single-call parts run in the quick tier',
        explanation='(1) the HasChildren trait defaults append / insert_before / insert_after / delete, through which every DOM tree mutator goes: a refused call leaves child list and document-order vector unchanged, an unknown reference child is refused, an accepted child is in the list, a removed child loses its key; (2) character-data setters: insert_data, delete_data, replace_data, set_data, append_data on the three node kinds raise IndexSizeErr exactly for an offset past the end, never for a count running past the end, and leave the data unchanged whenever they return Err (atomic failure)',
    ),
    'C02': dict(
        standin_ops=['info.char_from_char10', 'info.char_from_char16', 'info.reject'],
        quick_grids=['info.reject'],
        verus_units=['info_helpers'],
        level='proof',
        trusted_base=TRUSTED_VERUS,
        assumptions=[A1, A2 + ' (str::parse::<u32> / u32::from_str_radix behind an uninterpreted spec_parse; format! of the error payload unconstrained; char::from_u32 by assume_specification)', A6, A8],
        not_decided='every grammar-level rejection (the nom productions are outside both verifiers): the thorough tier samples them with a bounded grid of 42 ill-formed documents (info.reject: mismatched / unclosed / overlapping tags, duplicate attributes, illegal characters, names and character references, < and & in values and content, -- in comments, ]]> in text, undeclared entities, root-count errors, misplaced or malformed XML declarations, reserved PI targets), which proves nothing; not sampled: a < that enters content through an entity replacement text, namespace constraints',
        explanation='character-reference half of C02: info::char_from_char10/16 return Ok(c) only when the parsed number is c and c matches production [2] Char (WFC Legal Character), reject unparsable digits, accept every legal one; verified modularly against the contract of xmlchar::is_char, which is re-verified in the same unit',
    ),
    'C04': dict(
        standin_ops=['info.escape', 'info.roundtrip', 'info.roundtrip_corpus'],
        quick_grids=['info.roundtrip', 'info.roundtrip_corpus'],
        verus_units=['info_helpers'],
        level='proof',
        trusted_base=TRUSTED_VERUS,
        assumptions=[A1, A2 + ' (str::contains("\\""), format! with one quote on each side)', A8],
        not_decided='every Display impl over the live graph and the re-parse (fmt::Formatter and the nom grammar are outside both verifiers): the thorough tier samples them with a bounded print / parse / print grid of 40 documents (info.roundtrip), which proves nothing; values containing both quote characters (escape has no answer for them; callers re-parse and fail in set_values)',
        explanation='quote selection of the printer: info::escape(v) returns q + v + q with q a quote character that does not occur in v, for every v that does not contain both quote characters, so the literal re-reads as v under productions [10]-[12]',
    ),
    'C11': dict(
        standin_ops=['info.normalize_ws', 'info.equal_qname', 'info.attr_norm', 'info.attr_defaults', 'info.attr_corpus'],
        quick_grids=['info.attr_corpus'],
        verus_units=['info_helpers', 'c03_entity', 'c11_defaults'],
        level='proof',
        trusted_base=TRUSTED_VERUS,
        assumptions=[A1, A2 + ' (String::replace(char, " ") as a pointwise map; str::to_string; char::from_u32_unchecked by assume_specification carrying its safety precondition; String::push / push_str / new by their views; split(\' \').filter(non-empty).join(" ") as "the tokens separated by single spaces")', A4, A8,
                     'the entity table (Context::entity), the value list of an entity and the declared attribute type (declaration_type) are assumed callees over the live document, tied to the uninterpreted spec functions entity_values / chain_bound and the ghost field `declared`; the Char / Entity / Text variants of XmlAttributeValue are assumed to hold items of the matching kind (XmlAttributeValue::try_from), so the item accessors + unwrap() are read as fields; char_from_char10/16 and normalize_ws are used through the contracts proved in info_helpers'],
        not_decided='which declaration applies (declaration_def / declaration_att_list over the live document), defaulting and `specified` (XmlElement::attributes, new_from_declaration), ATTLIST parsing (nom); that the bound on the reference chain (declared entities + 1) never cuts a legal expansion short is argued in DESIGN, not proved',
        explanation='attribute-value normalization, XML 1.0 3.3.3: info::normalize_ws keeps the length and maps exactly #x20 #x9 #xA #xD to a space; attr_value_from_name(_within) returns the replacement text of the entity with literal text normalized and references followed recursively, and an error exactly when the expansion has no value; XmlAttribute::normalized_value returns the concatenation of: the referenced character unchanged (character reference), the normalized text (literal), the replacement text normalized as a whole (entity reference, including characters given by character references inside the entity), collapsed to single-space-separated tokens when a non-CDATA type is declared; info::equal_qname (the key by which an attribute finds its ATTLIST declaration) compares prefix and local part exactly',
    ),
}

NOT_APPLICABLE = {
    'C01': 'acceptance and infoset construction are ~80 nom-combinator productions plus Rc<RefCell> item construction; Verus cannot import nom or express its impl-FnMut combinators, Kani did not finish a 2-byte symbolic input in 15 min nor a concrete 9-byte document in 10 min; no contract within reach states "every well-formed document"',
    'C08': 'spelling equivalence and precedence are properties of the nom expression grammar (relations between strings), outside both verifiers',
    'C17': 'the CLIs compose file I/O, both nom grammars, the evaluator, DOM mutation and the printer; nothing in them is a function a contract can isolate',
}

MANIFEST_TEXT = {
    'C03': dict(
        level_text='Proof (Verus, all entity tables / all parser outputs) for two functions only: attr_value_from_name terminates (decreasing measure on the chain of entity references) and has no reachable panic site; XmlDocumentTypeDeclaration::node has no reachable panic site for any internal subset. Totality of the grammar, recursion depth on nested input and running time are NOT decided; the thorough tier samples them with a bounded grid of hostile documents run in a child process (bounded, proves nothing).',
        level_note='Trusted: Verus+Z3, extractor, the mirrored parser model enums (compared with the source each run), child constructors and the entity table as assumed callees. A thin slice of C03.',
        technique='contract-based deductive verification (Verus termination measure and panic-site preconditions on the extracted real functions); bounded replay grid of hostile documents in the thorough tier',
        design_ref='DESIGN.md §9'),
    'C05': dict(
        level_text='Proof (Verus). Node tests (every node and test): * selects element / attribute / namespace nodes only, the node-type tests and processing-instruction(literal) select by node type (and target). Axes (every tree the DOM primitives can present): ancestor, ancestor-or-self, child, descendant, descendant-or-self, following-sibling, preceding-sibling, following, preceding return exactly the node list of XPath 1.0 section 2.2 in axis order. Core functions: count, string, concat, starts-with, contains, substring-before/-after, boolean, not, true, false, number, floor, ceiling, round in terms of the string / number / boolean value of their arguments. Predicates, operators over node-sets, string-values of nodes, the attribute axis: not decided.',
        level_note='Trusted as C19; node type and node name are uninterpreted functions of the opaque node. A thin slice of C05.',
        technique='contract-based deductive verification (Verus postconditions on the extracted real function over uninterpreted node attributes)',
        design_ref='DESIGN.md §9'),
    'C12': dict(
        level_text='Proof (Verus, all child lists / ids / item kinds) of the LOCAL steps only: insert_by_id of elements, documents and attributes and delete_by_id of elements keep "listed under a parent" and "parent link points to that parent" in agreement, list an accepted child exactly once, and change nothing when they refuse. The invariant over whole edit histories and the sibling/first/last views are not decided.',
        level_note='Trusted: Verus+Z3, extractor, the ghost world model of parent links with remove_from_parent as an assumed callee. Not decided: everything that needs the live graph as a whole.',
        technique='contract-based deductive verification (Verus pre/postconditions with a ghost parent map on extracted real functions)',
        design_ref='DESIGN.md §9'),
    'C10': dict(
        level_text='Proof (Verus). Document side, information-set level (all ancestor chains, all declaration lists): in_scope_namespace / find_nameapce_uri / namespace_name of elements and attributes compute the nearest enclosing declaration, xmlns="" un-declares, the default namespace applies to unprefixed elements and never to attributes, xml is bound at the document. Expression side (all binding lists, prefixes, URIs, QNames): add_ns/remove_ns/get_ns_uri/expanded_name of the evaluation context implement "the first binding of the prefix, re-binding replaces", equal_qname compares (local part, namespace URI) and ignores prefixes, and prefix renaming is proved not to change any resolution. The DOM-level copy of the scoping code (which XPath name tests use) is not decided.',
        level_note='Trusted: Verus+Z3, extractor, std shims for retain/find/to_string/string equality; three induction lemmas proved in the unit. Not decided: everything that walks the element tree.',
        technique='contract-based deductive verification (Verus postconditions over an abstract binding list on extracted real functions, lemmas by induction)',
        design_ref='DESIGN.md §9'),
    'C15': dict(
        level_text='Proof (Verus, all strings/offsets/counts) for the character-data items only: an insert that reports success leaves data that is lexically valid for the node kind as a whole (the joined string, not just the fragment). delete is a recorded open finding (it cannot refuse and can join "-" + "-" or "]]" + ">"). Names, PI data and attribute values are not decided.',
        level_note='Trusted as C16; the three nom-based checkers are assumed to decide the lexical productions exactly (A3, strong form).',
        technique='contract-based deductive verification (Verus postconditions with explicit lexical-validity predicates on extracted real functions)',
        design_ref='DESIGN.md §9'),
    'C14': dict(
        level_text='Proof (Verus, unbounded: all order vectors, ids, dead entries) for the DocumentOrder layer only: keys are 1 + first index of the live id, non-zero and pairwise distinct for present nodes; push/remove/insert_after/insert_before edit the id sequence exactly as specified, keep ids unique, and leave it unchanged when they refuse. On top of it, the tree-mutator defaults and the element/document anchors are proved to number an inserted subtree at its pre-order position, and the recursive renumbering primitives (XmlItem::sub_items, last_descendant_or_self_id, place_descendants, place_subtree_after/_before) are proved over a concrete recursive item tree to place the whole subtree contiguously, in pre-order, next to the anchor. Query equivalence with a re-parse is not decided.',
        level_note='Trusted: Verus+Z3, extractor, Weak/Rc as opaque handles with a ghost live id (A5), std Iterator::position contract; seven induction lemmas about first-index are proved in the unit. Not decided: every caller that chooses where a node is inserted.',
        technique='contract-based deductive verification (Verus pre/postconditions over an abstract id sequence with a data-structure invariant, lemmas by induction)',
        design_ref='DESIGN.md §9'),
    'C19': dict(
        level_text='Proof (Verus, modular over 19 mutually recursive functions + 6 Context methods, all expression shapes and node lists) that every eval_* function of the XPath evaluator returns with the caller\'s context stacks and namespace bindings exactly restored, on Ok and on Err. Context-restoration half of C19 only.',
        level_note='Trusted: Verus+Z3, extractor and rewrite table, std iterator shims, opaque expression/DOM handles (A9, A10); recursion termination not verified (A11); a panic unwinding through the evaluator is outside the contract (that is C06). Not decided: determinism, documents unchanged by queries.',
        technique='contract-based deductive verification (Verus frame postcondition old/final on extracted real functions, induction over the mutual recursion by callee contracts, loop invariants)',
        design_ref='DESIGN.md §9'),
    'C07': dict(
        level_text='Proof (Verus) that node-set values produced by the evaluator skeleton are strictly increasing in document-order key (hence duplicate-free): union re-sorts and de-duplicates, filter expressions keep the order, location paths are sorted before they reach the union level. Over uninterpreted order keys; ordering/dedup clause of C07 only.',
        level_note='Trusted as C19 plus the contracts of the sort and dedup shims; two induction lemmas (dedup of a sorted sequence is strictly sorted) are proved in the unit. Not decided: which nodes are selected, set-algebra equalities, the keys themselves (C14).',
        technique='contract-based deductive verification (Verus postconditions over an abstract order key, lemmas by induction, loop invariants)',
        design_ref='DESIGN.md §9'),
    'C06': dict(
        level_text='Proof (Verus) that the 19 eval_* functions of the evaluator and the 27 functions of the core function library (func.rs) cannot panic: every unwrap, unimplemented!/unreachable! site and arithmetic operation in them is a discharged obligation, with nothing assumed about parent_node() or the axes; the argument count each library function may rely on is read from func::table() on every run and eval_func_expr is proved to respect it. The expression grammar, the axes and running time are not decided.',
        level_note='Trusted as C19, plus the value conversions and DOM accessors as assumed callees and std string methods by their documented meaning. Not decided: the expression grammar, helper functions over live nodes, running time.',
        technique='contract-based deductive verification (Verus safety obligations: callee preconditions of Option::unwrap, `requires false` at panic sites, overflow)',
        design_ref='DESIGN.md §9'),
    'C18': dict(
        level_text='Proof, for all 1,114,112 scalar values, that is_char/is_name_start_char/is_name_char/is_pubid_char/is_enc_name and the three *_except helpers equal the range tables of productions [2][4][4a][13][81]: Verus discharges one postcondition per function on the extracted real text (is_name_char modularly against is_name_start_char), and loop-free Kani harnesses over kani::any::<char>() on the real crate repeat it with an independent back end. Classification half of C18 only.',
        level_note='Trusted: Verus+Z3, Kani+CBMC, the extractor (verbatim ratio reported), the hand transcription of the W3C tables (spec/xml_chars.json), three assumed std contracts (char::is_ascii_*) on the Verus side. Not decided: the name productions (nom).',
        technique='contract-based deductive verification (Verus postconditions on extracted real functions; complete loop-free Kani harnesses)',
        design_ref='DESIGN.md §4 C18'),
    'C09': dict(
        level_text='Proof on the real crate, two engines. Kani/CBMC, loop-free harnesses over kani::any (complete, no unwinding): floor, ceiling, round, xpath_round for every f64; boolean/not/number coercions; unary minus; = != < <= > >= on every Boolean/Number operand pair; substring_range for every f64 start/length, every string length <= 2^53 and every position (two-argument form quick, three-argument form thorough with kissat, 17 min); + - * in the thorough tier. Verus (all strings): string-length counts characters; substring returns the characters of the range substring_range computes. Verus (all strings): number() of a string follows the XPath lexical form (optional white space, optional minus, Digits with at most one dot; anything else NaN) -- the scanner xpath_number is verified against the grammar written as a predicate, overflow included; string() of a number spells NaN, the infinities, booleans and strings as prescribed (negative zero is a recorded open finding: the pinned suite demands "-0"). mod, the decimal digits Rust prints for a finite number, and that str::parse rounds a decimal literal correctly are NOT decided.',
        level_note='Trusted: Kani+CBMC+SAT, Verus+Z3, the inert-node harness trick (A7), declarative references written from the XPath text, std shims on the Verus side. The two engines meet at the contract of substring_range.',
        technique='contract-based verification: contracts asserted in loop-free Kani harnesses over full-domain symbolic scalars on the real crate (no stubs), and Verus postconditions on extracted real functions with the Kani-proved callee contract assumed',
        design_ref='DESIGN.md §4 C09, §8, §9'),
    'C16': dict(
        level_text='Proof (Verus, unbounded: all contents, offsets, counts) that length/substring_data/insert_data/delete_data/append_data/replace_data/set_data on text, comment and CDATA nodes compute the DOM Level 1 result over the character sequence (offset past the end = IndexSizeErr, count clipped to the end), with no overflow or std panic, through three layers of real functions each checked against its callees\' contracts. info split_at (the two halves concatenate to the original, split at the clipped offset) and XmlExpandedText length/substring_data are covered; the DOM-level split_text (sibling linkage) is not.',
        level_note='Trusted: Verus+Z3, extractor, std iterator shims, the nom validity checkers as uninterpreted predicates (A3), RefCell modelled as plain ownership (A4).',
        technique='contract-based deductive verification (Verus pre/postconditions and frame on extracted real functions, modular across three layers)',
        design_ref='DESIGN.md §4 C16'),
    'C13': dict(
        level_text='Proof (Verus) of (1) atomic failure of the tree-mutator layer HasChildren::{append, insert_before, insert_after, delete} over an abstract child list and order vector, with the per-type primitives as assumed callees, and (2) exception class and atomic failure for the character-data mutators (insert_data, delete_data, replace_data, set_data, append_data x 3 node kinds): Err implies data unchanged; IndexSizeErr iff offset past the end. Attribute maps, factories and the per-type insert_by_id checks are not covered.',
        level_note='Trusted as C16. Not decided: every mutator that needs a live node graph.',
        technique='contract-based deductive verification (Verus postconditions old/final on extracted real functions)',
        design_ref='DESIGN.md §4 C13'),
    'C02': dict(
        level_text='Proof (Verus, all strings, std digit parsing uninterpreted) that info::char_from_char10/16 return a character only if it is the one denoted by the digits and matches production [2] Char, reject unparsable digits and accept every legal code. Character-reference clause of C02 only. Bounded and labelled so, both tiers: info.reject runs 55 hand-picked ill-formed documents and a committed corpus of 45 168 token-level mutants of 23 well-formed documents (tools/gen_illformed.py; an independent parser, expat, only selects which mutants are ill-formed): none may be reported as completely parsed.',
        level_note='Trusted: Verus+Z3, extractor, assumed std contracts (parse behind spec_parse, char::from_u32), W3C table transcription. Not decided: all nom-level rejections.',
        technique='contract-based deductive verification (Verus postconditions on extracted real functions, callee is_char under its own contract)',
        design_ref='DESIGN.md §4 C02'),
    'C04': dict(
        level_text='Proof (Verus, all strings without both quote characters) that info::escape returns the value between two copies of a quote character that does not occur in it. Quote-selection clause of C04 only. Bounded and labelled so, both tiers: info.roundtrip (40 documents) and info.roundtrip_corpus (10 137 well-formed token-level mutants of 23 documents, tools/gen_illformed.py): print, parse, print is a fixpoint and the re-parsed document equals the first.',
        level_note='Trusted: Verus+Z3, extractor, two std shims (contains, format!). Not decided: Display impls, re-parse, fixpoint.',
        technique='contract-based deductive verification (Verus postcondition on the extracted real function)',
        design_ref='DESIGN.md §4 C04'),
    'C11': dict(
        level_text='Proof (Verus, all strings, all entity tables, all value lists): info::normalize_ws is the pointwise map sending exactly tab, CR, LF and space to a space; attr_value_from_name(_within) computes the recursive expansion of an entity with literal text normalized; XmlAttribute::normalized_value is the piecewise concatenation XML 1.0 3.3.3 prescribes (character reference unchanged, text normalized, entity replacement text normalized as a whole) and collapses it for declared non-CDATA types; info::equal_qname compares prefix and local part exactly. Which declaration applies, defaulting and `specified` are not decided.',
        level_note='Trusted: Verus+Z3, extractor, String::replace shim. Not decided: entity recursion, typed collapsing, defaulting.',
        technique='contract-based deductive verification (Verus postconditions on the extracted real function)',
        design_ref='DESIGN.md §4 C11'),
}
