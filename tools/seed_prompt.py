#!/usr/bin/env python3
"""Prints the prompt given to a fresh seeding sub-agent: ONLY the text of one property and its scratch worktree.
usage: seed_prompt.py <Cxx> <worktree> [extra hint]"""
import json, sys, os
ROOT = os.path.dirname(os.path.dirname(os.path.abspath(__file__)))
pid, wt = sys.argv[1], sys.argv[2]
hint = sys.argv[3] if len(sys.argv) > 3 else ''
p = next(json.loads(l) for l in open(os.path.join(ROOT, 'properties.jsonl')) if json.loads(l)['id'] == pid)
print(f"""You are helping test a verification effort by playing the role of a developer who accidentally introduces a subtle regression.

Your own scratch git worktree of the Rust workspace 9506hqwy/xml-rs (XML 1.0 parser on nom, XML Infoset tree, DOM Level 1 API, XPath 1.0 evaluator, xq/xe example CLIs) is at {wt} . Work ONLY inside {wt} (never touch /repo or /verif, never read /verif, never commit, never push). There is no network: always pass --offline to cargo. Build into the worktree's own target directory (the default `target/` inside {wt}); run cargo with at most 4 jobs (`-j 4`).

Here is a semantic property of the library that should hold:

  {p['id']}: {p['title']}
  {p['statement']}
  (quantification: {p['quantifier']['text']})

Task: make ONE small, realistic change to the library source (not to tests, not to Cargo files) that BREAKS this property, while
  (a) the workspace still compiles, and
  (b) the whole existing test suite still passes: `cd {wt} && cargo test --workspace --offline -j 4` (603 tests, all must pass), and
  (c) the breakage needs something specific to manifest - an unusual input (boundary value, multi-byte character, huge count, particular code point, special float), a multi-step sequence of operations, or two cooperating sites that each look fine alone - NOT something ordinary use would expose at once. It should look like a plausible refactoring/optimisation/bug-fix slip, not sabotage.
{('Extra guidance for diversity: ' + hint) if hint else ''}
Then write a demonstration: a small Rust integration test file placed at {wt}/_seed/demo.rs together with exact instructions to run it (for example by copying it to a crate's `tests/` directory: say which crate), such that the demonstration FAILS with your change applied and PASSES on the unmodified code (verify both: use `git stash` / `git stash pop` or `git diff > patch; git checkout -- <files>; ...; git apply patch`). The demo must only use the crates' public API.

Deliverables, all inside {wt}/_seed/ :
  - patch.diff   : `git diff` of your source change only (must apply with `git apply` to the unmodified worktree; do not include _seed/ or test files in it)
  - demo.rs      : the demonstration test
  - README.md    : 5-15 lines: what the change is (file, function), why it breaks the property, what specific input/sequence is needed to see it, which crate's tests/ dir the demo goes in, and the commands you ran with their outcome (full suite passing with the change; demo failing with / passing without).
Leave the worktree with your source change APPLIED (uncommitted) and the demo NOT copied into any tests/ directory (remove it from there after checking). Your final answer should be a 5-line summary of the above.""")
