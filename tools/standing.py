#!/usr/bin/env python3
"""Prints the table of DESIGN section 10 from props.py, the evidence files of the last runs and known_findings.jsonl."""
import json, os, sys, glob, collections
ROOT = os.path.dirname(os.path.dirname(os.path.abspath(__file__)))
sys.path.insert(0, ROOT)
import props

known = [json.loads(l) for l in open(os.path.join(ROOT, 'known_findings.jsonl')) if l.strip() and not l.startswith('#')]
print('| property | Verus units | obligations (discharged) | functions under contract | Kani group | grids quick / thorough | open findings (entries) | repaired defects (entries) |')
print('|---|---|---|---|---|---|---|---|')
tot = 0
units = set()
for pid in sorted(props.PROPS):
    c = props.PROPS[pid]
    ev = json.load(open(os.path.join(ROOT, 'evidence', pid + '.json')))
    cov = ev['coverage']
    tot += cov.get('obligations', 0)
    units.update(c.get('verus_units', []))
    nfun = len(cov.get('functions_under_contract', []))
    op = sum(1 for k in known if k['property'] == pid and k.get('status', 'open') == 'open')
    fx = sum(1 for k in known if k['property'] == pid and k.get('status') == 'fixed')
    kani = c.get('kani') or '–'
    if isinstance(kani, (list, dict)):
        kani = 'yes'
    print(f"| {pid} | {', '.join(c.get('verus_units', []))} | {cov.get('obligations')} ({cov.get('discharged')}) | {nfun} | {kani} | {len(c.get('quick_grids') or [])} / {len(c.get('standin_ops') or [])} | {op} | {fx} | (tier of the evidence: {ev['tier']})")
print(f'\n{tot} obligations over {len(units)} units; {sum(1 for k in known if k.get("status", "open") == "open")} open entries, {sum(1 for k in known if k.get("status") == "fixed")} fixed entries; '
      f'{len(glob.glob(os.path.join(ROOT, "seeded", "*", "meta.json")))} seeded changes, {len(glob.glob(os.path.join(ROOT, "benign", "*", "meta.json")))} behaviour-preserving changes')
