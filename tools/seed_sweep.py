#!/usr/bin/env python3
"""Re-run the quick check of the property each kept seeded change breaks, against the CURRENT /repo head + that change.
For every /verif/seeded/<name>: a scratch worktree of /repo (outside /repo and /verif, removed afterwards), `git apply` of its
patch.diff (a patch written against an older head that no longer applies is recorded as such and skipped), then
`VERIF_REPO=<worktree> ./check <property> --tier quick`.  The verdict goes to meta.json under "sweep".  The demo is re-run too (does the change still break the
property at this head?); the full suite is not (tools/seed_confirm.sh did that when the change was kept).
usage: seed_sweep.py [-j N] [name ...]"""
import concurrent.futures as cf
import json
import os
import re
import subprocess
import sys
import time

ROOT = os.path.dirname(os.path.dirname(os.path.abspath(__file__)))
SCR = '/tmp/sweep'


def sh(cmd, **kw):
    return subprocess.run(cmd, shell=True, capture_output=True, text=True, **kw)


def one(name):
    d = os.path.join(ROOT, 'seeded', name)
    mp = os.path.join(d, 'meta.json')
    m = json.load(open(mp))
    pid = m.get('breaks_property') or name[:3]
    wt = os.path.join(SCR, name)
    sh(f'git -C /repo worktree remove --force {wt}')
    r = sh(f'git -C /repo worktree add --detach {wt}')
    head = sh('git -C /repo rev-parse --short HEAD').stdout.strip()
    res = dict(head=head, date=time.strftime('%Y-%m-%d'), check=pid)
    try:
        a = sh(f'git -C {wt} apply {os.path.join(d, "patch.diff")}')
        if a.returncode != 0:
            a = sh(f'git -C {wt} apply --3way {os.path.join(d, "patch.diff")}')
        if a.returncode != 0:
            res.update(applies=False, note=a.stderr.strip()[:300])
        else:
            env = dict(os.environ, VERIF_REPO=wt, CARGO_NET_OFFLINE='true')
            # does the change still break the property at this head?  (the code around it may have moved on: the demo decides)
            crate = m.get('demo_crate')
            if crate and os.path.exists(os.path.join(d, 'demo.rs')):
                sh(f'mkdir -p {wt}/{crate}/tests && cp {os.path.join(d, "demo.rs")} {wt}/{crate}/tests/seed_demo.rs')
                pkg = sh(f"grep -m1 '^name' {wt}/{crate}/Cargo.toml").stdout.split('"')[1]
                t = sh(f'cd {wt} && cargo test -p {pkg} --test seed_demo --offline -j 4', env=env)
                res['demo_fails_at_head'] = t.returncode != 0
                sh(f'rm -rf {wt}/{crate}/tests/seed_demo.rs; rmdir {wt}/{crate}/tests; rm -rf {wt}/target')
            c = sh(f'cd {ROOT} && ./check {pid} --tier quick', env=env)
            out = c.stdout.split('\n')
            v = [l for l in out if l.startswith('VIOLATION')]
            u = [l for l in out if l.startswith('UNDECIDED')]
            w = [l for l in out if re.match(r'  (obligation|bounded stand-in \(|replay grid \()', l)]
            res.update(applies=True, exit=c.returncode, line=(v or u or [''])[0][:300], witness=';'.join(x.strip()[:300] for x in w[:3]))
    finally:
        sh(f'git -C /repo worktree remove --force {wt}')
    m['sweep'] = res
    json.dump(m, open(mp, 'w'), indent=1, ensure_ascii=False)
    return name, res


def main():
    args = sys.argv[1:]
    j = 3
    if args[:1] == ['-j']:
        j = int(args[1])
        args = args[2:]
    names = args or sorted(n for n in os.listdir(os.path.join(ROOT, 'seeded')) if os.path.exists(os.path.join(ROOT, 'seeded', n, 'patch.diff')))
    os.makedirs(SCR, exist_ok=True)
    with cf.ThreadPoolExecutor(j) as ex:
        for name, res in ex.map(one, names):
            print(name, res.get('applies'), 'demo_fails=' + str(res.get('demo_fails_at_head')), res.get('exit'), (res.get('line') or res.get('note') or '')[:110], flush=True)
    sh('git -C /repo worktree prune')
    try:
        os.rmdir(SCR)
    except OSError:
        pass


if __name__ == '__main__':
    main()
