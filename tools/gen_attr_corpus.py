#!/usr/bin/env python3
"""Generate the attribute corpus of C11 (replay op info.attr_corpus): documents `<!DOCTYPE r [entities, ATTLIST]><r a="literal"/>`
enumerated from pools of value literals (text, white space of every kind, character and entity references, nested entities) x
declared types x default kinds, with the attribute list THREE independent parsers agree on: expat (pyexpat: value and
specified/defaulted), the JDK DOM parser (value and getSpecified) and libxml2 (value; it does not record `specified`).
A document is kept only when all three accept it and agree.  Written once to replay/data/attr_corpus.txt (committed):
"<escaped document>\\t<name=value[S|D] ...>" (items separated by \\u0001, S specified / D defaulted)."""
import ctypes as C
import itertools
import os
import subprocess
import xml.parsers.expat as expat

ROOT = os.path.dirname(os.path.dirname(os.path.abspath(__file__)))
OUT = os.path.join(ROOT, 'replay', 'data', 'attr_corpus.txt')
SCRATCH = os.path.join(ROOT, '.scratch', 'attr_corpus')
LIBXML2 = '/root/miniconda/lib/libxml2.so.2'
SEP = '\u0001'

ENTITIES = '<!ENTITY e "v w"><!ENTITY t "&#9;x&#10;"><!ENTITY n "p\tq\nr"><!ENTITY i "&o; &o;"><!ENTITY o " a  b "><!ENTITY d "&#xD;"><!ENTITY amp2 "&#38;#38;"><!ENTITY lt2 "&#38;lt;">'
LITERALS = ['', 'x', ' x ', '  x   y  ', 'x\ty', 'x\ny', '\t\n x', 'x&#9;y', 'x&#10;y', 'x&#13;y', 'x&#32;y', '&#32;x&#32;&#32;y&#32;', '&#x20;&#x9;', 'a&amp;b', '&lt;&gt;&quot;&apos;',
            '&e;', 'p&e;q', ' &e; ', '&t;', '&n;', '&i;', '&o;', '&d;&d;A', '&#65;&#x42;c', '\u00e9 \u20ac', 'x\u00a0y', ' \u3000x ', "it's", 'x  &e;  y', '&e;&e;', 'x\t\t\ty', ' ']
TYPES = ['CDATA', 'NMTOKENS', 'NMTOKEN', 'ID', 'IDREFS', 'ENTITIES', '(x|y|v)', 'NOTATION (x|y)']
DEFAULTS = ['#IMPLIED', '#REQUIRED', '"dv"', '#FIXED "dv"', '" d  v "', '"x&#9;y"', '"a&amp;b"']


def esc(s):
    return s.replace('\\', '\\\\').replace('\n', '\\n').replace('\r', '\\r').replace('\t', '\\t')


def docs():
    out = []
    # the written attribute, every literal x every type (default kind #IMPLIED), and undeclared
    for lit in LITERALS:
        q = '"' if '"' not in lit else "'"
        out.append(f'<!DOCTYPE r [{ENTITIES}]><r a={q}{lit}{q}/>')
        for ty in TYPES:
            out.append(f'<!DOCTYPE r [{ENTITIES}<!ATTLIST r a {ty} #IMPLIED>]><r a={q}{lit}{q}/>')
    # the replacement text of an entity is itself scanned for references when it is included ("expanded recursively"): two
    # documents (a recorded open finding of xml-rs: the text is not re-scanned)
    out.append(f'<!DOCTYPE r [{ENTITIES}]><r a="&amp2;"/>')
    out.append(f'<!DOCTYPE r [{ENTITIES}]><r a="&lt2;"/>')
    # defaults: every default kind x type, the attribute written or not, a second attribute next to it.  Left out: an unwritten
    # #REQUIRED attribute (recorded open finding, see info.attr_defaults); a default that needs collapsing, except for CDATA and
    # NMTOKENS (recorded open finding: defaults are not normalized by type -- two documents stand for it)
    for ty, df in itertools.product(TYPES, DEFAULTS):
        if df == '" d  v "' and ty not in ('CDATA', 'NMTOKENS'):
            continue
        for written in ('', ' a="w"', ' b="2"', ' a=" w  w " b="2"'):
            if df == '#REQUIRED' and ' a=' not in written:
                continue
            out.append(f'<!DOCTYPE r [{ENTITIES}<!ATTLIST r a {ty} {df}>]><r{written}/>')
    # several declarations for one element merge; declarations for other elements do not apply.  (The same NAME declared twice is
    # left out: XML 1.0 lets the first declaration bind, the statement of C11 reads "in any attribute-list declaration".)
    for df1, df2 in itertools.product(['#IMPLIED', '"one"', '#FIXED "one"'], ['"two"', '#IMPLIED', '#FIXED "two"']):
        out.append(f'<!DOCTYPE r [<!ATTLIST r a CDATA {df1} b NMTOKENS {df2}><!ATTLIST s c CDATA "no">]><r/>')
        out.append(f'<!DOCTYPE r [<!ATTLIST r a CDATA {df1}><!ATTLIST s c CDATA "no"><!ATTLIST r b NMTOKENS {df2}>]><r b=" p  q "/>')
        out.append(f'<!DOCTYPE r [<!ATTLIST s a CDATA {df1}><!ATTLIST r b CDATA {df2}>]><r a="  x   y  "/>')
    seen, res = set(), []
    for d in out:
        if d not in seen:
            seen.add(d)
            res.append(d)
    return res


def by_expat(doc):
    both = {}
    for only_specified in (False, True):
        got = {}
        p = expat.ParserCreate()
        p.specified_attributes = only_specified
        first = [True]

        def start(name, attrs, got=got, first=first):
            if first[0]:
                got.update(attrs)
                first[0] = False
        p.StartElementHandler = start
        try:
            p.Parse(doc, True)
        except expat.ExpatError:
            return None
        both[only_specified] = got
    items = sorted(f'{k}={esc(v)}' + ('S' if k in both[True] else 'D') for k, v in both[False].items())
    return SEP.join(items) if items else '-'


def by_libxml2(docs_):
    lib = C.CDLL(LIBXML2)
    lib.xmlReadMemory.restype = C.c_void_p
    lib.xmlReadMemory.argtypes = [C.c_char_p, C.c_int, C.c_char_p, C.c_char_p, C.c_int]
    lib.xmlDocGetRootElement.restype = C.c_void_p
    lib.xmlDocGetRootElement.argtypes = [C.c_void_p]
    lib.xmlNodeListGetString.restype = C.c_void_p
    lib.xmlNodeListGetString.argtypes = [C.c_void_p, C.c_void_p, C.c_int]
    lib.xmlFreeDoc.argtypes = [C.c_void_p]

    class Node(C.Structure):
        pass
    Node._fields_ = [('_private', C.c_void_p), ('type', C.c_int), ('name', C.c_char_p), ('children', C.POINTER(Node)), ('last', C.POINTER(Node)), ('parent', C.POINTER(Node)),
                     ('next', C.POINTER(Node)), ('prev', C.POINTER(Node)), ('doc', C.c_void_p), ('ns', C.c_void_p), ('content', C.c_char_p), ('properties', C.POINTER(Node))]
    out = []
    for d in docs_:
        raw = d.encode('utf-8')
        doc = lib.xmlReadMemory(raw, len(raw), b'd.xml', None, 2 | 8 | 32 | 64)     # NOENT | DTDATTR | NOERROR | NOWARNING
        if not doc:
            out.append(None)
            continue
        root = C.cast(lib.xmlDocGetRootElement(doc), C.POINTER(Node))
        items = []
        a = root.contents.properties
        while a:
            sp = lib.xmlNodeListGetString(doc, C.cast(a.contents.children, C.c_void_p), 1)
            val = C.cast(sp, C.c_char_p).value.decode('utf-8') if sp else ''
            items.append(f'{a.contents.name.decode("utf-8")}={esc(val)}')
            a = a.contents.next
        lib.xmlFreeDoc(doc)
        out.append(SEP.join(sorted(items)) if items else '-')
    return out


def main():
    os.makedirs(SCRATCH, exist_ok=True)
    ds = docs()
    docs_file = os.path.join(SCRATCH, 'docs.txt')
    with open(docs_file, 'w', encoding='utf-8') as f:
        for d in ds:
            f.write(esc(d) + '\n')
    cls = os.path.join(SCRATCH, 'cls')
    os.makedirs(cls, exist_ok=True)
    subprocess.run(['javac', '-d', cls, os.path.join(ROOT, 'tools', 'xpath_oracle', 'AttrOracle.java')], check=True)
    java_out = os.path.join(SCRATCH, 'java.txt')
    subprocess.run(['java', '-cp', cls, 'AttrOracle', docs_file, java_out], check=True)
    java = [l.rstrip('\n') for l in open(java_out, encoding='utf-8')]
    lx = by_libxml2(ds)
    kept, dropped = [], {'rejected by an oracle': 0, 'expat/JDK differ': 0, 'libxml2 differs': 0}
    samples = []
    for d, j, l in zip(ds, java, lx):
        e = by_expat(d)
        if e is None or j == 'E' or l is None:
            dropped['rejected by an oracle'] += 1
            continue
        if e != j:
            dropped['expat/JDK differ'] += 1
            samples.append(('expat/JDK', d, e, j))
            continue
        strip = SEP.join(x[:-1] for x in e.split(SEP)) if e != '-' else '-'
        if strip != l:
            dropped['libxml2 differs'] += 1
            samples.append(('libxml2', d, strip, l))
            continue
        kept.append((d, e))
    with open(OUT, 'w', encoding='utf-8') as f:
        for d, e in kept:
            f.write(f'{esc(d)}\t{e}\n')
    with open(os.path.join(SCRATCH, 'disagreements.txt'), 'w', encoding='utf-8') as f:
        for s in samples:
            f.write('\t'.join(s).replace(SEP, ' | ') + '\n')
    print(f'{len(kept)} of {len(ds)} documents kept (expat, JDK and libxml2 agree); dropped: {dropped} -> {OUT}')


if __name__ == '__main__':
    main()
