#!/usr/bin/env python3
"""Generate the namespace corpus of C10 (replay op info.ns_corpus): small documents enumerated over element names (a, p:a, q:a),
namespace declarations per element (none, a default, the un-declaration xmlns="", prefixes bound, re-bound, bound to the same URI
under two prefixes, xml: used without declaration) and attributes (x, p:x, q:x, xml:lang), with the expanded name of every element
and attribute that the JDK DOM parser (namespace-aware) and libxml2 agree on.  Documents an oracle rejects (an unbound prefix)
are left out.  Written once to replay/data/ns_corpus.txt: "<escaped document>\\t<local=uri @local=uri ...>" ("-": no namespace)."""
import ctypes as C
import itertools
import os
import random
import subprocess

ROOT = os.path.dirname(os.path.dirname(os.path.abspath(__file__)))
OUT = os.environ.get('NS_CORPUS_OUT') or os.path.join(ROOT, 'replay', 'data', 'ns_corpus.txt')
SCRATCH = os.path.join(ROOT, '.scratch', 'ns_corpus')
LIBXML2 = '/root/miniconda/lib/libxml2.so.2'

NAMES = ['a', 'p:a', 'q:a']
DECLS = ['', ' xmlns="u1"', ' xmlns=""', ' xmlns:p="u2"', ' xmlns:p="u3"', ' xmlns:q="u2"', ' xmlns="u1" xmlns:p="u2"', ' xmlns:p="u2" xmlns:q="u3"', ' xmlns="u2" xmlns:q="u2"']
ATTRS = ['', ' x="1"', ' p:x="1"', ' x="1" p:x="2"', ' q:x="1"', ' xml:lang="en"', ' p:x="1" q:y="2"']


def esc(s):
    return s.replace('\\', '\\\\').replace('\n', '\\n').replace('\r', '\\r').replace('\t', '\\t')


def docs():
    rnd = random.Random(10)
    out = []

    def el(i, inner, spec):
        n, d, a = spec[i]
        return f'<{n}{d}{a}>{inner}</{n}>' if inner else f'<{n}{d}{a}/>'
    # shape: e0( e1( e2 ) e3 ): all single-position variations around a well-formed base, then random combinations
    base = [('a', ' xmlns="u1" xmlns:p="u2" xmlns:q="u3"', ''), ('a', '', ''), ('a', '', ''), ('a', '', '')]
    specs = []
    for pos in range(4):
        for n, d, a in itertools.product(NAMES, DECLS, ATTRS):
            s = list(base)
            keep = base[pos][1] if pos == 0 and d == '' else d
            s[pos] = (n, (base[0][1] + d) if pos == 0 and 'xmlns' in d and False else (d if pos else (d or base[0][1])), a)
            specs.append(s)
    for _ in range(2500):
        specs.append([(rnd.choice(NAMES), rnd.choice(DECLS), rnd.choice(ATTRS)) for _ in range(4)])
    # the same with p and q always bound at the root (so that most documents are namespace-well-formed)
    for _ in range(4000):
        sp = [(rnd.choice(NAMES), rnd.choice(DECLS), rnd.choice(ATTRS)) for _ in range(4)]
        sp[0] = (sp[0][0], ' xmlns:p="u2" xmlns:q="u3"' + rnd.choice(['', ' xmlns="u1"', ' xmlns="u2"']), sp[0][2])
        specs.append(sp)
    seen = set()
    for s in specs:
        d = el(0, el(1, el(2, '', s), s) + el(3, '', s), s)
        if d not in seen:
            seen.add(d)
            out.append(d)
    # the same documents under other prefixes: reserved-looking ones (beginning with "xml" in any case: legal, Namespaces in XML 3),
    # one-letter, non-ASCII, with name characters that are not letters -- a prefix is just an NCName
    renamed = []
    for d in out[::12]:
        if 'p:' not in d:
            continue
        for new in ['xmlsig', 'xml2', 'XML', 'Xml', 'xm', 'x', '_p', 'p.1', 'p-q', '\u00e9', 'xmlns2', 'q2']:
            r = d.replace('xmlns:p=', f'xmlns:{new}=').replace('<p:', f'<{new}:').replace('</p:', f'</{new}:').replace(' p:', f' {new}:')
            if r not in seen:
                seen.add(r)
                renamed.append(r)
    return out + renamed


def by_libxml2(docs_):
    lib = C.CDLL(LIBXML2)
    lib.xmlReadMemory.restype = C.c_void_p
    lib.xmlReadMemory.argtypes = [C.c_char_p, C.c_int, C.c_char_p, C.c_char_p, C.c_int]
    lib.xmlDocGetRootElement.restype = C.c_void_p
    lib.xmlDocGetRootElement.argtypes = [C.c_void_p]
    lib.xmlFreeDoc.argtypes = [C.c_void_p]

    class Node(C.Structure):
        pass
    Node._fields_ = [('_private', C.c_void_p), ('type', C.c_int), ('name', C.c_char_p), ('children', C.POINTER(Node)), ('last', C.POINTER(Node)), ('parent', C.POINTER(Node)),
                     ('next', C.POINTER(Node)), ('prev', C.POINTER(Node)), ('doc', C.c_void_p), ('ns', C.c_void_p), ('content', C.c_char_p), ('properties', C.POINTER(Node))]

    class Ns(C.Structure):
        _fields_ = [('next', C.c_void_p), ('type', C.c_int), ('href', C.c_char_p), ('prefix', C.c_char_p)]

    def uri(p):
        if not p:
            return '-'
        h = C.cast(p, C.POINTER(Ns)).contents.href
        return h.decode('utf-8') if h else '-'

    def walk(n, out):
        out.append(f'{n.contents.name.decode()}={uri(n.contents.ns) or "-"}')
        attrs = []
        a = n.contents.properties
        while a:
            attrs.append(f'@{a.contents.name.decode()}={uri(a.contents.ns) or "-"}')
            a = a.contents.next
        out.extend(sorted(attrs))
        c = n.contents.children
        while c:
            if c.contents.type == 1:
                walk(c, out)
            c = c.contents.next
    res = []
    for d in docs_:
        raw = d.encode('utf-8')
        doc = lib.xmlReadMemory(raw, len(raw), b'd.xml', None, 32 | 64)
        if not doc:
            res.append(None)
            continue
        out = []
        walk(C.cast(lib.xmlDocGetRootElement(doc), C.POINTER(Node)), out)
        lib.xmlFreeDoc(doc)
        res.append(' '.join(o.replace('=' + '', '=') for o in out))
    return res


def main():
    os.makedirs(SCRATCH, exist_ok=True)
    ds = docs()
    docs_file = os.path.join(SCRATCH, 'docs.txt')
    with open(docs_file, 'w', encoding='utf-8') as f:
        for d in ds:
            f.write(esc(d) + '\n')
    cls = os.path.join(SCRATCH, 'cls')
    os.makedirs(cls, exist_ok=True)
    subprocess.run(['javac', '-d', cls, os.path.join(ROOT, 'tools', 'xpath_oracle', 'NsOracle.java')], check=True)
    java_out = os.path.join(SCRATCH, 'java.txt')
    subprocess.run(['java', '-cp', cls, 'NsOracle', docs_file, java_out], check=True)
    java = [l.rstrip('\n') for l in open(java_out, encoding='utf-8')]
    lx = by_libxml2(ds)
    kept, dropped, samples = [], {'rejected by the JDK (unbound prefix ...)': 0, 'libxml2 differs': 0}, []
    for d, j, l in zip(ds, java, lx):
        if j == 'E':
            dropped['rejected by the JDK (unbound prefix ...)'] += 1
            continue
        if l is None or l.replace('=-', '=-') != j:
            dropped['libxml2 differs'] += 1
            samples.append((d, j, str(l)))
            continue
        kept.append((d, j))
    with open(OUT, 'w', encoding='utf-8') as f:
        for d, e in kept:
            f.write(f'{esc(d)}\t{e}\n')
    with open(os.path.join(SCRATCH, 'disagreements.txt'), 'w', encoding='utf-8') as f:
        for s in samples[:50]:
            f.write('\t'.join(s) + '\n')
    print(f'{len(kept)} of {len(ds)} documents kept (the JDK and libxml2 agree); dropped: {dropped} -> {OUT}')


if __name__ == '__main__':
    main()
