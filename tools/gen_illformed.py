#!/usr/bin/env python3
"""Generate the corpus of ill-formed documents of the C02 grid (replay op info.reject): token-level mutants of
well-formed documents -- the quantifier of C02 -- that an INDEPENDENT XML parser (expat, via python's pyexpat) rejects as not
well-formed.  The corpus is written once to replay/data/ill_formed_mutants.txt (committed; one document per line with
\\n \\r \\t \\\\ escaped) and compiled into the replay crate, so a check never needs python or expat and always runs the same
cases.  What the oracle is used for: only to SELECT mutants that are ill-formed; the expectation itself ("an ill-formed
document is not reported as completely parsed") is C02's.

Kept out on purpose (no false alarm may come from the oracle):
  * non-ASCII input (expat follows the name classes of XML 1.0 4th edition, xml-rs those of the 5th),
  * mutants expat rejects for reasons that are not XML 1.0 well-formedness: unknown / incorrect encoding names, and
    anything around a DOCTYPE with an external subset or parameter-entity references,
  * namespace constraints (expat runs namespace-unaware): only XML 1.0 proper.
usage: gen_illformed.py [--max N]  (deterministic: no randomness, the mutants are enumerated)"""
import os
import re
import sys
import xml.parsers.expat as expat

ROOT = os.path.dirname(os.path.dirname(os.path.abspath(__file__)))
OUT = os.path.join(ROOT, 'replay', 'data', 'ill_formed_mutants.txt')
OUT_WELL = os.path.join(ROOT, 'replay', 'data', 'well_formed_mutants.txt')

SEEDS = [
    '<r/>',
    '<r></r>',
    '<?xml version="1.0"?><r/>',
    '<?xml version="1.0" encoding="UTF-8" standalone="yes"?><r/>',
    "<?xml version='1.0' standalone='no'?>\n<!-- c -->\n<?p d?>\n<r/>\n<!-- t -->",
    '<r a="1" b=\'2\'/>',
    '<r a="1" b="2" c="3"></r>',
    '<r a="&lt;&amp;&gt;&quot;&apos;" b="&#65;&#x42;"/>',
    '<r>text &lt;&amp;&gt; &#65;&#x42; <![CDATA[<c>&d;]]> tail</r>',
    '<r><a><b/></a><!--c--><?p d?><c>t</c></r>',
    '<r xmlns="u" xmlns:p="v"><p:a p:b="1" b="2"/></r>',
    '<!DOCTYPE r><r/>',
    '<!DOCTYPE r [<!ENTITY e "v">]><r a="&e;">&e;</r>',
    '<!DOCTYPE r [<!ELEMENT r (a|b)*><!ELEMENT a EMPTY><!ELEMENT b (#PCDATA)>]><r><a/><b>t</b></r>',
    '<!DOCTYPE r [<!ELEMENT r (a,(b|c)?,d+)><!ELEMENT a ANY>]><r/>',
    '<!DOCTYPE r [<!ATTLIST r a CDATA #IMPLIED b (x|y) "x" c ID #REQUIRED d NMTOKENS #FIXED "p q">]><r c="i"/>',
    '<!DOCTYPE r [<?p d?><!-- c -->]><r/>',
    '<!DOCTYPE r [<!NOTATION n SYSTEM "n"><!ENTITY u SYSTEM "u.bin" NDATA n>]><r/>',
    '<!DOCTYPE r [<!ENTITY a "x&#62;"><!ENTITY b \'say "&a;"\'>]><r>&b;</r>',
    '<r> \n\t </r>',
    '<r><?p?><?q   spaced  data ?><!----><!-- - --></r>',
    '<r>a<![CDATA[]]>b<![CDATA[]]]]><![CDATA[>]]></r>',
    '<a><b><c>x</c><c/></b><b/></a>',
]

TOKEN = re.compile(r'''<!--|-->|<\?|\?>|<!\[CDATA\[|\]\]>|<!DOCTYPE|<!ELEMENT|<!ATTLIST|<!ENTITY|<!NOTATION|</|/>|&#x|&#|[<>&;=/'"\[\]()|,*+?#%-]|[A-Za-z_:][A-Za-z0-9_:.]*|[0-9]+|\s+|.''', re.S)
POOL = ['<', '>', '&', ';', '"', "'", '=', '/', '</', '/>', '<!--', '-->', '--', '<?', '?>', '<![CDATA[', ']]>', '&#', '&#x', '#', '%', ' ',
        'xml', 'XML', '1', 'r', 'x', '0', ':', '.', '-', '[', ']', '(', ')', '|', ',', '\x01', '&nope;', '&#0;', '&#xD800;', '<r/>', 'x="1"', 'a="9"', '<?xml version="1.0"?>', '<!DOCTYPE r>']
EXCLUDED_CODES = {18, 19}          # XML_ERROR_UNKNOWN_ENCODING, XML_ERROR_INCORRECT_ENCODING


def expat_error(s):
    p = expat.ParserCreate()
    try:
        p.Parse(s, True)
        return None
    except expat.ExpatError as e:
        return e.code
    except Exception:
        return -1


def mutants(seed):
    toks = TOKEN.findall(seed)
    assert ''.join(toks) == seed
    n = len(toks)
    for i in range(n):
        yield ''.join(toks[:i] + toks[i + 1:])                       # delete
        yield ''.join(toks[:i] + [toks[i], toks[i]] + toks[i + 1:])  # duplicate
        if i + 1 < n:
            yield ''.join(toks[:i] + [toks[i + 1], toks[i]] + toks[i + 2:])  # swap neighbours
        for p in POOL:
            if p != toks[i]:
                yield ''.join(toks[:i] + [p] + toks[i + 1:])         # replace
    for i in range(n + 1):
        for p in POOL:
            yield ''.join(toks[:i] + [p] + toks[i:])                 # insert


def dup_attribute_tags():
    """WFC Unique Att Spec, systematically: every start tag with 2..4 attributes from a small pool in which two names are equal."""
    names = ['a', 'b', 'p:a', 'q:a', 'xmlns:a', 'xmlns', 'p:b']
    import itertools
    for k in (2, 3, 4):
        for combo in itertools.product(names, repeat=k):
            if len(set(combo)) < k:
                attrs = ' '.join(f"{nm}='{i}'" for i, nm in enumerate(combo))
                yield f'<r {attrs}/>'
                if k <= 3:
                    yield f'<r {attrs}></r>'


ENTITY_DECL = re.compile(r'''(<!ENTITY\s+[^\s"'<>%]+\s+)("[^"]*"|'[^']*')''')
ENTITY_VALUE_OK = re.compile(r'''(?:[^%&]|&[A-Za-z_:][A-Za-z0-9_:.-]*;|&#[0-9]+;|&#x[0-9a-fA-F]+;|%[A-Za-z_:][A-Za-z0-9_:.-]*;)*\Z''')


def blame_is_entity_text(m):
    """The ill-formedness lies ONLY in what an entity's replacement text turns into when it is used: every entity value literal
    matches production [9] EntityValue, and the document with all entity values emptied is well-formed.  (`<` reaching an
    attribute value or unbalanced markup reaching content through a reference, a reference to an undeclared entity inside a
    value, a character reference to an illegal character inside a value.)  xml-rs does not check replacement text at all: one
    recorded open finding with four listed inputs (known_findings.jsonl) stands for the class, which is kept out of the corpus."""
    vals = ENTITY_DECL.findall(m)
    if not vals or not all(ENTITY_VALUE_OK.match(v[1:-1]) for _, v in vals):
        return False
    emptied = ENTITY_DECL.sub(lambda mm: mm.group(1) + '""', m)
    return expat_error(emptied) is None


def esc(s):
    return s.replace('\\', '\\\\').replace('\n', '\\n').replace('\r', '\\r').replace('\t', '\\t')


def main():
    cap = int(sys.argv[sys.argv.index('--max') + 1]) if '--max' in sys.argv else 10 ** 9
    seen, out, well = set(), [], []
    skipped_entity_text = 0
    skipped_decl_name = 0
    for s in SEEDS:
        assert expat_error(s) is None, s
    for gen in [dup_attribute_tags()] + [mutants(s) for s in SEEDS]:
        for m in gen:
            if m in seen or not m.isascii() or '\x00' in m:
                continue
            seen.add(m)
            if re.search(r'SYSTEM|PUBLIC|%', m) and '<!DOCTYPE' in m:
                continue      # external subset / parameter entities change what is a well-formedness error
            code = expat_error(m)
            if code is None:
                well.append(m)      # a well-formed mutant: material for the round-trip and totality grids (C04, C03)
                continue
            if code in EXCLUDED_CODES or code < 0:
                continue
            if blame_is_entity_text(m):
                skipped_entity_text += 1
                continue
            # general-entity / notation declarations whose name starts with a digit, '-' or '.': accepted by xml-rs and pinned by
            # its test-suite (declarations named `1`); a second recorded open finding with two listed inputs stands for this class
            fixed = re.sub(r'(<!(?:ENTITY|NOTATION)\s+)(?=[-.0-9])', r'\1n', m)
            if fixed != m and (expat_error(fixed) is None or blame_is_entity_text(fixed)):
                skipped_decl_name += 1
                continue
            out.append(m)
            if len(out) >= cap:
                break
    os.makedirs(os.path.dirname(OUT), exist_ok=True)
    with open(OUT, 'w') as f:
        for m in out:
            f.write(esc(m) + '\n')
    with open(OUT_WELL, 'w') as f:
        for m in well:
            f.write(esc(m) + '\n')
    print(f'{len(well)} well-formed mutants -> {OUT_WELL}')
    print(f'{len(out)} ill-formed mutants of {len(SEEDS)} seeds (+ duplicate-attribute tags) -> {OUT}; {skipped_entity_text} left out: ill-formed only through entity replacement text, {skipped_decl_name}: only through the first character of a declared entity / notation name')


if __name__ == '__main__':
    main()
