#!/usr/bin/env python3
"""Development aid: summarise the disagreements of `replay grid xpath.corpus` (file given) by shape."""
import collections, random, re, sys
lines = open(sys.argv[1], encoding='utf-8', errors='replace').read().split('WITNESS ')[1:]
recs = []
for b in lines:
    d = {}
    for l in b.split('\n'):
        l = l.strip()
        for k in ('arg doc=', 'arg query=', 'observed=', 'expected='):
            if l.startswith(k):
                d[k[:-1]] = l[len(k):]
    recs.append(d)
def cls(r):
    q, o = r.get('arg query', ''), r.get('observed', '')
    if o.startswith('Err'):
        return o[:60]
    if o.startswith('PANIC'):
        return o[:60]
    if re.search(r'^(//@|.*/@|.*attribute::)[\w:*]+/', q) or re.search(r'//@[\w*:]+/', q):
        return 'attribute as context node'
    return o[:2] + ' vs ' + r.get('expected', '')[:2]
c = collections.Counter(cls(r) for r in recs)
print(len(recs), c.most_common(30))
want = sys.argv[2] if len(sys.argv) > 2 else None
random.seed(2)
sel = [r for r in recs if want is None or cls(r).startswith(want)]
for r in random.sample(sel, min(int(sys.argv[3]) if len(sys.argv) > 3 else 40, len(sel))):
    print(r.get('arg doc'), '|', r.get('arg query'), '|', r.get('observed', '')[:110], '|', r.get('expected', '')[:110])
