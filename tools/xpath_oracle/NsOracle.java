// Independent oracle for the C10 corpus (JDK DOM parser, namespace-aware): for each document (one escaped document per line)
// prints, in document order, "local={uri}" for every element followed by its attributes (namespace declarations left out)
// sorted, as "@local={uri}"; "-" stands for no namespace; "E" when the document is rejected.
import java.io.*;
import java.nio.charset.StandardCharsets;
import java.nio.file.*;
import java.util.*;
import javax.xml.parsers.*;
import org.w3c.dom.*;
import org.xml.sax.*;

public class NsOracle {
    static String unesc(String v) {
        StringBuilder out = new StringBuilder();
        for (int i = 0; i < v.length(); i++) {
            char c = v.charAt(i);
            if (c == '\\' && i + 1 < v.length()) {
                char d = v.charAt(++i);
                switch (d) { case 'n': out.append('\n'); break; case 'r': out.append('\r'); break; case 't': out.append('\t'); break; default: out.append(d); }
            } else out.append(c);
        }
        return out.toString();
    }
    static String u(String s) { return (s == null || s.isEmpty()) ? "-" : s; }
    static void walk(Element e, List<String> out) {
        out.add(e.getLocalName() + "=" + u(e.getNamespaceURI()));
        List<String> attrs = new ArrayList<>();
        NamedNodeMap m = e.getAttributes();
        for (int i = 0; i < m.getLength(); i++) {
            Attr a = (Attr) m.item(i);
            if (a.getName().equals("xmlns") || a.getName().startsWith("xmlns:")) continue;
            attrs.add("@" + a.getLocalName() + "=" + u(a.getNamespaceURI()));
        }
        Collections.sort(attrs);
        out.addAll(attrs);
        for (Node c = e.getFirstChild(); c != null; c = c.getNextSibling()) if (c instanceof Element) walk((Element) c, out);
    }
    public static void main(String[] a) throws Exception {
        List<String> docs = Files.readAllLines(Paths.get(a[0]), StandardCharsets.UTF_8);
        DocumentBuilderFactory f = DocumentBuilderFactory.newInstance();
        f.setNamespaceAware(true);
        PrintStream out = new PrintStream(new FileOutputStream(a[1]), false, "UTF-8");
        for (String d : docs) {
            String res;
            try {
                DocumentBuilder b = f.newDocumentBuilder();
                b.setErrorHandler(new ErrorHandler() {
                    public void warning(SAXParseException e) {}
                    public void error(SAXParseException e) throws SAXException { throw e; }
                    public void fatalError(SAXParseException e) throws SAXException { throw e; }
                });
                Document doc = b.parse(new InputSource(new StringReader(unesc(d))));
                List<String> items = new ArrayList<>();
                walk(doc.getDocumentElement(), items);
                res = String.join(" ", items);
            } catch (Throwable t) {
                res = "E";
            }
            out.println(res);
        }
        out.close();
    }
}
