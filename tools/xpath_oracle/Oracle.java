// Independent XPath 1.0 oracle (JDK javax.xml.xpath) for the C05 corpus: reads "docs.txt" (one escaped document per line) and
// "exprs.txt" (lines "<doc index>\t<escaped expression>"), prints one line per expression: "<doc>\t<expr>\t<canonical result>".
// Canonical result:  B:true|false   N:<xpath string of the number>|<hex bits>   S:<escaped string>   E (error)
//   NS:<k1>,<k2>,...  sorted node keys: <tree index> | <owner tree index>@{<namespace URI>}<local name>
// tree index: 0 = the root node, then element / text / comment / PI nodes in document order (adjacent text merged, doctype skipped)
import java.io.*;
import java.nio.charset.StandardCharsets;
import java.nio.file.*;
import java.util.*;
import javax.xml.namespace.NamespaceContext;
import javax.xml.parsers.*;
import javax.xml.xpath.*;
import org.w3c.dom.*;
import org.xml.sax.InputSource;

public class Oracle {
    static String unesc(String v) {
        StringBuilder out = new StringBuilder();
        for (int i = 0; i < v.length(); i++) {
            char c = v.charAt(i);
            if (c == '\\' && i + 1 < v.length()) {
                char d = v.charAt(++i);
                switch (d) { case 'n': out.append('\n'); break; case 'r': out.append('\r'); break; case 't': out.append('\t'); break; default: out.append(d); }
            } else out.append(c);
        }
        return out.toString();
    }
    static String esc(String v) {
        return v.replace("\\", "\\\\").replace("\n", "\\n").replace("\r", "\\r").replace("\t", "\\t");
    }
    static void number(Node n, IdentityHashMap<Node, Integer> idx, int[] next) {
        for (Node c = n.getFirstChild(); c != null; c = c.getNextSibling()) {
            short t = c.getNodeType();
            if (t == Node.ELEMENT_NODE || t == Node.TEXT_NODE || t == Node.CDATA_SECTION_NODE || t == Node.COMMENT_NODE || t == Node.PROCESSING_INSTRUCTION_NODE) {
                idx.put(c, next[0]++);
                if (t == Node.ELEMENT_NODE) number(c, idx, next);
            }
        }
    }
    public static void main(String[] a) throws Exception {
        List<String> docs = Files.readAllLines(Paths.get(a[0]), StandardCharsets.UTF_8);
        List<String> exprs = Files.readAllLines(Paths.get(a[1]), StandardCharsets.UTF_8);
        DocumentBuilderFactory f = DocumentBuilderFactory.newInstance();
        f.setNamespaceAware(true); f.setCoalescing(true); f.setExpandEntityReferences(true); f.setIgnoringComments(false);
        List<Document> parsed = new ArrayList<>();
        List<IdentityHashMap<Node, Integer>> index = new ArrayList<>();
        for (String d : docs) {
            DocumentBuilder b = f.newDocumentBuilder();
            Document doc = b.parse(new InputSource(new StringReader(unesc(d))));
            doc.normalize();
            IdentityHashMap<Node, Integer> idx = new IdentityHashMap<>();
            idx.put(doc, 0);
            number(doc, idx, new int[]{1});
            parsed.add(doc); index.add(idx);
        }
        final Map<String, String> ns = new HashMap<>();
        ns.put("p", "urn:p"); ns.put("q", "urn:q"); ns.put("xml", "http://www.w3.org/XML/1998/namespace");
        XPathFactory xf = XPathFactory.newInstance();
        PrintStream out = new PrintStream(new FileOutputStream(a[2]), false, "UTF-8");
        for (String line : exprs) {
            int tab = line.indexOf('\t');
            int di = Integer.parseInt(line.substring(0, tab));
            String ex = unesc(line.substring(tab + 1));
            String res;
            boolean negzero = false;
            try {
                XPath xp = xf.newXPath();
                xp.setNamespaceContext(new NamespaceContext() {
                    public String getNamespaceURI(String p) { return ns.getOrDefault(p, ""); }
                    public String getPrefix(String u) { return null; }
                    public Iterator<String> getPrefixes(String u) { return null; }
                });
                XPathEvaluationResult<?> r = xp.evaluateExpression(ex, parsed.get(di));
                switch (r.type()) {
                    case BOOLEAN: res = "B:" + r.value(); break;
                    case NUMBER: {
                        double d = ((Number) r.value()).doubleValue();
                        negzero = (d == 0.0 && 1.0 / d < 0);
                        if (d == 0.0) d = 0.0;   // the sign of zero is not part of the comparison
                        String s = (String) xp.evaluate("string(" + ex + ")", parsed.get(di), XPathConstants.STRING);
                        res = "N:" + s + "|" + (Double.isNaN(d) ? "nan" : Long.toHexString(Double.doubleToLongBits(d)));
                        break;
                    }
                    case STRING: res = "S:" + esc((String) r.value()); break;
                    case NODESET: case NODE: {
                        List<String> keys = new ArrayList<>();
                        List<Node> nodes = new ArrayList<>();
                        if (r.type() == XPathEvaluationResult.XPathResultType.NODE) nodes.add((Node) r.value());
                        else for (Node n : (XPathNodes) r.value()) nodes.add(n);
                        boolean bad = false;
                        for (Node n : nodes) {
                            if (n.getNodeType() == Node.ATTRIBUTE_NODE) {
                                Attr at = (Attr) n;
                                Integer o = index.get(di).get(at.getOwnerElement());
                                if (o == null || at.getName().equals("xmlns") || at.getName().startsWith("xmlns:")) { bad = true; break; }
                                keys.add(String.format("%05d@{%s}%s", o, at.getNamespaceURI() == null ? "" : at.getNamespaceURI(), at.getLocalName() == null ? at.getName() : at.getLocalName()));
                            } else {
                                Integer o = index.get(di).get(n);
                                if (o == null) { bad = true; break; }
                                keys.add(String.format("%05d", o));
                            }
                        }
                        Collections.sort(keys);
                        res = bad ? "E" : "NS:" + String.join(",", new LinkedHashSet<>(keys));
                        break;
                    }
                    default: res = "E";
                }
            } catch (Throwable t) {
                res = "E";
            }
            String str;
            try {
                XPath xp2 = xf.newXPath();
                xp2.setNamespaceContext(new NamespaceContext() {
                    public String getNamespaceURI(String p) { return ns.getOrDefault(p, ""); }
                    public String getPrefix(String u) { return null; }
                    public Iterator<String> getPrefixes(String u) { return null; }
                });
                str = "STR:" + esc((String) xp2.evaluate("string(" + ex + ")", parsed.get(di), XPathConstants.STRING));
            } catch (Throwable t) {
                str = "E";
            }
            out.println(di + "\t" + esc(ex) + "\t" + res + "\t" + str + "\t" + (negzero ? "NEGZERO" : "-"));
        }
        out.close();
    }
}
