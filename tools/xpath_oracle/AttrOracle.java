// Independent oracle for the C11 corpus (JDK DOM parser, non-validating): for each document (one escaped document per line of
// the input file) prints the attributes of the document element, sorted by name: "name=<escaped value>[S|D]" (S specified,
// D defaulted from the DTD), joined by "\u0001"; "E" when the document does not parse.
import java.io.*;
import java.nio.charset.StandardCharsets;
import java.nio.file.*;
import java.util.*;
import javax.xml.parsers.*;
import org.w3c.dom.*;
import org.xml.sax.*;

public class AttrOracle {
    static String unesc(String v) {
        StringBuilder out = new StringBuilder();
        for (int i = 0; i < v.length(); i++) {
            char c = v.charAt(i);
            if (c == '\\' && i + 1 < v.length()) {
                char d = v.charAt(++i);
                switch (d) { case 'n': out.append('\n'); break; case 'r': out.append('\r'); break; case 't': out.append('\t'); break; default: out.append(d); }
            } else out.append(c);
        }
        return out.toString();
    }
    static String esc(String v) { return v.replace("\\", "\\\\").replace("\n", "\\n").replace("\r", "\\r").replace("\t", "\\t"); }
    public static void main(String[] a) throws Exception {
        List<String> docs = Files.readAllLines(Paths.get(a[0]), StandardCharsets.UTF_8);
        DocumentBuilderFactory f = DocumentBuilderFactory.newInstance();
        f.setNamespaceAware(false); f.setExpandEntityReferences(true); f.setValidating(false);
        PrintStream out = new PrintStream(new FileOutputStream(a[1]), false, "UTF-8");
        for (String d : docs) {
            String res;
            try {
                DocumentBuilder b = f.newDocumentBuilder();
                b.setErrorHandler(new ErrorHandler() {
                    public void warning(SAXParseException e) {}
                    public void error(SAXParseException e) {}
                    public void fatalError(SAXParseException e) throws SAXException { throw e; }
                });
                Document doc = b.parse(new InputSource(new StringReader(unesc(d))));
                NamedNodeMap m = doc.getDocumentElement().getAttributes();
                List<String> items = new ArrayList<>();
                for (int i = 0; i < m.getLength(); i++) {
                    Attr at = (Attr) m.item(i);
                    items.add(at.getName() + "=" + esc(at.getValue()) + (at.getSpecified() ? "S" : "D"));
                }
                Collections.sort(items);
                res = String.join("\u0001", items);
                if (items.isEmpty()) res = "-";
            } catch (Throwable t) {
                res = "E";
            }
            out.println(res);
        }
        out.close();
    }
}
