#!/usr/bin/env python3
"""Generate the XPath corpus of the C05 / C09 / C10 grids (replay op xpath.corpus): expressions of the supported language,
enumerated from a small grammar over four documents, with the value TWO independent XPath 1.0 implementations agree on:
the JDK's javax.xml.xpath (tools/xpath_oracle/Oracle.java: typed result, node identities) and libxml2 2.13 (the same
canonical value computed through ctypes on the parsed tree).  An expression is kept only when both evaluate it and agree exactly; the expected value is then what XPath 1.0
prescribes as far as two unrelated implementations can tell, and neither implementation's own bugs reach the corpus.

The corpus is written once to replay/data/xpath_corpus.txt (committed; "<doc>\\t<expression>\\t<canonical value>", escaped) and
compiled into the replay crate: a check needs neither java nor libxml2 and always runs the same cases.

Canonical value:  B:true|false   N:<string(number)>|<hex bits, zero unsigned>   S:<string>
                  NS:<sorted node keys>   key = <tree index> | <owner tree index>@{<namespace URI>}<local name> (attribute)
tree index: 0 the root node, then element / text / comment / PI nodes in document order (adjacent text merged, doctype skipped).
Kept out: id(), variables, the namespace axis as a node-set (implementation-defined order / identity; count(namespace::*) is in),
astral characters (the JDK counts UTF-16 units), namespace declarations as attribute nodes."""
import itertools
import os
import re
import subprocess
import sys

ROOT = os.path.dirname(os.path.dirname(os.path.abspath(__file__)))
OUT = os.environ.get('XPATH_CORPUS_OUT') or os.path.join(ROOT, 'replay', 'data', 'xpath_corpus.txt')
DOCS_OUT = os.environ.get('XPATH_CORPUS_DOCS_OUT') or os.path.join(ROOT, 'replay', 'data', 'xpath_corpus_docs.txt')
SCRATCH = os.path.join(ROOT, '.scratch', 'xpath_corpus')
LIBXML2 = '/root/miniconda/lib/libxml2.so.2'

DOCS = [
    # 0: mixed content, attributes, comment, PI, repeated names
    '<r x="1" y="b"><a x="1">1<b>2</b>t</a><a>3</a><!--c--><b x="2" z="3">4<c/>5</b><?pi d?><d> 6 </d>tail<e><a>7</a></e></r>',
    # 1: namespaces (default, prefixed, undeclared default, the same URI under two prefixes)
    '<r xmlns="urn:d" xmlns:p="urn:p"><p:a p:x="1" x="2"/><a xmlns=""><b/></a><w:a xmlns:w="urn:p" w:x="3">t</w:a><c xmlns:q="urn:q" q:y="4"><q:d/></c></r>',
    # 2: text flavours (references, CDATA, entity), xml:lang, numeric-looking strings
    '<!DOCTYPE r [<!ENTITY e "ent">]><r>a&amp;b<![CDATA[<c>]]>&#65;&e;<x xml:lang="en-US"><y xml:lang="fr">\u00e9\u20ac</y><z/></x><n>12</n><n> 3.5 </n><n>-0</n><n>abc</n><n>1e3</n><n>.5</n><n>-7</n></r>',
    # 3: depth and repeated names for positional predicates and reverse axes
    '<r><s><a i="1"/><a i="2"><a i="3"/></a><b/><a i="4"/></s><s><a i="5"/><b><a i="6"/></b></s><s/></r>',
    # 4: comments and PIs around the document element, DOCTYPE between them, white-space-only text, references inside attribute values
    '<?xml version="1.0"?><!--pre--><?p1 a?><!DOCTYPE r [<!ENTITY e "E"><!ATTLIST r d CDATA "dflt">]><!--mid--><r a="x&amp;y&#65;&e;"> <k/> <k> </k>\n<!--in--><?p2?></r><!--post--><?p3 z?>',
    # 5: prefixes re-declared and un-declared at several depths; the same local name in three namespaces
    '<a xmlns="u1" xmlns:p="u2"><p:a xmlns:p="urn:p"><a xmlns=""><p:a/><a xmlns="urn:q" p:z="1" z="2"/></a></p:a><p:a><q:a xmlns:q="urn:p"/></p:a></a>',
    # 6: an element with a matching child AFTER a nested element of the same name (context nodes that nest)
    '<r><a><b id="1"/><a><b id="2"/><c/></a><b id="3"/></a><a><b id="4"/></a></r>',
    # 8: prefixes that are case variants of `xml` (ordinary prefixes), next to the real xml: prefix
    # (appended below)
    # 7: xml:lang next to attributes that merely have the local name lang
    '<r xml:lang="en"><a lang="fr"><b/>t</a><c p:lang="de" xmlns:p="urn:p"><!--k--></c><d xml:lang=""><e/></d><f xml:lang="EN-us" lang="de"/></r>',
    # 8: prefixes that are case variants of `xml` are ordinary prefixes
    '<r xmlns:XML="urn:p" xmlns:Xml="urn:q"><XML:a XML:x="1" Xml:y="2" xml:space="default" x="0"/><Xml:b XmL:z="3" xmlns:XmL="urn:p"><XML:c/></Xml:b></r>',
]

AXES = ['ancestor', 'ancestor-or-self', 'attribute', 'child', 'descendant', 'descendant-or-self', 'following', 'following-sibling',
        'parent', 'preceding', 'preceding-sibling', 'self']
TESTS = {0: ['*', 'node()', 'text()', 'comment()', 'processing-instruction()', "processing-instruction('pi')", 'a', 'b', 'x'],
         1: ['*', 'node()', 'a', 'p:a', 'p:*', 'q:d', 'p:x', 'x', 'b'],
         2: ['*', 'node()', 'text()', 'n', 'y'],
         3: ['*', 'node()', 'a', 'b', 's', 'i'],
         4: ['*', 'node()', 'text()', 'comment()', 'processing-instruction()', "processing-instruction('p2')", 'k', 'a', 'd'],
         5: ['*', 'node()', 'a', 'p:a', 'q:a', 'p:*', 'q:*', 'p:z', 'z'],
         6: ['*', 'node()', 'a', 'b', 'c', 'id'],
         7: ['*', 'node()'],
         8: ['*', 'node()', 'p:*', 'q:*', 'p:a', 'p:x', 'q:y', 'x']}
CONTEXTS = {0: ['/', '/r', '//a', '//b', '//c', '//@x', '//text()', '//comment()', '/r/e/a', '//processing-instruction()'],
            1: ['/', '/*', '//p:a', '//a', '//*', '//@*'],
            2: ['/', '/r', '//y', '//n', '//text()'],
            3: ['/', '//s', '//a', '//b', '//a[@i=3]', '//a[@i=6]', '//@i'],
            4: ['/', '/r', '//k', '//comment()', '//processing-instruction()', '//text()', '//@*', '/comment()[1]', '/processing-instruction()[last()]'],
            5: ['/', '/*', '//*', '//p:a', '//q:a', '//a', '//@*'],
            6: ['/', '//a', '//b', '//c', '//@id', '(//a)', '(//a | //b)', '(//*)', '(//a)[2]', '(//a//*)'],
            7: ['/'],
            8: ['/', '//*', '//@*', '//p:a']}
PREDS = ['', '[1]', '[2]', '[last()]', '[position()>1]', '[position()=last()-1]', '[@x]', '[not(@*)]', "[.='1']", '[a]', '[text()]', '[1][1]', '[2][1]', '[last()][1]',
         '[position() mod 2 = 1]', '[true()]', '[0]', '[1.5]', "['']", "['x']", '[count(*)]', '[.//a]', '[../a]', '[self::a or self::b]', '[string-length() > 1]']

NON_POSITIONAL = ['', '[@x]', '[not(@*)]', "[.='1']", '[a]', '[text()]', '[true()]', "['']", "['x']", '[.//a]', '[../a]', '[self::a or self::b]', '[string-length() > 1]']

STRS = ["''", "'abc'", "' a  b '", "'12'", "'-1.5'", "'\u00e9\u20ac'", "'abcabc'", "'b'", "'NaN'", "'Infinity'", "'1e3'", "' 7 '", "'+1'", "'.5'", "'5.'", "'0x10'", "'--1'", "'1 2'"]
NUMS = ['0', '1', '-1', '1.5', '2.5', '-0.5', '-2.5', '0.5', '3', '100', '0.1', '99999999999', '.5', '5.', '(1 div 0)', '(-1 div 0)', '(0 div 0)', '12345678901234567890', '0.000001', '(2 - 3)', '1000000', '123456789', '0.1 + 0.2', '(1 div 3)']
BOOLS = ['true()', 'false()']
SETS = ['/r/a', '//text()', '//nosuch', '//@x', '//b', '/r', '//a/b', '//c', '/r/d', '//comment()']
MIXED = STRS[:8] + NUMS[:12] + BOOLS + SETS[:6]


def exprs_for(di):
    out = []
    for ctx in CONTEXTS[di]:
        for ax in AXES:
            for t in TESTS[di]:
                base = f'{ctx}/{ax}::{t}' if ctx != '/' else f'/{ax}::{t}'
                preds = PREDS if (di in (0, 3)) else PREDS[:8]
                if di == 4:
                    preds = PREDS[:6] + ['[text()]', '[true()]', '[string-length() > 1]']
                if ax == 'attribute':
                    # the relative order of the attributes of one element is implementation-dependent: no positional predicates
                    preds = [p for p in preds if p in NON_POSITIONAL]
                for p in preds:
                    out.append(base + p)
        if not (di == 1 and ctx in ('//a', '//*')) and not (di == 5 and ctx != '/*'):
            # (under xmlns="" both oracles count the un-declaration as a namespace node; XPath 1.0 5.4 says there is none)
            out.append(f'count({ctx}/namespace::*)' if ctx != '/' else 'count(/namespace::*)')
    # two steps: every pair of axes from a few context paths
    two = {0: ['//a', '//b', '//@x', '//text()', '(//a | //b)', '(//*)'], 3: ['//a', '//@i', '//b', '(//a)', '(//s | //a)'], 4: ['//k', '/comment()', '//@*'], 5: ['//p:a', '//@*'], 6: ['//a', '(//a)', '(//*)', '(//a | //c)']}.get(di, [])
    for ctx in two:
        for ax1 in AXES:
            for ax2 in AXES:
                for t1, t2 in (('*', '*'), ('node()', 'node()'), ('*', 'node()'), ('node()', '*')):
                    out.append(f'{ctx}/{ax1}::{t1}/{ax2}::{t2}')
                if ax2 != 'attribute':      # (no positional predicate on the attribute axis: the order is implementation-dependent)
                    out.append(f'{ctx}/{ax1}::node()[1]/{ax2}::node()[1]')
                    out.append(f'{ctx}/{ax1}::*[last()]/{ax2}::*[2]')
    return out


CURATED = {
    0: ['1 div sum(//nosuch)', '1 div count(//nosuch)', "1 div string-length('')", '1 div floor(0.5)', '1 div ceiling(-0.5)', '1 div round(-0.2)', '1 div round(0.2)', '1 div round(-0.5)', '1 div (0 * -1)', '1 div (0 div -5)',
        '1 div (1 - 1)', '1 div (-1 + 1)', 'string(sum(//nosuch))', 'string(count(//nosuch))', "1 div number('0')", "1 div number('-0')", '1 div (0 mod 5)', '1 div (-5 mod 5)', '1 div (5 mod -5)', '1 div sum(//c)', '1 div number(false())',
        '1 div (sum(//nosuch) * -1)', '1 div floor(-0.5)', '1 div ceiling(0.5)', 'sum(//nosuch) = 0', '1 div string-length(//c)', '1 div count(//c/*)',
        '//a', './/b', '/r/a/../b', '/r//a', '/r/a/@x', '/r/*/@*', "//*[@x='1']", '(//a)[2]', '(//a | //b)[last()]', '//a[b][1]', '//a[1][b]', '/r/a[1]/b[1]', '//a | //b | //c', '(//a | //b)', '//a[. = 3]',
        '//*[name()="a"]', '//*[local-name()="b"]', '//*[string()="3"]', '//*[string-length()=1]', "//*[normalize-space()='6']", '//node()[last()]', '//*[last()]', '/r/*[position()=2 or position()=4]',
        '//a[not(b)]', '//*[count(*)=0]', '//*[*]', '/r/node()[3]', '/r/text()', '/r/a/text()[2]', '//a/ancestor::*[1]', '//a/ancestor::*[last()]', '//c/preceding::*[1]', '//c/preceding::node()[2]',
        '//c/following::node()[1]', '(//c/preceding::*)[1]', '//b/preceding-sibling::*[1]', '//b/preceding-sibling::node()[1]', '(//b/preceding-sibling::node())[1]', '/r/*[last()]/a', '/descendant::a[2]', '/descendant::a[last()]',
        '//a[2]', '/r/a[2]', '//@*[. > 1]', '//@*[name()="z"]/..', '//*[@x=//@x]', '//*[@x=/r/@x]', '//*[. = //d]', '//text()[. = " 6 "]', '/r/a = /r/e/a', '/r/a != /r/a', '/r/a = 3', '/r/a > 2', '/r/a < 2', '/r/a >= /r/b', '//nosuch = //nosuch',
        '//nosuch != 1', "/r/a = '3'", '/r/a = true()', '//nosuch = false()', '-//a', '- - //a[2]', '//a + 1', '//a * //b', 'sum(//a)', 'sum(/r/a | //e/a)', 'sum(//nosuch)', 'count(//node())', 'count(//@*)', 'count(/)', 'count(//a | //a)',
        'string(/)', 'string(//b)', 'string(//@z)', 'string(//comment())', 'string(//processing-instruction())', 'name(//processing-instruction())', 'name(/)', 'name(//@z)', 'name(//comment())', 'local-name(//nosuch)', 'concat(//a, "-", //b)',
        'concat(1, 2, 3, 4)', 'boolean(//a)', 'boolean(//nosuch)', 'not(//a)', 'number(//a)', 'number(//d)', 'number(//b)', 'string(number(//b))', 'floor(//a[2])', 'round(//d)', 'substring(//b, 2)', 'string-length(//d)', 'normalize-space(//d)',
        'translate(//a[1], "1t", "A")', 'contains(/r, "tail")', 'starts-with(/r, 1)', 'substring-before(/r, "t")', 'substring-after(/r, 4)', '//a[position() = 1 or position() = last()]', '//*[position() < 3][last()]', '1 = 1 and 2 = 2 or 1 = 2',
        '1 or (1 div 0 = 2)', '0 and //nosuch/x', 'true() or false() and false()', '1 - 1 - 1', '8 div 2 div 2', '7 mod 2 * 3', '2 * 3 + 4', '2 + 3 * 4', '-2 * -3', '- 2 - - 2', '5 mod -2', '-5 mod 2', '5.5 mod 2', '1 div 0 mod 2', '2 mod 0',
        '1 < 2 < 3', '3 > 2 > 1', '1 = 1 = 1', '1 != 2 != 0', '(1 < 2) = true()', "'a' < 'b'", "'2' > '10'", "'abc' = 'abc'", 'true() > false()', "'' = false()", "'0' = false()", '0 = false()', "'a' = true()", '//a[@x] | //b[@x]',
        '/r/*[self::a][2]', '/r/*[2][self::a]', '//*[ancestor::e]', '//*[not(ancestor::*)]', '//a[following-sibling::b]', '//a[preceding-sibling::a]', '//*[preceding::c]', '//*[following::c][1]', "//*[contains(name(), 'a')]",
        '/r/child::node()[position() = last()]', '/r/descendant-or-self::node()[4]', '//text()[1]', '(//text())[1]', '//text()[last()]', '(//text())[last()]', "//a[text()='3']", '//a[text()=1]', '//b[c]/text()[2]', '/r/self::r', '/r/self::a', '/self::node()',
        '/r/..', '/..', '/r/../..', '//a/..', '//@x/..', '//@x/../@y', '//@x/parent::a', '//@x/ancestor::*', '//@x/ancestor-or-self::node()', '//@x/following::*[1]', '//@x/preceding::*[1]', '//@x/descendant-or-self::node()', '//@x/self::x', '//@x/self::*',
        '//@x/self::node()', '//@x/child::node()', '//@x/following-sibling::node()', '//@x/preceding-sibling::node()', "//a/attribute::x", '//@*/..', 'count(//@x/following::node())', 'count(//@x/preceding::node())'],
    1: ['//p:a', '//a', '//p:*', '//*', '//@p:x', '//@x', '//@p:*', '//@*', '//q:d', '//*[namespace-uri()="urn:p"]', '//*[namespace-uri()=""]', '//*[namespace-uri()="urn:d"]', '//*[local-name()="a"]', '//*[name()="w:a"]', '//*[name()="p:a"]',
        'name(//p:a[1])', 'name(//p:a[2])', 'local-name(//p:a[2])', 'namespace-uri(//p:a[2])', 'namespace-uri(//@p:x)', 'namespace-uri(//@x)', 'name(//@p:x[. = 3])', 'local-name(//@p:x[. = 3])', 'namespace-uri(/*)', 'name(/*)', 'namespace-uri(//b)',
        'count(//p:a)', 'count(//p:a/@p:x)', 'count(//c/namespace::*)', 'count(/*/namespace::*)', 'boolean(//c/namespace::q)', 'boolean(/*/namespace::q)', 'boolean(//b/namespace::p)', 'boolean(//b/namespace::xml)',
        'string(//c/namespace::q)', 'name(//c/namespace::q)', 'local-name(//c/namespace::q)', 'namespace-uri(//c/namespace::q)', '//p:a/@*', '//*[@p:x]', '//*[@x]', '/*/*', '/*/p:a[2]', '//c/q:d', '//c/*', 'count(//@*)', '//p:a[@p:x=3]', '//*[@*=2]'],
    2: ['string(/r)', 'string(/r/text())', 'string(/r/text()[1])', 'count(/r/text())', 'count(/r/node())', 'string-length(/r/text())', "//y[lang('fr')]", "//*[lang('en')]", "//*[lang('en-US')]", "//*[lang('EN')]", "//*[lang('e')]", "//*[lang('fr')]",
        "//z[lang('en-us')]", "//y[lang('en')]", "count(//*[lang('en')])", 'string-length(//y)', 'substring(//y, 2)', 'substring(//y, 1, 1)', "translate(//y, '\u00e9', 'e')", "contains(//y, '\u20ac')", 'number(//n[1])', 'number(//n[2])',
        'number(//n[3])', 'number(//n[4])', 'number(//n[5])', 'number(//n[6])', 'number(//n[7])', 'sum(//n[position() < 4])', 'sum(//n)', 'sum(//n[6] | //n[7])', '//n[. = 12]', '//n[. > 3]', '//n[. < 0]', '//n[. = 3.5]', '//n[number(.) = number(.)]',
        '//n[. = "12"]', '//n[. != 12]', '//n = 12', '//n != 12', '//n > 11', '//n >= 12', '//n < -6', '//n <= -7', '//n = //n', '//n[1] != //n[1]', '//n > //n', "//n = 'abc'", 'string(//n[3] + 0)', 'string(-//n[3])', 'string(//n[2] * 2)',
        'normalize-space(//n[2])', 'normalize-space(/r)', "starts-with(/r, 'a&b<c>Aent')", "contains(/r, '&')", "substring-before(/r, '<')", "substring-after(/r, '>')", "string-length(substring-before(/r, 'ent'))", 'floor(//n[2])', 'ceiling(//n[2])',
        'round(//n[2])', 'round(//n[6])', 'round(-//n[6])', 'round(//n[7] div 2)', 'string(round(-//n[6]))', 'string(//n[7] div 0)', 'string(0 div //n[3])', 'boolean(//n[3])', 'boolean(string(//z))', 'boolean(number(//n[3]))', 'not(//z)', 'not(string(//z))',
        '//x//text()', '//x/*/text()', '//x/descendant::text()[1]', '//text()[. = "12"]', "//text()[contains(., 'ent')]", '//text()[string-length() = 2]', '/r/text()/following-sibling::*[1]', '/r/x/preceding-sibling::text()', 'name(/r/text()/following::*[1])'],
    4: ['//@d/..', 'name(//@d/..)', 'count(//@d/ancestor::node())', '/node()', '/comment()', '/processing-instruction()', '/comment()[2]', '/node()[1]', '/node()[last()]', 'count(/node())', 'count(//node())', 'count(//comment())', 'count(//processing-instruction())', 'string(/)', 'string(/r)',
        'string(/r/@a)', 'string-length(/r/@a)', 'string(/r/@d)', 'count(/r/@*)', '/r/@d', '//@*[. = "dflt"]', 'name(/processing-instruction()[1])', 'name(/processing-instruction()[last()])', 'string(/processing-instruction()[last()])',
        'string(//processing-instruction()[2])', 'string(/comment()[1])', 'string(/comment()[last()])', '/r/preceding-sibling::node()', '/r/following-sibling::node()', '/r/preceding::node()', '/r/following::node()',
        '/comment()[1]/following::node()', '/comment()[last()]/preceding::node()', '/comment()[1]/following-sibling::*', '//k/preceding::node()', '//k[2]/preceding-sibling::node()', '//k[1]/following-sibling::node()[1]',
        'count(/r/text())', 'count(/r/node())', 'string-length(/r)', 'normalize-space(/r)', '//text()[normalize-space() = ""]', 'count(//text()[normalize-space() = ""])', '/r/k[2]/text()', 'string(/r/k[2])', 'boolean(/r/k[1]/text())',
        '/r/node()[2]', '/r/node()[last()]', '/r/comment()/following-sibling::node()', 'count(/r/k[1]/following::node())', 'count(/r/k[1]/preceding::node())', '//comment()[. = "in"]/..', '/*/..', 'count(/*)', 'name(/*)',
        "contains(/r/@a, '&')", "substring-after(/r/@a, '&')", "translate(/r/@a, 'xyAE', '1234')", "concat(/r/@a, '|', /r/@d)"],
    5: ['//a', '//p:a', '//q:a', '//p:*', '//*', 'count(//*)', 'count(//p:a)', 'count(//q:a)', 'count(//a)', '/*/p:a', '/*/p:a/*', '/*/*/*', '//a/p:a', '//a/a', '//*[local-name() = "a"]', 'count(//*[local-name() = "a"])',
        '//*[namespace-uri() = "u1"]', '//*[namespace-uri() = "u2"]', '//*[namespace-uri() = "urn:p"]', '//*[namespace-uri() = "urn:q"]', '//*[namespace-uri() = ""]', 'namespace-uri(/*)', 'namespace-uri(/*/*[1])', 'namespace-uri(/*/*[2])',
        'namespace-uri(//a[1])', 'name(/*/*[1])', 'name(/*/*[2])', 'name(/*/*[2]/*)', 'local-name(/*/*[2]/*)', 'namespace-uri(/*/*[2]/*)', '//@p:z', '//@z', '//@*', 'namespace-uri(//@p:z)', 'namespace-uri(//@z)', 'name(//@p:z)', 'name(//@z)',
        '//*[@p:z]', '//*[@z]', '//q:a/@q:z', '//q:a/@*', '//*[name() = "p:a"]', 'count(//*[name() = "p:a"])', '//*[name() = "q:a"]', '//*[name() = "a"]', '//p:a/p:a', '//p:a//p:a', '//p:a/ancestor::p:a', '//p:a/descendant::*',
        '//q:a/ancestor::*', '//q:a/preceding::*', '//q:a/following::*', '//p:a[p:a]', '//p:a[not(*)]', '//*[self::p:a]', '//*[self::q:a or self::a]', 'count(//*[self::p:a or self::q:a])'],
    8: ['//@*', '//@p:*', '//@q:*', '//@p:x', '//@q:y', '//@p:z', '//@x', '//p:*', '//q:*', '//p:a', '//q:b', '//p:c', 'count(//@p:*)', 'count(//@*)', 'namespace-uri(//@*[. = 1])', 'namespace-uri(//@*[. = 2])', 'namespace-uri(//@*[. = 3])',
        'namespace-uri(//@*[. = "default"])', 'local-name(//@*[. = "default"])', 'namespace-uri(//@x)', 'namespace-uri(/*/*[1])', 'namespace-uri(/*/*[2])', 'local-name(//@*[. = 3])', '//*[@p:x]', '//*[@p:z]', '//*[@q:y = 2]', '//*[namespace-uri() = "urn:p"]'],
    7: ["//*[lang('en')]", "//*[lang('fr')]", "//*[lang('de')]", "//*[lang('')]", "//*[lang('en-us')]", "//*[lang('EN')]", "//*[lang('en-US-x')]", "//*[lang('e')]", "//node()[lang('en')]", "//text()[lang('fr')]", "//text()[lang('en')]",
        "//comment()[lang('de')]", "//comment()[lang('en')]", "//@*[lang('en')]", "//@*[lang('fr')]", "//@*[lang('de')]", "count(//*[lang('en')])", "count(//@*[lang('en')])", "boolean(/r/d[lang('en')])", "boolean(/r/d/e[lang('en')])",
        "boolean(/r/d/e[lang('')])", "/r/f[lang('en')]", "/r/f[lang('de')]", "//*[not(lang('en'))]", "lang('en')", "/r/a/b[lang('fr')]", "/r/a/b[lang('en')]"],
    6: ['(//a)/b', '((//a)/b)[2]', '((//a)/b)[last()]', '(//a)/b[1]', '(//a)/b[last()]', '(//a)/*', '(//a)//b', '(//a)/a/b', '(//a)/b/@id', '((//a)/b/@id)[2]', '(//a | //c)/..', '(//b)/..', '((//b)/..)[1]', '(//b)/../b',
        '((//b)/../b)[3]', '(//a)/b | (//a)/c', '(//a)/child::b', '(//a)/self::a/b', '(//a)/descendant::b', '((//a)/descendant::b)[2]', '(//*)/b', '((//*)/b)[3]', '(//a)[1]/b', '(//a)[2]/b', '(//a)[last()]/b',
        'count((//a)/b)', 'string(((//a)/b)[2]/@id)', 'string(((//a)/b)[3]/@id)', 'sum((//a)/b/@id)', '(//a/b)[2]', '//a/b[2]', '//a/b', '//a//b', '(//a//b)[3]', '(/r/a | /r/a/a)/b', '((/r/a | /r/a/a)/b)[2]', '(/r/a/a | /r/a)/b',
        '(//b)/preceding-sibling::*', '((//b)/preceding-sibling::*)[1]', '(//b)/following-sibling::*', '(//c)/ancestor::a/b', '((//c)/ancestor::a/b)[1]', '(//c)/ancestor::*', '((//c)/ancestor::*)[1]', '(//b | //c)/parent::a/b'],
    3: ['//a[1]', '//a[2]', '//a[last()]', '(//a)[1]', '(//a)[2]', '(//a)[last()]', '(//a)[last()-1]', '//s/a[2]', '//s[2]/a', '//s[a][2]', '//s[2][a]', '//s[last()]', '//s[not(*)]', '//a[a]', '//a/a', '//a//a', '//s//a[1]', '//s/descendant::a[1]',
        '//s/descendant::a[last()]', '//a[@i=3]/ancestor::*', '//a[@i=3]/ancestor::*[1]', '//a[@i=3]/ancestor::*[2]', '//a[@i=3]/ancestor::*[last()]', '//a[@i=3]/ancestor-or-self::a', '//a[@i=3]/ancestor-or-self::a[1]', '//a[@i=3]/ancestor-or-self::a[2]',
        '//a[@i=6]/preceding::a', '//a[@i=6]/preceding::a[1]', '//a[@i=6]/preceding::a[2]', '//a[@i=6]/preceding::a[last()]', '(//a[@i=6]/preceding::a)[1]', '(//a[@i=6]/preceding::a)[last()]', '//a[@i=4]/preceding-sibling::*', '//a[@i=4]/preceding-sibling::*[1]',
        '//a[@i=4]/preceding-sibling::*[2]', '//a[@i=4]/preceding-sibling::a[last()]', '(//a[@i=4]/preceding-sibling::*)[1]', '//a[@i=1]/following-sibling::*', '//a[@i=1]/following-sibling::*[1]', '//a[@i=1]/following-sibling::a[2]', '//a[@i=1]/following::a',
        '//a[@i=1]/following::a[1]', '//a[@i=1]/following::*[last()]', '//a[@i=2]/following::*', '//a[@i=3]/following::*[1]', '//a[@i=3]/preceding::*', '//a[@i=5]/preceding::*[1]', '//a[@i=5]/preceding::*[3]', '//b/preceding::a[1]', '//b/following::a[1]',
        '//a[preceding::b]', '//a[following::b]', '//a[ancestor::b]', '//a[not(ancestor::a) and not(preceding-sibling::a)]', '//a[@i > 2][@i < 6]', '//a[@i > 2][2]', '//a[2][@i > 2]', '//a[@i mod 2 = 0]', '//a[position() = @i]', '//s/a[position() = @i]',
        '//a[@i = position()]', '//a[count(ancestor::*) = 3]', '//a[count(preceding::a) = 2]', '//a[count(following::a) = 0]', '//*[count(a) = 2]', '//*[count(a) > 1]/a[2]', 'sum(//@i)', 'sum(//a[a]/@i)', 'sum(//s[2]//@i)', 'count(//s[1]//a)',
        'count(//a/ancestor::*)', 'count(//a/ancestor-or-self::*)', 'count(//a/preceding::*)', 'count(//a/following::*)', 'count(//a/descendant-or-self::*)', 'count(//*/..)', 'count(//s/*[1])', 'count(//s/*[last()])', 'string(//a[@i=3]/../@i)',
        '//a[@i=3]/../../a[3]/@i', '//@i[. = 3]/../..', '//@i[../a]', 'name(//@i[. = 6]/../..)', '//s[1]/a | //s[2]//a', '(//s[1]/a | //s[2]//a)[4]', '(//s[2]//a | //s[1]/a)[1]', '//a[@i=1] | //a[@i=1]', '//a[@i=5]/following::*/preceding::a[1]',
        '//s[2]/preceding-sibling::s/a[last()]', '//s[3]/preceding-sibling::*[1]/*[1]', '//s[3]/preceding::*[1]', '//s[3]/preceding::*[2]', '//s[1]/following::*[1]', '//s[1]/following-sibling::*[last()]', '/r/s[1]/a[2]/a/ancestor::s/a[1]'],
}


def function_exprs():
    out = []
    one = {'string': MIXED, 'number': MIXED + STRS[8:], 'boolean': MIXED, 'not': MIXED, 'string-length': STRS + NUMS[:6] + SETS[:3], 'normalize-space': STRS + SETS[:3],
           'floor': NUMS + STRS[:5], 'ceiling': NUMS + STRS[:5], 'round': NUMS + STRS[:5], 'count': SETS, 'sum': SETS, 'name': SETS, 'local-name': SETS, 'namespace-uri': SETS}
    for f, args in one.items():
        for a in args:
            out.append(f'{f}({a})')
            if f in ('number', 'floor', 'ceiling', 'round'):
                out.append(f'string({f}({a}))')
    for f in ('concat', 'starts-with', 'contains', 'substring-before', 'substring-after'):
        pool = STRS[:8] + NUMS[:4] + BOOLS[:1] + SETS[:2]
        for a, b in itertools.product(pool, repeat=2):
            out.append(f'{f}({a}, {b})')
    subnums = ['0', '1', '2', '3', '-1', '1.5', '2.5', '0.5', '-0.5', '100', '(0 div 0)', '(1 div 0)', '(-1 div 0)', "'2'", 'true()']
    for s in ["'12345'", "'abc'", "''", "'\u00e9\u20acx'", '/r/d']:
        for x in subnums:
            out.append(f'substring({s}, {x})')
            for y in subnums:
                out.append(f'substring({s}, {x}, {y})')
    for s1 in ["'abcabc'", "''", "'--aaa--'", "'\u00e9a\u20ac'"]:
        for s2 in ["''", "'a'", "'ab'", "'abc'", "'aba'", "'\u20aca'", "'-'"]:
            for s3 in ["''", "'A'", "'AB'", "'ABCD'", "'\u00e9'"]:
                out.append(f'translate({s1}, {s2}, {s3})')
    out += ['true()', 'false()', 'last()', 'position()', 'string()', 'number()', 'name()', 'local-name()', 'namespace-uri()', 'string-length()', 'normalize-space()', "lang('en')", 'concat("a", "b", "c")', 'concat(1, true(), //a)']
    return out


def operator_exprs():
    out = []
    pool = ["''", "'abc'", "'12'", "' 1 '", "'NaN'", '0', '1', '-1', '1.5', '12', '(1 div 0)', '(-1 div 0)', '(0 div 0)', 'true()', 'false()', '/r/a', '//nosuch', '//@x', '//text()', '/r/b', '/r/d', '3', "'3'", "'b'"]
    for op in ['=', '!=', '<', '<=', '>', '>=', '+', '-', '*', 'div', 'mod', 'and', 'or']:
        for a, b in itertools.product(pool, repeat=2):
            out.append(f'{a} {op} {b}')
            if op in ('+', '-', '*', 'div', 'mod'):
                out.append(f'string({a} {op} {b})')
    for a in pool:
        out.append(f'-{a}')
        out.append(f'string(-{a})')
    sets = ['/r/a', '//nosuch', '//@x', '//text()', '/r/b', '//a', '//b | //c', '/']
    for a, b in itertools.product(sets, repeat=2):
        out.append(f'{a} | {b}')
        out.append(f'count({a} | {b})')
    return out


def esc(s):
    return s.replace('\\', '\\\\').replace('\n', '\\n').replace('\r', '\\r').replace('\t', '\\t')


def run_java(docs_file, exprs_file, out_file):
    cls = os.path.join(SCRATCH, 'cls')
    os.makedirs(cls, exist_ok=True)
    subprocess.run(['javac', '-d', cls, os.path.join(ROOT, 'tools', 'xpath_oracle', 'Oracle.java')], check=True)
    subprocess.run(['java', '-cp', cls, 'Oracle', docs_file, exprs_file, out_file], check=True)


def run_libxml2(doc_text, exprs):
    """-> canonical result per expression (the format of Oracle.java) from libxml2 through ctypes, or 'E'"""
    import ctypes as C
    import struct
    lib = C.CDLL(LIBXML2)
    lib.xmlReadMemory.restype = C.c_void_p
    lib.xmlReadMemory.argtypes = [C.c_char_p, C.c_int, C.c_char_p, C.c_char_p, C.c_int]
    lib.xmlXPathNewContext.restype = C.c_void_p
    lib.xmlXPathNewContext.argtypes = [C.c_void_p]
    lib.xmlXPathRegisterNs.argtypes = [C.c_void_p, C.c_char_p, C.c_char_p]
    lib.xmlXPathEvalExpression.restype = C.c_void_p
    lib.xmlXPathEvalExpression.argtypes = [C.c_char_p, C.c_void_p]
    lib.xmlXPathFreeObject.argtypes = [C.c_void_p]
    lib.xmlSetGenericErrorFunc.argtypes = [C.c_void_p, C.c_void_p]
    HANDLER = C.CFUNCTYPE(None, C.c_void_p, C.c_char_p)
    quiet = HANDLER(lambda ctx, msg: None)
    lib.xmlSetGenericErrorFunc(None, C.cast(quiet, C.c_void_p))

    class Node(C.Structure):
        pass
    Node._fields_ = [('_private', C.c_void_p), ('type', C.c_int), ('name', C.c_char_p), ('children', C.POINTER(Node)), ('last', C.POINTER(Node)), ('parent', C.POINTER(Node)),
                     ('next', C.POINTER(Node)), ('prev', C.POINTER(Node)), ('doc', C.c_void_p), ('ns', C.c_void_p), ('content', C.c_char_p), ('properties', C.POINTER(Node))]

    class NodeSet(C.Structure):
        _fields_ = [('nodeNr', C.c_int), ('nodeMax', C.c_int), ('nodeTab', C.POINTER(C.POINTER(Node)))]

    class XObj(C.Structure):
        _fields_ = [('type', C.c_int), ('nodesetval', C.POINTER(NodeSet)), ('boolval', C.c_int), ('floatval', C.c_double), ('stringval', C.c_char_p)]

    class Ns(C.Structure):
        _fields_ = [('next', C.c_void_p), ('type', C.c_int), ('href', C.c_char_p), ('prefix', C.c_char_p)]

    raw = doc_text.encode('utf-8')
    doc = lib.xmlReadMemory(raw, len(raw), b'd.xml', None, 2 | 8 | 16384 | 32 | 64)     # NOENT | DTDATTR (defaulted attributes) | NOCDATA | NOERROR | NOWARNING
    assert doc
    ctx = lib.xmlXPathNewContext(doc)
    lib.xmlXPathRegisterNs(ctx, b'p', b'urn:p')
    lib.xmlXPathRegisterNs(ctx, b'q', b'urn:q')
    index = {doc: 0}
    nxt = [1]

    def addr(ptr):
        return C.cast(ptr, C.c_void_p).value

    def walk(parent_ptr):
        c = parent_ptr.contents.children
        in_text = False
        while c:
            t = c.contents.type
            if t in (3, 4):
                if not in_text:
                    nxt[0] += 1
                index[addr(c)] = nxt[0] - 1
                in_text = True
            else:
                in_text = False
                if t in (1, 7, 8):
                    index[addr(c)] = nxt[0]
                    nxt[0] += 1
                    if t == 1:
                        walk(c)
            c = c.contents.next
    walk(C.cast(doc, C.POINTER(Node)))

    def ev(e):
        o = lib.xmlXPathEvalExpression(e.encode('utf-8'), ctx)
        return C.cast(o, C.POINTER(XObj)) if o else None

    out = []
    for e in exprs:
        o = ev(e)
        if o is None:
            out.append('E')
            continue
        x = o.contents
        if x.type == 2:
            res = 'B:' + ('true' if x.boolval else 'false')
        elif x.type == 3:
            so = ev(f'string({e})')
            sv = so.contents.stringval.decode('utf-8') if so is not None and so.contents.type == 4 else '?'
            d = x.floatval
            if d != d:
                bits = 'nan'
            else:
                if d == 0.0:
                    d = 0.0
                bits = '%x' % struct.unpack('>Q', struct.pack('>d', d))[0]
            res = f'N:{sv}|{bits}'
            if so is not None:
                lib.xmlXPathFreeObject(so)
        elif x.type == 4:
            res = 'S:' + esc((x.stringval or b'').decode('utf-8'))
        elif x.type == 1:
            keys, bad = set(), False
            if x.nodesetval:
                ns = x.nodesetval.contents
                for i in range(ns.nodeNr):
                    n = ns.nodeTab[i]
                    t = n.contents.type
                    if t == 2:
                        owner = index.get(addr(n.contents.parent))
                        if owner is None:
                            bad = True
                            break
                        uri = C.cast(n.contents.ns, C.POINTER(Ns)).contents.href.decode('utf-8') if n.contents.ns else ''
                        keys.add('%05d@{%s}%s' % (owner, uri, n.contents.name.decode('utf-8')))
                    elif t == 9:
                        keys.add('%05d' % 0)
                    elif addr(n) in index and t != 18:
                        keys.add('%05d' % index[addr(n)])
                    else:
                        bad = True
                        break
            res = 'E' if bad else 'NS:' + ','.join(sorted(keys))
        else:
            res = 'E'
        lib.xmlXPathFreeObject(o)
        out.append(res)
    return out


NESTED_OF = {}


def chain_exprs(di):
    """Predicate chains: every later predicate sees the positions and the size of what the earlier ones left (XPath 1.0 2.4 / 3.3),
    on filter expressions and on steps."""
    prim = {0: ['(//a)', '(//*)', '(//a | //b)', '(/r/*)', '(//text())', '(//node())', '(//@x/..)'],
            3: ['(//a)', '(//*)', '(//s | //a)', '(/*/*)', '(//node())'],
            6: ['(//a)', '(//*)', '(//a | //c)', '(//a//*)', '(/*/*)']}.get(di, [])
    steps = {0: ['//a', '/r/*', '//*', '//b/ancestor::*', '//a/following-sibling::*', '//c/preceding-sibling::node()', '/r/descendant::node()'],
             3: ['//a', '/*/*', '//*', '//a/preceding::*'],
             6: ['//a', '//*', '//a/descendant::*', '//c/ancestor-or-self::*']}.get(di, [])
    p1 = ['[@x]', '[not(@x)]', '[position()>1]', '[position() mod 2 = 1]', '[a]', '[not(a)]', '[text()]', '[true()]', '[position()<last()]', '[self::a]', '[2]']
    p2 = ['[last()]', '[1]', '[2]', '[position()=last()]', '[last()-1]', '[position()<last()]', '[last() > 1]', '[last() = 1]', '[position()=1 or position()=last()]']
    out = []
    for b in prim + steps:
        for a in p1:
            for c in p2:
                out.append(f'{b}{a}{c}')
                out.append(f'count({b}{a}{c})')
                if b in prim:
                    # the same selection with the first predicate closed off in a primary of its own: by 3.3 `(E)[P1][P2]` filters
                    # successively, so the two are the same node-set (see NESTED_OF in main)
                    out.append(f'({b}{a}){c}')
                    NESTED_OF[f'{b}{a}{c}'] = f'({b}{a}){c}'
            out.append(f'{b}{a}[position()>1][last()]')
            out.append(f'{b}[position()>1]{a}[last()]')
            out.append(f'count({b}{a}[true()][last()])')
            out.append(f'string(count({b}{a})) = string(count({b}{a}[true()]))')
    return out


def main():
    os.makedirs(SCRATCH, exist_ok=True)
    cases = []
    for di in range(len(DOCS)):
        ex = exprs_for(di) + CURATED[di] + chain_exprs(di)
        if di == 0:
            ex += function_exprs() + operator_exprs()
        seen = set()
        for e in ex:
            if e not in seen and len(e) < 380 and '\n' not in e:
                seen.add(e)
                cases.append((di, e))
    docs_file = os.path.join(SCRATCH, 'docs.txt')
    exprs_file = os.path.join(SCRATCH, 'exprs.txt')
    java_out = os.path.join(SCRATCH, 'java.txt')
    with open(docs_file, 'w', encoding='utf-8') as f:
        for d in DOCS:
            f.write(esc(d) + '\n')
    with open(exprs_file, 'w', encoding='utf-8') as f:
        for di, e in cases:
            f.write(f'{di}\t{esc(e)}\n')
    run_java(docs_file, exprs_file, java_out)
    java = [l.rstrip('\n').split('\t') for l in open(java_out, encoding='utf-8')]
    assert len(java) == len(cases)
    index_of = {c: i for i, c in enumerate(cases)}
    lib_by_case = {}
    kept, dropped = [], {'java error': 0, 'libxml2 error': 0, 'disagree': 0, 'string of negative zero': 0}
    samples = []
    for di in range(len(DOCS)):
        idx = [i for i, c in enumerate(cases) if c[0] == di]
        lib = run_libxml2(DOCS[di], [cases[i][1] for i in idx])
        lib_by_case.update(dict(zip(idx, lib)))
        for i, lres in zip(idx, lib):
            _, _, res, jstr, negzero = java[i]
            if res == 'E' or jstr == 'E':
                dropped['java error'] += 1
                continue
            if lres == 'E':
                dropped['libxml2 error'] += 1
                continue
            if lres != res and cases[i][1] in NESTED_OF:
                # javax.xml.xpath evaluates last() in a LATER predicate of a filter expression against the size of the unfiltered
                # set (`(//*)[@x][last()]` is empty there).  XPath 1.0 3.3 defines the chain as successive filtering, i.e. as the
                # nested form; when both oracles agree on the nested form and libxml2 gives the chain that very value, it is kept.
                j = index_of.get((di, NESTED_OF[cases[i][1]]))
                if j is not None and java[j][2] == lres and lib_by_case.get(j) == lres and java[j][2] != 'E':
                    kept.append((di, cases[i][1], lres))
                    dropped['kept by the nested form'] = dropped.get('kept by the nested form', 0) + 1
                    continue
            if lres != res:
                dropped['disagree'] += 1
                if len(samples) < int(os.environ.get("XPATH_CORPUS_SAMPLES", "40")):
                    samples.append((di, cases[i][1], res, lres))
                continue
            kept.append((di, cases[i][1], res))
    # string(E) of an E that is negative zero: the recorded open finding of C09 (xml-rs prints "-0"); kept out of this corpus
    nz = set()
    for i, c in enumerate(cases):
        if java[i][4] == 'NEGZERO':
            nz.add((c[0], c[1]))
    kept2 = []
    for di, e, res in kept:
        m = re.match(r'^string\((.*)\)$', e)
        if m and (di, m.group(1)) in nz:
            dropped['string of negative zero'] += 1
            continue
        kept2.append((di, e, res))
    kept = kept2
    with open(os.path.join(SCRATCH, 'oracle_disagreements.txt'), 'w', encoding='utf-8') as f:
        for smp in samples:
            f.write('\t'.join(str(x) for x in smp) + '\n')
    os.makedirs(os.path.dirname(OUT), exist_ok=True)
    with open(OUT, 'w', encoding='utf-8') as f:
        for di, e, res in kept:
            f.write(f'{di}\t{esc(e)}\t{res}\n')
    with open(DOCS_OUT, 'w', encoding='utf-8') as f:
        for d in DOCS:
            f.write(esc(d) + '\n')
    print(f'{len(kept)} of {len(cases)} expressions kept (both oracles agree); dropped: {dropped} -> {OUT}')


if __name__ == '__main__':
    main()
