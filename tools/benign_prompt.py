#!/usr/bin/env python3
"""Prints the prompt given to a fresh sub-agent that makes a BEHAVIOUR-PRESERVING change (the counterpart of seed_prompt.py: the checks
must NOT alarm on it).  ONLY the text of one property, a hint where to work, and its scratch worktree.
usage: benign_prompt.py <Cxx> <worktree> <where>"""
import json, sys, os
ROOT = os.path.dirname(os.path.dirname(os.path.abspath(__file__)))
pid, wt, where = sys.argv[1], sys.argv[2], sys.argv[3]
p = next(json.loads(l) for l in open(os.path.join(ROOT, 'properties.jsonl')) if json.loads(l)['id'] == pid)
print(f"""You are helping test a verification effort by playing the role of a careful developer doing routine maintenance.

Your own scratch git worktree of the Rust workspace 9506hqwy/xml-rs (XML 1.0 parser on nom, XML Infoset tree, DOM Level 1 API, XPath 1.0 evaluator, xq/xe example CLIs) is at {wt} . Work ONLY inside {wt} (never touch /repo or /verif, never read /verif, never commit, never push). There is no network: always pass --offline to cargo. Build into the worktree's own target directory; run cargo with at most 4 jobs (`-j 4`).

Here is a semantic property of the library that holds today and MUST STILL HOLD after your change:

  {p['id']}: {p['title']}
  {p['statement']}

Task: make ONE realistic maintenance change of 10-60 changed lines to the library source (not tests, not Cargo files) in the code this property depends on - {where} - that PRESERVES the observable behaviour for every input: for example restructure a loop or a match, extract or inline a helper function, rename locals and private helpers, replace an iterator chain by an explicit loop (or the reverse), reorder independent statements, hoist an invariant computation, change an early return into if/else, replace a hand-written scan by an equivalent std method, tidy error construction. It must be the kind of diff a maintainer merges without a second look, and it must NOT change any result, error class, panic behaviour or (asymptotic) cost for any input. Do not touch public signatures.

Requirements: the workspace compiles; the whole suite passes (`cd {wt} && cargo test --workspace --offline -j 4`, 603 tests); additionally write a small differential test at {wt}/_seed/demo.rs (public API only; say which crate's tests/ directory it goes in) that exercises the changed code on at least 30 varied inputs including edge cases and asserts exact expected results that you obtained from the UNMODIFIED code (run it on both: it must pass on both).

Deliverables in {wt}/_seed/ : patch.diff (`git diff` of the source change only), demo.rs, README.md (5-10 lines: what was changed, why behaviour is preserved, commands run and outcomes). Leave the worktree with the change APPLIED (uncommitted) and no demo copied into a tests/ directory. Final answer: a 4-line summary.""")
