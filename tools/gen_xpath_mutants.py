#!/usr/bin/env python3
"""Generate the expression mutants of the C06 grid (replay op xpath.mutants): token-level mutants (delete, duplicate, swap
neighbours, replace by / insert a pool token) of the curated expressions of tools/gen_xpath_corpus.py.  No oracle: whatever the
string is, parsing and evaluating it must end in a value or an error -- no panic.  Written to replay/data/xpath_mutants.txt."""
import os
import re
import sys
sys.path.insert(0, os.path.dirname(os.path.abspath(__file__)))
import gen_xpath_corpus as G

OUT = os.path.join(G.ROOT, 'replay', 'data', 'xpath_mutants.txt')
TOKEN = re.compile(r"""'[^']*'|"[^"]*"|::|//|\.\.|!=|<=|>=|[()\[\]@/|,.*=<>+\-$:]|\d+\.?\d*|[A-Za-z_][\w-]*|\s+|.""")
POOL = ['(', ')', '[', ']', '/', '//', '::', '@', '*', '|', ',', '.', '..', '=', '!=', '<', '-', '+', 'div', 'mod', 'and', 'or', '$', ':', "'", '"', '1', '0', '1.5', '-1', "''", 'a', 'p:a', 'p:*', 'node()', 'text()',
        'last()', 'position()', 'count(', 'child::', 'ancestor::', 'attribute::', 'namespace::', 'self::', 'zzz::', 'zzz(', '1e3', '99999999999999999999', '[0]', '[-1]', '()', 'é', ' ', '\t']


def mutants(e):
    toks = TOKEN.findall(e)
    n = len(toks)
    for i in range(n):
        yield ''.join(toks[:i] + toks[i + 1:])
        yield ''.join(toks[:i] + [toks[i], toks[i]] + toks[i + 1:])
        if i + 1 < n:
            yield ''.join(toks[:i] + [toks[i + 1], toks[i]] + toks[i + 2:])
    for i in range(0, n + 1, 2):
        for p in POOL:
            yield ''.join(toks[:i] + [p] + toks[i:])
    for i in range(0, n, 3):
        for p in POOL[::3]:
            yield ''.join(toks[:i] + [p] + toks[i + 1:])


# code points that Rust's char::is_numeric / is_alphabetic / is_alphanumeric / is_whitespace / to_lowercase treat like their ASCII
# cousins (a lexer written with them accepts what the XPath grammar does not), plus invisible and boundary ones
UNI = ['\u00b2', '\u0663', '\u00bd', '\uff11', '\u2460', '\u2167', '\u00a0', '\u2003', '\u2028', '\u3000', '\u0085', '\u01c5', '\u00aa', '\u0301', '\ufeff', '\u200b',
       '\U0001d7d9', '\U0001d4b3', '\u00df', '\u0130', '\u00ad', '\u007f', '\uff0e', '\uff0f', '\uff08', '\u2215', '\u02d0']


def unicode_mutants(e):
    toks = TOKEN.findall(e)
    n = len(toks)
    for i in range(n + 1):
        for c in UNI:
            yield ''.join(toks[:i] + [c] + toks[i:])
    for i in range(n):
        if toks[i][0].isdigit():
            for c in UNI:
                yield ''.join(toks[:i] + [c] + toks[i + 1:])
                yield ''.join(toks[:i] + [toks[i][:1] + c + toks[i][1:]] + toks[i + 1:])


def main():
    seeds = []
    for di in sorted(G.CURATED):
        seeds += G.CURATED[di][::3]
    seeds += G.function_exprs()[::97] + G.operator_exprs()[::211]
    seen, out = set(), []
    for s in seeds:
        for m in mutants(s):
            if m not in seen and '\n' not in m and len(m) < 300:
                seen.add(m)
                out.append(m)
    useeds = ['1', '1.5', '.5', '2 + 3', '//a[1]', '//a[position() = 2]', 'count(//a) + 1', 'substring("abc", 2, 1)', "concat('a', 1)", '/r/a[2]/@x', '-1', '1 div 0', 'p:a', 'a and b',
              'child::a', '@x', '$v', 'a | b', 'lang("en")', 'translate("a1", "1", "2")', 'string-length()', '1 = 1', '(1)', '//*[. = 1]', 'a[1][2]', 'number("1")', 'round(1.5)']
    for u in useeds + seeds[::40]:
        for m in unicode_mutants(u):
            if m not in seen and '\n' not in m and len(m) < 300:
                seen.add(m)
                out.append(m)
    # deep nesting and long chains (the evaluator and the expression parser recurse)
    for k in (10, 50, 150):   # (deeper: the child-process grid xpath.deep)
        out += ['(' * k + '1' + ')' * k, '-' * k + '1', '/' + '/'.join(['a'] * k), 'a' + '[a' * k + ']' * k, '1' + '+1' * k, 'count(' * k + '/' + ')' * k, '//a' + '[1]' * k, 'a|' * k + 'a', 'not(' * k + 'true()' + ')' * k]
    # (steps that reach the same nodes again and again -- where a missing de-duplication makes evaluation exponential -- run in
    #  child processes with a time limit: grid xpath.deep)
    with open(OUT, 'w', encoding='utf-8') as f:
        for m in out:
            f.write(G.esc(m) + '\n')
    print(f'{len(out)} expression mutants of {len(seeds)} expressions -> {OUT}')


if __name__ == '__main__':
    main()
