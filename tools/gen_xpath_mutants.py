#!/usr/bin/env python3
"""Generate the expression mutants of the C06 grid (replay op xpath.mutants): token-level mutants (delete, duplicate, swap
neighbours, replace by / insert a pool token) of the curated expressions of tools/gen_xpath_corpus.py.  No oracle: whatever the
string is, parsing and evaluating it must end in a value or an error -- no panic.  Written to replay/data/xpath_mutants.txt."""
import os
import re
import sys
sys.path.insert(0, os.path.dirname(os.path.abspath(__file__)))
import gen_xpath_corpus as G

OUT = os.path.join(G.ROOT, 'replay', 'data', 'xpath_mutants.txt')
TOKEN = re.compile(r"""'[^']*'|"[^"]*"|::|//|\.\.|!=|<=|>=|[()\[\]@/|,.*=<>+\-$:]|\d+\.?\d*|[A-Za-z_][\w-]*|\s+|.""")
POOL = ['(', ')', '[', ']', '/', '//', '::', '@', '*', '|', ',', '.', '..', '=', '!=', '<', '-', '+', 'div', 'mod', 'and', 'or', '$', ':', "'", '"', '1', '0', '1.5', '-1', "''", 'a', 'p:a', 'p:*', 'node()', 'text()',
        'last()', 'position()', 'count(', 'child::', 'ancestor::', 'attribute::', 'namespace::', 'self::', 'zzz::', 'zzz(', '1e3', '99999999999999999999', '[0]', '[-1]', '()', 'é', ' ', '\t']


def mutants(e):
    toks = TOKEN.findall(e)
    n = len(toks)
    for i in range(n):
        yield ''.join(toks[:i] + toks[i + 1:])
        yield ''.join(toks[:i] + [toks[i], toks[i]] + toks[i + 1:])
        if i + 1 < n:
            yield ''.join(toks[:i] + [toks[i + 1], toks[i]] + toks[i + 2:])
    for i in range(0, n + 1, 2):
        for p in POOL:
            yield ''.join(toks[:i] + [p] + toks[i:])
    for i in range(0, n, 3):
        for p in POOL[::3]:
            yield ''.join(toks[:i] + [p] + toks[i + 1:])


def main():
    seeds = []
    for di in sorted(G.CURATED):
        seeds += G.CURATED[di][::3]
    seeds += G.function_exprs()[::97] + G.operator_exprs()[::211]
    seen, out = set(), []
    for s in seeds:
        for m in mutants(s):
            if m not in seen and '\n' not in m and len(m) < 300:
                seen.add(m)
                out.append(m)
    # deep nesting and long chains (the evaluator and the expression parser recurse)
    for k in (10, 50, 150):   # (deeper: the child-process grid xpath.deep)
        out += ['(' * k + '1' + ')' * k, '-' * k + '1', '/' + '/'.join(['a'] * k), 'a' + '[a' * k + ']' * k, '1' + '+1' * k, 'count(' * k + '/' + ')' * k, '//a' + '[1]' * k, 'a|' * k + 'a', 'not(' * k + 'true()' + ')' * k]
    # (steps that reach the same nodes again and again -- where a missing de-duplication makes evaluation exponential -- run in
    #  child processes with a time limit: grid xpath.deep)
    with open(OUT, 'w', encoding='utf-8') as f:
        for m in out:
            f.write(G.esc(m) + '\n')
    print(f'{len(out)} expression mutants of {len(seeds)} expressions -> {OUT}')


if __name__ == '__main__':
    main()
