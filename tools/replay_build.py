#!/usr/bin/env python3
"""Build the replay crate against a tree into a scratch directory and print the path of the executable (development aid).
usage: replay_build.py [repo] [scratch]"""
import os, sys
sys.path.insert(0, os.path.dirname(os.path.dirname(os.path.abspath(__file__))))
from vf import witness
repo = sys.argv[1] if len(sys.argv) > 1 else '/repo'
scratch = sys.argv[2] if len(sys.argv) > 2 else '/verif/.scratch/dev'
os.makedirs(scratch, exist_ok=True)
print(witness.build(repo, scratch))
