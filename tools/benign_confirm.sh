#!/bin/bash
# Confirm a BEHAVIOUR-PRESERVING change delivered by a sub-agent in its scratch worktree, then run our checks against it: the
# checks must not alarm (exit 0, or exit 2 = undecided; exit 1 is a false alarm to be investigated).
# usage: benign_confirm.sh <name> <property> <crate-dir-for-demo> "<checks to run>"
set -u
NAME=$1; PID=$2; CRATE=$3; CHECKS=$4
WT=/tmp/seed/$NAME
OUT=/verif/benign/$NAME
mkdir -p "$OUT"
cd "$WT" || exit 2
cp _seed/patch.diff "$OUT/patch.diff"; cp _seed/demo.rs "$OUT/demo.rs"; cp _seed/README.md "$OUT/agent_README.md" 2>/dev/null
export CARGO_NET_OFFLINE=true
git checkout -q -- . ; git apply _seed/patch.diff || { echo "patch does not apply"; exit 2; }
suite=$(cargo test --workspace --offline -j 8 2>&1 | grep -E "^test result" | awk '{p+=$4; f+=$6} END {print p" passed "f" failed"}')
mkdir -p $CRATE/tests; cp _seed/demo.rs $CRATE/tests/seed_demo.rs
pkg=$(grep -m1 '^name' $CRATE/Cargo.toml | sed 's/.*"\(.*\)"/\1/')
cargo test -p $pkg --test seed_demo --offline -j 8 > /tmp/seed/$NAME.with.log 2>&1; with_rc=$?
git apply -R _seed/patch.diff
cargo test -p $pkg --test seed_demo --offline -j 8 > /tmp/seed/$NAME.without.log 2>&1; without_rc=$?
rm -rf $CRATE/tests/seed_demo.rs; rmdir $CRATE/tests 2>/dev/null
git apply _seed/patch.diff
cd /verif
verdicts=""
for c in $CHECKS; do
  VERIF_REPO=$WT ./check $c --tier quick > /tmp/seed/$NAME.check.$c.log 2>&1; rc=$?
  line=$(grep -E "^VIOLATION" /tmp/seed/$NAME.check.$c.log | head -1 | cut -c1-300)
  [ -z "$line" ] && line=$(grep -E "^UNDECIDED" /tmp/seed/$NAME.check.$c.log | head -1 | cut -c1-300)
  ob=$(grep -E "^  (obligation|bounded stand-in \(|replay grid \()" /tmp/seed/$NAME.check.$c.log | head -3 | cut -c1-400 | tr '\n' ';')
  verdicts="$verdicts{\"check\":\"$c\",\"exit\":$rc,\"line\":$(python3 -c 'import json,sys;print(json.dumps(sys.argv[1]))' "$line"),\"obligations\":$(python3 -c 'import json,sys;print(json.dumps(sys.argv[1]))' "$ob")},"
done
python3 - "$NAME" "$PID" "$CRATE" "$suite" "$with_rc" "$without_rc" "[${verdicts%,}]" <<'EOF'
import json, sys
name, pid, crate, suite, w, wo, verdicts = sys.argv[1:8]
checks = json.loads(verdicts)
meta = dict(name=name, property_that_must_still_hold=pid, demo_crate=crate,
            confirmed=dict(full_suite_with_change=suite, differential_demo_with_change_exit=int(w), differential_demo_without_change_exit=int(wo),
                           ok=(suite.endswith(' 0 failed') and int(w) == 0 and int(wo) == 0)),
            checks=checks, false_alarm=any(c['exit'] == 1 for c in checks))
json.dump(meta, open(f'/verif/benign/{name}/meta.json', 'w'), indent=1)
print(json.dumps(meta, indent=1))
EOF
