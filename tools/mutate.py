#!/usr/bin/env python3
"""Self-test of the Verus units by mutation: small syntactic changes inside the functions under contract, each applied to a
scratch copy of the sources; the unit(s) that extract the function are re-verified against the copy.
  killed    = an obligation failed (what a check would report as VIOLATION)
  undecided = lost anchor / unsupported construct (exit 2; the bounded stand-in would take over)
  survived  = every obligation still discharged -> equivalent mutant or a contract that is too weak (look at it)
Decides nothing about /repo; it tests the machinery.  usage: mutate.py <unit> [max-per-function]"""
import importlib
import json
import os
import re
import shutil
import sys

ROOT = os.path.dirname(os.path.dirname(os.path.abspath(__file__)))
sys.path.insert(0, ROOT)
os.chdir(ROOT)
os.environ.pop('RUSTUP_TOOLCHAIN', None)
from vf import rustscan, verus  # noqa: E402

OPS = [
    (r'(?<![<>=!-])<(?![<=])', '<='), (r'<=', '<'), (r'(?<![<>=!-])>(?![>=])', '>='), (r'>=', '>'),
    (r'==', '!='), (r'!=', '=='), (r'&&', '||'), (r'\|\|', '&&'),
    (r'\+ 1\b', '+ 2'), (r'- 1\b', '- 0'), (r'\+ 1\b', ''), (r'- 1\b', ''),
    (r'\bOk\(true\)', 'Ok(false)'), (r'\bOk\(false\)', 'Ok(true)'), (r'\bSome\(', 'Some(1 + '),
    (r'\.saturating_add\(', '.wrapping_add('), (r'\bmin\(', 'max('), (r'\.min\(', '.max('), (r'\.max\(', '.min('),
]


def mutants_of(text, start, end, limit):
    """Yield (line_no, description, mutated_text) for body lines start..end (1-based, inclusive)."""
    lines = text.split('\n')
    n = 0
    for ln in range(start, end):   # skip the signature line and the closing brace
        l = lines[ln]
        code = l.split('//')[0]
        if not code.strip() or code.strip().startswith(('fn ', 'pub fn ', '#[', '}', '{')):
            continue
        for (rx, rep) in OPS:
            for m in re.finditer(rx, code):
                new = code[:m.start()] + rep + code[m.end():]
                if new == code:
                    continue
                ml = list(lines)
                ml[ln] = new
                yield ln + 1, f'{m.group(0)!r} -> {rep!r}', '\n'.join(ml)
                n += 1
                if n >= limit:
                    return
        # statement deletion
        if code.strip().endswith(';') and not code.strip().startswith(('let ', 'return', 'use ')):
            ml = list(lines)
            ml[ln] = ''
            yield ln + 1, 'statement deleted', '\n'.join(ml)
            n += 1
            if n >= limit:
                return


def main():
    uname = sys.argv[1]
    limit = int(sys.argv[2]) if len(sys.argv) > 2 else 12
    unit = importlib.import_module('units.' + uname).UNIT
    scratch_repo = f'/tmp/mutrepo-{uname}'
    out = []
    files = sorted(set(fn.file for fn in unit['fns'].values()))
    for key, fn in unit['fns'].items():
        src = open(os.path.join('/repo', fn.file)).read()
        try:
            item = rustscan.find_fn(src, fn.file, fn.owner, fn.name)
        except Exception as e:
            print('skip', key, e)
            continue
        for (ln, desc, mutated) in mutants_of(src, item.start_line, item.end_line - 1, limit):
            shutil.rmtree(scratch_repo, ignore_errors=True)
            for f in files:
                os.makedirs(os.path.dirname(os.path.join(scratch_repo, f)), exist_ok=True)
                shutil.copy(os.path.join('/repo', f), os.path.join(scratch_repo, f))
            with open(os.path.join(scratch_repo, fn.file), 'w') as fh:
                fh.write(mutated)
            r = verus.verify_unit(unit, os.path.join(ROOT, '.scratch', f'mut-{uname}'), repo=scratch_repo, vacuity=False)
            verdict = {'failed': 'killed', 'undecided': 'undecided', 'ok': 'SURVIVED'}[r.status]
            failed = [o['id'] for o in r.obligations if o['status'] == 'failed'][:2]
            rec = dict(fn=fn.label, line=ln, mutation=desc, verdict=verdict, failed=failed, reason=r.reason[:120] if r.status == 'undecided' else '')
            out.append(rec)
            print(f'{verdict:9} {fn.label}:{ln} {desc} {failed or rec["reason"]}', flush=True)
    shutil.rmtree(scratch_repo, ignore_errors=True)
    shutil.rmtree(os.path.join(ROOT, '.scratch', f'mut-{uname}'), ignore_errors=True)
    os.makedirs(os.path.join(ROOT, 'out', 'mutation'), exist_ok=True)
    json.dump(out, open(os.path.join(ROOT, 'out', 'mutation', uname + '.json'), 'w'), indent=1)
    c = {}
    for r in out:
        c[r['verdict']] = c.get(r['verdict'], 0) + 1
    print('SUMMARY', uname, c)


if __name__ == '__main__':
    main()
