//! C12 / C13 over enumerated DOM edit sequences (bounded stand-in material; decides nothing by itself).
//!
//! One fixed document, a pool of live nodes (attached, detached, created, a fragment, an attribute, a foreign node), and the four
//! tree mutators of DOM Level 1 applied to every (receiver, argument, reference) choice from the pool.  The real calls are compared,
//! step by step, with a small REFERENCE MODEL of DOM Level 1 (child lists + parent links + the exception classes of the
//! recommendation).  Where the recommendation leaves the outcome open the model lists every acceptable outcome:
//!   * several error conditions hold at once -> any of their classes;
//!   * `insert_before(x, x)` / `replace_child(x, x)` -> no change, or refused;
//!   * a DocumentType node as the new child (DOM Level 1 has no way to create or move one) -> performed, or refused with
//!     HierarchyRequestErr.
//!   ops:  A:<parent>:<new>            append_child
//!         I:<parent>:<new>:<ref>      insert_before
//!         R:<parent>:<old>            remove_child
//!         P:<parent>:<new>:<old>      replace_child
//! `dom.seq_tree` (C12): after every step the real tree equals an acceptable model tree (child lists and parent links of every pool
//! node), the navigational views agree, no node is listed twice, the document has at most one element and one doctype child.
//! `dom.seq_atomic` (C13): no step panics; a refused step has one of the acceptable exception classes and leaves every child list,
//! parent link and the serialization unchanged; a performed step has exactly the effect of the model.
use crate::ops::Outcome;
use std::collections::BTreeMap;
use std::panic::{catch_unwind, AssertUnwindSafe};
use xml_dom::{Document, DocumentMut, Element, Node, NodeList, NodeMut};

pub const BASE_DOC: &str = "<!DOCTYPE r><!--k--><r x='v&#65;'><a><b/>t</a><c/></r><!--j-->";
/// D document, T doctype, K prolog comment, R root, J comment AFTER the root, A, B (in A), X text (in A), C, Y attribute x of R, V its text,
/// Q the character reference that follows V in Y, M a second created element, appended to N before anything else happens (a DETACHED
/// subtree: no node of it is numbered in the document),
/// N created element, S created text, W created comment, F created (empty) fragment, Z element of ANOTHER document,
/// L an element created by a LOOK-ALIKE document (a second parse of the same text: equal content, equal ids)
pub const POOL: [&str; 19] = ["D", "T", "K", "R", "A", "B", "X", "C", "Y", "V", "N", "S", "W", "F", "Z", "L", "J", "Q", "M"];
pub const PARENTS: [&str; 9] = ["D", "R", "A", "C", "N", "Y", "X", "K", "M"];
pub const REFS: [&str; 12] = ["T", "K", "R", "A", "B", "X", "C", "N", "V", "J", "Q", "M"];

#[derive(Clone, Copy, PartialEq, Debug)]
enum Kind {
    Doc,
    Doctype,
    Comment,
    Element,
    Text,
    CharRef,
    Attr,
    Fragment,
}

#[derive(Clone, PartialEq, Debug)]
struct Model {
    kids: BTreeMap<&'static str, Vec<&'static str>>,
    parent: BTreeMap<&'static str, Option<&'static str>>,
}

fn kind(n: &str) -> Kind {
    match n {
        "D" => Kind::Doc,
        "T" => Kind::Doctype,
        "K" | "W" | "J" => Kind::Comment,
        "Q" => Kind::CharRef,
        "X" | "S" | "V" => Kind::Text,
        "Y" => Kind::Attr,
        "F" => Kind::Fragment,
        _ => Kind::Element,
    }
}

fn allowed(parent: Kind, child: Kind) -> bool {
    match parent {
        Kind::Doc => matches!(child, Kind::Element | Kind::Comment | Kind::Doctype),
        Kind::Element => matches!(child, Kind::Element | Kind::Text | Kind::Comment | Kind::CharRef),
        Kind::Attr => matches!(child, Kind::Text | Kind::CharRef),
        _ => false,
    }
}

fn name(s: &str) -> &'static str {
    POOL.iter().copied().find(|p| *p == s).unwrap_or("?")
}

impl Model {
    fn base() -> Model {
        let mut kids = BTreeMap::new();
        let mut parent = BTreeMap::new();
        for p in POOL {
            kids.insert(p, vec![]);
            parent.insert(p, None);
        }
        for (p, cs) in [("D", vec!["T", "K", "R", "J"]), ("R", vec!["A", "C"]), ("A", vec!["B", "X"]), ("Y", vec!["V", "Q"]), ("N", vec!["M"])] {
            for c in &cs {
                parent.insert(*c, Some(p));
            }
            kids.insert(p, cs);
        }
        Model { kids, parent }
    }

    fn is_ancestor_or_self(&self, anc: &str, mut n: &'static str) -> bool {
        loop {
            if n == anc {
                return true;
            }
            match self.parent[n] {
                Some(p) => n = p,
                None => return false,
            }
        }
    }

    fn detach(&mut self, n: &'static str) {
        if let Some(p) = self.parent[n] {
            self.kids.get_mut(p).unwrap().retain(|k| *k != n);
        }
        self.parent.insert(n, None);
    }

    /// error classes that apply to putting `new` under `p` (in place of `old`, if given)
    fn place_errors(&self, p: &'static str, new: &'static str, old: Option<&'static str>) -> Vec<&'static str> {
        let mut errs = vec![];
        // "created from a different document than the one that created this node": a foreign node -- and the Document node
        // itself, which no document created (its ownerDocument is null): WRONG_DOCUMENT_ERR applies next to the hierarchy error
        if new == "Z" || new == "D" || new == "L" {
            errs.push("WrongDocumentErr");
        }
        let pk = kind(p);
        let nk = kind(new);
        let mut hier = false;
        if nk == Kind::Fragment {
            hier |= self.kids[new].iter().any(|k| !allowed(pk, kind(k)));
        } else {
            hier |= !allowed(pk, nk);
        }
        if self.is_ancestor_or_self(new, p) {
            hier = true;
        }
        if pk == Kind::Doc && nk == Kind::Element {
            let others = self.kids[p].iter().filter(|k| kind(k) == Kind::Element && **k != new && Some(**k) != old).count();
            if others > 0 {
                hier = true;
            }
        }
        if hier {
            errs.push("HierarchyRequestErr");
        }
        errs
    }

    /// acceptable outcomes of one operation: Err(classes) = refused with one of the classes, nothing changed; Ok(model) = performed
    fn step(&self, op: &[&'static str]) -> Vec<Result<Model, Vec<&'static str>>> {
        let mut out = vec![];
        match op {
            ["A", p, new] | ["I", p, new, _] => {
                let rf = if op[0] == "I" { Some(op[3]) } else { None };
                let mut errs = self.place_errors(p, new, None);
                if let Some(r) = rf {
                    if self.parent[r] != Some(*p) {
                        errs.push("NotFoundErr");
                    }
                }
                if !errs.is_empty() {
                    return vec![Err(errs)];
                }
                if rf == Some(*new) {
                    // insert_before(x, x): unspecified in DOM Level 1
                    return vec![Ok(self.clone()), Err(vec!["HierarchyRequestErr", "NotFoundErr"])];
                }
                let mut m = self.clone();
                if kind(new) != Kind::Fragment {
                    m.detach(new);
                    let list = m.kids.get_mut(p).unwrap();
                    let at = rf.map(|r| list.iter().position(|k| *k == r).unwrap()).unwrap_or(list.len());
                    list.insert(at, new);
                    m.parent.insert(new, Some(p));
                }
                out.push(Ok(m));
                if kind(new) == Kind::Doctype {
                    out.push(Err(vec!["HierarchyRequestErr"]));
                }
            }
            ["R", p, old] => {
                if self.parent[old] != Some(*p) {
                    // a receiver that cannot have children at all may also say so
                    let mut e = vec!["NotFoundErr"];
                    if !matches!(kind(p), Kind::Doc | Kind::Element | Kind::Attr) {
                        e.push("HierarchyRequestErr");
                    }
                    if *old == "Z" || *old == "D" || *old == "L" {
                        e.push("WrongDocumentErr");
                    }
                    return vec![Err(e)];
                }
                let mut m = self.clone();
                m.detach(old);
                out.push(Ok(m));
            }
            ["P", p, new, old] => {
                let mut errs = self.place_errors(p, new, Some(old));
                if self.parent[old] != Some(*p) {
                    errs.push("NotFoundErr");
                }
                if !errs.is_empty() {
                    return vec![Err(errs)];
                }
                if new == old {
                    return vec![Ok(self.clone()), Err(vec!["HierarchyRequestErr", "NotFoundErr"])];
                }
                let mut m = self.clone();
                if kind(new) != Kind::Fragment {
                    m.detach(new);
                    let list = m.kids.get_mut(p).unwrap();
                    let at = list.iter().position(|k| k == old).unwrap();
                    list[at] = new;
                    m.parent.insert(new, Some(p));
                    m.parent.insert(old, None);
                } else {
                    m.detach(old);
                }
                out.push(Ok(m));
                if kind(new) == Kind::Doctype {
                    out.push(Err(vec!["HierarchyRequestErr"]));
                }
            }
            _ => {}
        }
        out
    }

    fn show(&self) -> String {
        POOL.iter()
            .filter(|p| !self.kids[*p].is_empty() || self.parent[*p].is_some())
            .map(|p| format!("{}^{}[{}]", p, self.parent[p].unwrap_or("-"), self.kids[p].join("")))
            .collect::<Vec<_>>()
            .join(" ")
    }
}

struct Real {
    doc: xml_dom::XmlDocument,
    _other: xml_dom::XmlDocument,
    _alike: xml_dom::XmlDocument,
    nodes: BTreeMap<&'static str, xml_dom::XmlNode>,
}

impl Real {
    fn base() -> Real {
        let (_, doc) = xml_dom::XmlDocument::from_raw(BASE_DOC).unwrap();
        let (_, other) = xml_dom::XmlDocument::from_raw(&format!("<q>{}<z/></q>", "<q/>".repeat(60))).unwrap();
        let kids: Vec<xml_dom::XmlNode> = doc.child_nodes().iter().collect();
        let r = doc.document_element().unwrap();
        let a = r.child_nodes().item(0).unwrap();
        let y = Element::get_attribute_node(&r, "x").unwrap();
        let mut nodes = BTreeMap::new();
        nodes.insert("D", xml_dom::AsNode::as_node(&doc));
        nodes.insert("T", kids[0].clone());
        nodes.insert("K", kids[1].clone());
        nodes.insert("R", xml_dom::AsNode::as_node(&r));
        nodes.insert("A", a.clone());
        nodes.insert("B", a.child_nodes().item(0).unwrap());
        nodes.insert("X", a.child_nodes().item(1).unwrap());
        nodes.insert("C", r.child_nodes().item(1).unwrap());
        nodes.insert("V", y.child_nodes().item(0).unwrap());
        nodes.insert("Q", y.child_nodes().item(1).unwrap());
        nodes.insert("J", kids[3].clone());
        nodes.insert("Y", xml_dom::AsNode::as_node(&y));
        nodes.insert("N", xml_dom::AsNode::as_node(&doc.create_element("n").unwrap()));
        nodes.insert("M", xml_dom::AsNode::as_node(&doc.create_element("m").unwrap()));
        {
            let n = nodes["N"].clone();
            let m = nodes["M"].clone();
            if let xml_dom::XmlNode::Element(e) = &n {
                let _ = e.append_child(m);
            }
        }
        nodes.insert("S", xml_dom::AsNode::as_node(&doc.create_text_node("s")));
        nodes.insert("W", xml_dom::AsNode::as_node(&doc.create_comment("w")));
        nodes.insert("F", xml_dom::AsNode::as_node(&doc.create_document_fragment()));
        nodes.insert("Z", other.document_element().unwrap().child_nodes().item(60).unwrap());
        let (_, alike) = xml_dom::XmlDocument::from_raw(BASE_DOC).unwrap();
        nodes.insert("L", xml_dom::AsNode::as_node(&alike.create_element("n").unwrap()));
        Real { doc, _other: other, _alike: alike, nodes }
    }

    /// ids are unique per document only: the foreign document is padded so that the id of Z exceeds every id of the main one
    fn pool_name(&self, n: &xml_dom::XmlNode) -> &'static str {
        for (k, v) in &self.nodes {
            // (a fragment wraps a document of its own and answers that document's id, 1, like the main document: tell by kind)
            // (and the look-alike document hands out the same ids as the main one: tell by the owner document)
            if v.id() == n.id() && std::mem::discriminant(v) == std::mem::discriminant(n) && (v.owner_document() == n.owner_document() || matches!(n, xml_dom::XmlNode::Document(_))) {
                return k;
            }
        }
        "?"
    }

    /// child lists and parent links of every pool node, in the notation of Model::show
    fn show(&self) -> String {
        POOL.iter()
            .filter_map(|p| {
                let n = &self.nodes[p];
                let kids: Vec<&str> = n.child_nodes().iter().map(|c| self.pool_name(&c)).collect();
                // (Z sits in its own document: its parent there is not a pool node and reads as "none")
                let par = n.parent_node().map(|q| self.pool_name(&q)).filter(|q| !(*p == "Z" && *q == "?"));
                if kids.is_empty() && par.is_none() {
                    None
                } else {
                    Some(format!("{}^{}[{}]", p, par.unwrap_or("-"), kids.join("")))
                }
            })
            .collect::<Vec<_>>()
            .join(" ")
    }

    fn views(&self) -> Vec<String> {
        fn walk(n: &xml_dom::XmlNode, depth: usize, bad: &mut Vec<String>) {
            if depth > 12 {
                bad.push(format!("{} lies beneath itself (depth > 12)", n.node_name()));
                return;
            }
            let kids: Vec<xml_dom::XmlNode> = n.child_nodes().iter().collect();
            for (i, c) in kids.iter().enumerate() {
                match c.parent_node() {
                    Some(p) if p.id() == n.id() => {}
                    other => bad.push(format!("{} lists {} whose parent_node is {:?}", n.node_name(), c.node_name(), other.map(|v| v.node_name()))),
                }
                if c.previous_sibling().map(|v| v.id()) != (if i > 0 { Some(kids[i - 1].id()) } else { None }) {
                    bad.push(format!("previous_sibling of child {} of {} disagrees with the child list", i, n.node_name()));
                }
                if c.next_sibling().map(|v| v.id()) != kids.get(i + 1).map(|v| v.id()) {
                    bad.push(format!("next_sibling of child {} of {} disagrees with the child list", i, n.node_name()));
                }
                if kids.iter().filter(|k| k.id() == c.id()).count() != 1 {
                    bad.push(format!("{} occurs more than once under {}", c.node_name(), n.node_name()));
                }
                walk(c, depth + 1, bad);
            }
            if n.first_child().map(|v| v.id()) != kids.first().map(|v| v.id()) || n.last_child().map(|v| v.id()) != kids.last().map(|v| v.id()) {
                bad.push(format!("first_child / last_child of {} disagree with the child list", n.node_name()));
            }
        }
        let mut bad = vec![];
        for p in POOL {
            let n = &self.nodes[p];
            if n.parent_node().is_none() {
                walk(n, 0, &mut bad);
            }
        }
        for p in POOL {
            let n = &self.nodes[p];
            if p == "Z" {
                continue;
            }
            if let Some(q) = n.parent_node() {
                if !q.child_nodes().iter().any(|k| k.id() == n.id()) {
                    bad.push(format!("{} names {} as parent_node but is not among its child_nodes", n.node_name(), q.node_name()));
                }
            }
        }
        let dk: Vec<xml_dom::XmlNode> = self.doc.child_nodes().iter().collect();
        if dk.iter().filter(|k| k.node_type() == xml_dom::NodeType::Element).count() > 1 {
            bad.push("the document has more than one element child".to_string());
        }
        if dk.iter().filter(|k| k.node_type() == xml_dom::NodeType::DocumentType).count() > 1 {
            bad.push("the document has more than one document type child".to_string());
        }
        bad
    }

    /// C14: the order keys of the nodes attached to the document are non-zero, pairwise distinct and strictly increasing along
    /// a pre-order walk in which an element precedes its attributes and its attributes precede its children
    fn order_keys(&self) -> Vec<String> {
        fn walk(n: &xml_dom::XmlNode, last: &mut usize, seen: &mut std::collections::BTreeSet<usize>, bad: &mut Vec<String>) {
            let k = n.order();
            if k == 0 {
                bad.push(format!("{} has the key 0", n.node_name()));
            } else {
                if !seen.insert(k) {
                    bad.push(format!("{} shares the key {}", n.node_name(), k));
                }
                if k <= *last {
                    bad.push(format!("{}={} comes after the key {}", n.node_name(), k, *last));
                }
                *last = k;
            }
            if let Some(attrs) = n.attributes() {
                // attributes among themselves are unordered: each lies after the element (and whatever came before) and
                // before the first child; the walk continues from the greatest of them
                let base = *last;
                let mut top = base;
                for a in attrs.iter() {
                    let ak = xml_dom::AsNode::as_node(&a).order();
                    if !xml_dom::Attr::specified(&a) {
                        continue; // a defaulted attribute is not numbered (recorded finding of C05 / C11)
                    }
                    if ak == 0 {
                        bad.push(format!("@{} has the key 0", a.node_name()));
                    } else {
                        if !seen.insert(ak) {
                            bad.push(format!("@{} shares the key {}", a.node_name(), ak));
                        }
                        if ak <= base {
                            bad.push(format!("@{}={} is not after its element / the preceding node ({})", a.node_name(), ak, base));
                        }
                        top = top.max(ak);
                    }
                }
                *last = top;
            }
            for c in n.child_nodes().iter() {
                walk(&c, last, seen, bad);
            }
        }
        let mut bad = vec![];
        let mut last = 0;
        let mut seen = std::collections::BTreeSet::new();
        // the document node itself carries the first key
        walk(&self.nodes["D"], &mut last, &mut seen, &mut bad);
        bad
    }

    fn call(&self, op: &[&'static str]) -> Option<Result<xml_dom::XmlNode, String>> {
        fn with<R>(p: &xml_dom::XmlNode, f: impl FnOnce(&dyn NodeMut) -> R) -> Option<R> {
            match p {
                xml_dom::XmlNode::Element(v) => Some(f(v)),
                xml_dom::XmlNode::Document(v) => Some(f(v)),
                xml_dom::XmlNode::Attribute(v) => Some(f(v)),
                xml_dom::XmlNode::Text(v) => Some(f(v)),
                xml_dom::XmlNode::Comment(v) => Some(f(v)),
                _ => None,
            }
        }
        let cls = |e: xml_dom::error::Error| match e {
            xml_dom::error::Error::Dom(d) => format!("{:?}", d),
            o => format!("{:?}", o),
        };
        let p = &self.nodes[op[1]];
        let r = match op {
            ["A", _, new] => with(p, |m| m.append_child(self.nodes[new].clone())),
            ["I", _, new, rf] => with(p, |m| m.insert_before(self.nodes[new].clone(), Some(&self.nodes[rf]))),
            ["R", _, old] => with(p, |m| m.remove_child(&self.nodes[old])),
            ["P", _, new, old] => with(p, |m| m.replace_child(self.nodes[new].clone(), &self.nodes[old])),
            _ => None,
        };
        r.map(|v| v.map_err(cls))
    }
}

fn split_ops(ops: &str) -> Vec<Vec<&'static str>> {
    let mut out = vec![];
    for o in ops.split(';').filter(|s| !s.is_empty()) {
        let toks: Vec<&str> = o.split(':').collect();
        let mut v: Vec<&'static str> = vec![["A", "I", "R", "P"].iter().copied().find(|x| *x == toks[0]).unwrap_or("?")];
        for t in &toks[1..] {
            v.push(name(t));
        }
        out.push(v);
    }
    out
}

/// what == "tree" (C12) or "atomic" (C13)
pub fn dom_seq(ops: &str, what: &str) -> Outcome {
    let steps = split_ops(ops);
    let mut expected = String::from("ok");
    let observed = match catch_unwind(AssertUnwindSafe(|| {
        let real = Real::base();
        let mut model = Model::base();
        let mut ids: Vec<(usize, bool)> = real.nodes.iter().filter(|(k, _)| **k != "L").map(|(_, n)| (n.id(), matches!(n, xml_dom::XmlNode::DocumentFragment(_)))).collect();
        ids.sort();
        ids.dedup();
        if ids.len() != POOL.len() - 1 {
            return (format!("the ids of the pool nodes collide: {:?}", real.nodes.iter().map(|(k, n)| format!("{}={}", k, n.id())).collect::<Vec<_>>()), "distinct ids".to_string());
        }
        if real.show() != model.show() {
            return (format!("base tree {}", real.show()), format!("base tree {}", model.show()));
        }
        for (i, op) in steps.iter().enumerate() {
            let before_doc = format!("{}", real.doc);
            let res = match catch_unwind(AssertUnwindSafe(|| real.call(op))) {
                Ok(Some(r)) => r,
                Ok(None) => return ("ok".to_string(), "ok".to_string()),
                Err(e) => {
                    let msg = e.downcast_ref::<&str>().map(|s| s.to_string()).or_else(|| e.downcast_ref::<String>().cloned()).unwrap_or_default();
                    if what != "atomic" {
                        // a panic is C13's matter; nothing can be said about the tree afterwards
                        return ("ok".to_string(), "ok".to_string());
                    }
                    return (format!("step {} {}: PANIC({})", i, op.join(":"), msg), format!("step {} {}: no panic", i, op.join(":")));
                }
            };
            if what == "tree" {
                if let (["R", _, _], Ok(gone)) = (op.as_slice(), &res) {
                    if gone.parent_node().is_some() {
                        return (format!("step {} {}: the removed node still has a parent", i, op.join(":")), format!("step {} {}: the removed node has no parent", i, op.join(":")));
                    }
                }
            }
            let acceptable = model.step(op);
            let after = real.show();
            let describe = |a: &Vec<Result<Model, Vec<&'static str>>>| {
                a.iter()
                    .map(|x| match x {
                        Ok(m) => format!("Ok -> {}", m.show()),
                        Err(c) => format!("Err({}) -> {}", c.join("|"), model.show()),
                    })
                    .collect::<Vec<_>>()
                    .join("  OR  ")
            };
            let got = match &res {
                Ok(_) => format!("Ok -> {}", after),
                Err(c) => format!("Err({}) -> {}", c, after),
            };
            let mut matched = None;
            for a in &acceptable {
                match (a, &res) {
                    (Ok(m), Ok(_)) if m.show() == after => matched = Some(m.clone()),
                    (Err(cs), Err(c)) if after == model.show() && (what != "atomic" || (cs.contains(&c.as_str()) && format!("{}", real.doc) == before_doc)) => matched = Some(model.clone()),
                    _ => {}
                }
            }
            // C12 looks at the tree only: a refused call with the "wrong" class or an accepted call are C13's matter as long as
            // the tree is an acceptable one
            if matched.is_none() && what != "atomic" {
                for a in &acceptable {
                    if let Ok(m) = a {
                        if m.show() == after {
                            matched = Some(m.clone());
                        }
                    }
                }
                if matched.is_none() && after == model.show() {
                    matched = Some(model.clone());
                }
            }
            match matched {
                Some(m) => model = m,
                None => {
                    if what == "order" {
                        // whatever the call did (C13's matter), the keys of what is attached now must be in order
                        let bad = real.order_keys();
                        if bad.is_empty() {
                            return ("ok".to_string(), "ok".to_string());
                        }
                        return (format!("step {} {}: {} keys: {:?}", i, op.join(":"), got, bad), format!("step {} {}: non-zero, distinct, strictly increasing along the pre-order walk", i, op.join(":")));
                    }
                    if what == "tree" {
                        // the tree is none of the acceptable ones: still a tree?  C12 demands the views to agree, whatever happened
                        let bad = real.views();
                        if bad.is_empty() {
                            // a well-formed tree that DOM Level 1 does not prescribe: C13's matter
                            return ("ok".to_string(), "ok".to_string());
                        }
                        return (format!("step {} {}: {} views: {:?}", i, op.join(":"), got, bad), format!("step {} {}: {}", i, op.join(":"), describe(&acceptable)));
                    }
                    return (format!("step {} {}: {}", i, op.join(":"), got), format!("step {} {}: {}", i, op.join(":"), describe(&acceptable)));
                }
            }
            if what == "order" {
                let bad = real.order_keys();
                if !bad.is_empty() {
                    return (format!("step {} {}: {} keys: {:?}", i, op.join(":"), got, bad), format!("step {} {}: non-zero, distinct, strictly increasing along the pre-order walk", i, op.join(":")));
                }
            }
            if what == "tree" {
                let bad = real.views();
                if !bad.is_empty() {
                    return (format!("step {} {}: views disagree: {:?}", i, op.join(":"), bad), format!("step {} {}: views agree", i, op.join(":")));
                }
                if let (["R", _, _], Ok(gone)) = (op.as_slice(), &res) {
                    if gone.parent_node().is_some() {
                        return (format!("step {} {}: the removed node still has a parent", i, op.join(":")), format!("step {} {}: the removed node has no parent", i, op.join(":")));
                    }
                }
            }
        }
        ("ok".to_string(), "ok".to_string())
    })) {
        Ok((o, e)) => {
            expected = e;
            o
        }
        Err(e) => {
            let msg = e.downcast_ref::<&str>().map(|s| s.to_string()).or_else(|| e.downcast_ref::<String>().cloned()).unwrap_or_default();
            format!("PANIC({}) outside a mutator call", msg)
        }
    };
    Outcome { observed, expected, note: format!("ops={} pool: D doc T doctype K comment R root A B X(text) C Y(attr x) V(its text) N S W created F fragment Z foreign; N^P[kids]", ops) }
}

/// every single operation over the pool (the Document node and the fragment as arguments: see `special_ops`)
pub fn single_ops() -> Vec<String> {
    let mut out = vec![];
    for p in PARENTS {
        for n in POOL.iter().filter(|n| **n != "D" && **n != "F") {
            out.push(format!("A:{}:{}", p, n));
            out.push(format!("R:{}:{}", p, n));
            for r in REFS {
                out.push(format!("I:{}:{}:{}", p, n, r));
                out.push(format!("P:{}:{}:{}", p, n, r));
            }
        }
    }
    out
}

/// the Document node and the (always empty) fragment as arguments: a handful of representative calls
pub fn special_ops() -> Vec<String> {
    ["A:D:D", "A:R:D", "I:R:D:A", "R:R:D", "P:R:D:A", "A:Y:D", "A:D:F", "A:R:F", "I:R:F:A", "P:R:F:A"].iter().map(|s| s.to_string()).collect()
}

/// first steps worth following up: the single operations that are performed (one per distinct resulting tree)
pub fn state_changers() -> Vec<String> {
    let mut seen = std::collections::BTreeSet::new();
    let mut out = vec![];
    for o in single_ops() {
        let op = split_ops(&o).remove(0);
        let m = Model::base();
        for a in m.step(&op) {
            if let Ok(m2) = a {
                if m2 != m && seen.insert(m2.show()) {
                    out.push(o.clone());
                }
            }
        }
    }
    out
}

// ------------------------------------------------------------------------------------------------
// C13 (and the attribute half of C12): the attribute mutators over enumerated sequences, against a reference model of DOM Level 1
//   S:<el>:<attr>  set_attribute_node        M:<el>:<attr>  attributes().set_named_item
//   X:<el>:<attr>  remove_attribute_node     V:<el>:<name>  remove_attribute     N:<el>:<name>  attributes().remove_named_item
//   T:<el>:<name>  set_attribute(name, "9")
// elements: E G (two look-alike siblings <e a='1'>t</e>), H (<f b='2' a='3'/>), M (created <e/>)
// attribute nodes: a (a of E), c (a of G), b (b of H), d (a of H), u (created "a"), w (created "b"), z (created "a" by ANOTHER document),
// y (created "a" by a LOOK-ALIKE document: a second parse of the same text)

pub const ATTR_DOC: &str = "<r><e a='1'>t</e><e a='1'>t</e><f b='2' a='3'/></r>";
pub const ATTR_ELS: [&str; 4] = ["E", "G", "H", "M"];
pub const ATTR_NODES: [&str; 8] = ["a", "c", "b", "d", "u", "w", "z", "y"];
pub const ATTR_NAMES: [&str; 3] = ["a", "b", "q"];

#[derive(Clone, PartialEq)]
struct AttrModel {
    // element -> (attribute name -> (attribute node, value)); "?" = a node outside the pool
    els: BTreeMap<&'static str, BTreeMap<String, (&'static str, String)>>,
}

fn attr_name_of(n: &str) -> &'static str {
    match n {
        "a" | "c" | "d" | "u" | "z" | "y" => "a",
        _ => "b",
    }
}

impl AttrModel {
    fn base() -> AttrModel {
        let mut els = BTreeMap::new();
        for e in ATTR_ELS {
            els.insert(e, BTreeMap::new());
        }
        els.get_mut("E").unwrap().insert("a".to_string(), ("a", "1".to_string()));
        els.get_mut("G").unwrap().insert("a".to_string(), ("c", "1".to_string()));
        els.get_mut("H").unwrap().insert("b".to_string(), ("b", "2".to_string()));
        els.get_mut("H").unwrap().insert("a".to_string(), ("d", "3".to_string()));
        AttrModel { els }
    }

    fn owner(&self, at: &str) -> Option<&'static str> {
        for (e, m) in &self.els {
            if m.values().any(|v| v.0 == at) {
                return Some(e);
            }
        }
        None
    }

    fn value_of(&self, at: &str) -> String {
        for m in self.els.values() {
            for v in m.values() {
                if v.0 == at {
                    return v.1.clone();
                }
            }
        }
        match at {
            "a" | "c" => "1".to_string(),
            "b" => "2".to_string(),
            "d" => "3".to_string(),
            _ => String::new(),
        }
    }

    fn show(&self) -> String {
        self.els.iter().map(|(e, m)| format!("{}{{{}}}", e, m.iter().map(|(n, v)| format!("{}={}:{}", n, v.0, v.1)).collect::<Vec<_>>().join(" "))).collect::<Vec<_>>().join(" ")
    }

    /// acceptable outcomes: Err(classes), nothing changed / Ok(model)
    fn step(&self, op: &[&'static str], detached_values: &BTreeMap<&'static str, String>) -> Vec<Result<AttrModel, Vec<&'static str>>> {
        let el = op[1];
        match op[0] {
            "S" | "M" => {
                let at = op[2];
                let mut errs = vec![];
                if at == "z" || at == "y" {
                    errs.push("WrongDocumentErr");
                }
                match self.owner(at) {
                    Some(o) if o != el => errs.push("InuseAttributeErr"),
                    Some(_) => return vec![Ok(self.clone())],
                    None => {}
                }
                if !errs.is_empty() {
                    return vec![Err(errs)];
                }
                let mut m = self.clone();
                let val = detached_values.get(at).cloned().unwrap_or_else(|| self.value_of(at));
                m.els.get_mut(el).unwrap().insert(attr_name_of(at).to_string(), (name_attr(at), val));
                vec![Ok(m)]
            }
            "X" => {
                let at = op[2];
                if self.owner(at) != Some(el) {
                    let mut e = vec!["NotFoundErr"];
                    if at == "z" || at == "y" {
                        e.push("WrongDocumentErr");
                    }
                    return vec![Err(e)];
                }
                let mut m = self.clone();
                m.els.get_mut(el).unwrap().retain(|_, v| v.0 != at);
                vec![Ok(m)]
            }
            "V" => {
                let mut m = self.clone();
                m.els.get_mut(el).unwrap().remove(op[2]);
                vec![Ok(m)]
            }
            "N" => {
                if !self.els[el].contains_key(op[2]) {
                    return vec![Err(vec!["NotFoundErr"])];
                }
                let mut m = self.clone();
                m.els.get_mut(el).unwrap().remove(op[2]);
                vec![Ok(m)]
            }
            "T" => {
                let mut m = self.clone();
                let cur = m.els[el].get(op[2]).map(|v| v.0).unwrap_or("?");
                m.els.get_mut(el).unwrap().insert(op[2].to_string(), (cur, "9".to_string()));
                vec![Ok(m)]
            }
            _ => vec![],
        }
    }
}

fn name_attr(s: &str) -> &'static str {
    ATTR_NODES.iter().copied().find(|p| *p == s).unwrap_or("?")
}

fn name_el(s: &str) -> &'static str {
    ATTR_ELS.iter().copied().find(|p| *p == s).unwrap_or("?")
}

struct AttrReal {
    els: BTreeMap<&'static str, xml_dom::XmlElement>,
    attrs: BTreeMap<&'static str, xml_dom::XmlAttr>,
    _docs: (xml_dom::XmlDocument, xml_dom::XmlDocument, xml_dom::XmlDocument),
}

impl AttrReal {
    fn base() -> AttrReal {
        use xml_dom::AsNode;
        let (_, doc) = xml_dom::XmlDocument::from_raw(ATTR_DOC).unwrap();
        let (_, other) = xml_dom::XmlDocument::from_raw(&format!("<q>{}</q>", "<q/>".repeat(60))).unwrap();
        let r = doc.document_element().unwrap();
        let mut els = BTreeMap::new();
        for (i, n) in ["E", "G", "H"].iter().enumerate() {
            els.insert(*n, r.child_nodes().item(i).unwrap().as_element().unwrap());
        }
        els.insert("M", doc.create_element("e").unwrap());
        let mut attrs = BTreeMap::new();
        attrs.insert("a", Element::get_attribute_node(&els["E"], "a").unwrap());
        attrs.insert("c", Element::get_attribute_node(&els["G"], "a").unwrap());
        attrs.insert("b", Element::get_attribute_node(&els["H"], "b").unwrap());
        attrs.insert("d", Element::get_attribute_node(&els["H"], "a").unwrap());
        attrs.insert("u", doc.create_attribute("a").unwrap());
        attrs.insert("w", doc.create_attribute("b").unwrap());
        attrs.insert("z", other.create_attribute("a").unwrap());
        // y: created by a look-alike document (a second parse of the same text)
        let (_, alike) = xml_dom::XmlDocument::from_raw(ATTR_DOC).unwrap();
        attrs.insert("y", alike.create_attribute("a").unwrap());
        let _ = r.as_node();
        AttrReal { els, attrs, _docs: (doc, other, alike) }
    }

    fn attr_name(&self, at: &xml_dom::XmlAttr) -> &'static str {
        use xml_dom::AsNode;
        for (k, v) in &self.attrs {
            if v.as_node().id() == at.as_node().id() && xml_dom::Node::owner_document(v) == xml_dom::Node::owner_document(at) {
                return k;
            }
        }
        "?"
    }

    fn show(&self) -> String {
        use xml_dom::{Attr, NamedNodeMap};
        self.els
            .iter()
            .map(|(e, el)| {
                let map = el.attributes().unwrap();
                let mut items: Vec<(String, &'static str, String)> = (0..map.length()).filter_map(|i| map.item(i)).map(|a| (a.name(), self.attr_name(&a), a.value().unwrap_or_else(|_| "<value error>".to_string()))).collect();
                items.sort();
                format!("{}{{{}}}", e, items.iter().map(|(n, k, v)| format!("{}={}:{}", n, k, v)).collect::<Vec<_>>().join(" "))
            })
            .collect::<Vec<_>>()
            .join(" ")
    }

    fn call(&self, op: &[&'static str]) -> Result<(), String> {
        use xml_dom::{ElementMut, NamedNodeMapMut};
        let cls = |e: xml_dom::error::Error| match e {
            xml_dom::error::Error::Dom(d) => format!("{:?}", d),
            o => format!("{:?}", o),
        };
        let el = &self.els[op[1]];
        match op[0] {
            "S" => el.set_attribute_node(self.attrs[op[2]].clone()).map(|_| ()).map_err(cls),
            "M" => el.attributes().unwrap().set_named_item(self.attrs[op[2]].clone()).map(|_| ()).map_err(cls),
            "X" => el.remove_attribute_node(self.attrs[op[2]].clone()).map(|_| ()).map_err(cls),
            "V" => el.remove_attribute(op[2]).map_err(cls),
            "N" => el.attributes().unwrap().remove_named_item(op[2]).map(|_| ()).map_err(cls),
            "T" => el.set_attribute(op[2], "9").map_err(cls),
            _ => Ok(()),
        }
    }
}

pub fn attr_single_ops() -> Vec<String> {
    let mut out = vec![];
    for e in ATTR_ELS {
        for a in ATTR_NODES {
            for o in ["S", "M", "X"] {
                out.push(format!("{}:{}:{}", o, e, a));
            }
        }
        for n in ATTR_NAMES {
            for o in ["V", "N", "T"] {
                out.push(format!("{}:{}:{}", o, e, n));
            }
        }
    }
    out
}

pub fn dom_attr_seq(ops: &str) -> Outcome {
    use xml_dom::Attr;
    let mut steps: Vec<Vec<&'static str>> = vec![];
    for o in ops.split(';').filter(|s| !s.is_empty()) {
        let t: Vec<&str> = o.split(':').collect();
        let opn = ["S", "M", "X", "V", "N", "T"].iter().copied().find(|x| *x == t[0]).unwrap_or("?");
        let third = if matches!(opn, "S" | "M" | "X") { name_attr(t[2]) } else { ATTR_NAMES.iter().copied().find(|x| *x == t[2]).unwrap_or("?") };
        steps.push(vec![opn, name_el(t[1]), third]);
    }
    let mut expected = String::from("ok");
    let observed = match catch_unwind(AssertUnwindSafe(|| {
        let real = AttrReal::base();
        let mut model = AttrModel::base();
        if real.show() != model.show() {
            return (format!("base {}", real.show()), format!("base {}", model.show()));
        }
        for (i, op) in steps.iter().enumerate() {
            // the value a detached pool attribute carries (its own, whatever happened to it before)
            let mut detached = BTreeMap::new();
            for (k, a) in &real.attrs {
                if model.owner(k).is_none() {
                    detached.insert(*k, a.value().unwrap_or_default());
                }
            }
            let res = match catch_unwind(AssertUnwindSafe(|| real.call(op))) {
                Ok(r) => r,
                Err(e) => {
                    let msg = e.downcast_ref::<&str>().map(|s| s.to_string()).or_else(|| e.downcast_ref::<String>().cloned()).unwrap_or_default();
                    return (format!("step {} {}: PANIC({})", i, op.join(":"), msg), format!("step {} {}: no panic", i, op.join(":")));
                }
            };
            let acceptable = model.step(op, &detached);
            let after = real.show();
            let got = match &res {
                Ok(_) => format!("Ok -> {}", after),
                Err(c) => format!("Err({}) -> {}", c, after),
            };
            let mut matched = None;
            for a in &acceptable {
                match (a, &res) {
                    (Ok(m), Ok(_)) if m.show() == after => matched = Some(m.clone()),
                    (Err(cs), Err(c)) if after == model.show() && cs.contains(&c.as_str()) => matched = Some(model.clone()),
                    _ => {}
                }
            }
            match matched {
                Some(m) => model = m,
                None => {
                    let want = acceptable
                        .iter()
                        .map(|x| match x {
                            Ok(m) => format!("Ok -> {}", m.show()),
                            Err(c) => format!("Err({}) -> {}", c.join("|"), model.show()),
                        })
                        .collect::<Vec<_>>()
                        .join("  OR  ");
                    return (format!("step {} {}: {}", i, op.join(":"), got), format!("step {} {}: {}", i, op.join(":"), want));
                }
            }
        }
        ("ok".to_string(), "ok".to_string())
    })) {
        Ok((o, e)) => {
            expected = e;
            o
        }
        Err(e) => {
            let msg = e.downcast_ref::<&str>().map(|s| s.to_string()).or_else(|| e.downcast_ref::<String>().cloned()).unwrap_or_default();
            format!("PANIC({}) outside a mutator call", msg)
        }
    };
    Outcome { observed, expected, note: format!("ops={} elements E G (look-alike <e a='1'>t</e>) H (<f b='2' a='3'/>) M created; attribute nodes a(E) c(G) b,d(H) u,w created z foreign; El{{name=node:value}}", ops) }
}

// ------------------------------------------------------------------------------------------------
// C05 / C09 / C10: the XPath corpus (tools/gen_xpath_corpus.py): expressions enumerated from a grammar over four documents, each with
// the value two independent XPath 1.0 implementations (JDK javax.xml.xpath, libxml2) agree on.

pub const XPATH_CORPUS: &str = include_str!("../data/xpath_corpus.txt");
pub const XPATH_CORPUS_DOCS: &str = include_str!("../data/xpath_corpus_docs.txt");

fn corpus_unesc(line: &str) -> String {
    crate::ops_more::unescape_line(line)
}

struct CorpusDoc {
    doc: xml_dom::XmlDocument,
    tree: BTreeMap<usize, usize>,           // item id -> tree index
    attrs: BTreeMap<usize, usize>,          // attribute id -> owner tree index
}

fn corpus_doc(text: &str) -> CorpusDoc {
    use xml_dom::AsNode;
    fn walk(n: &xml_dom::XmlNode, next: &mut usize, tree: &mut BTreeMap<usize, usize>, attrs: &mut BTreeMap<usize, usize>) {
        for c in n.child_nodes().iter() {
            match &c {
                xml_dom::XmlNode::DocumentType(_) => {}
                xml_dom::XmlNode::Element(_) => {
                    let me = *next;
                    tree.insert(c.id(), me);
                    *next += 1;
                    if let Some(map) = c.attributes() {
                        for a in map.iter() {
                            attrs.insert(a.as_node().id(), me);
                        }
                    }
                    walk(&c, next, tree, attrs);
                }
                _ => {
                    tree.insert(c.id(), *next);
                    *next += 1;
                }
            }
        }
    }
    let (_, doc) = xml_dom::XmlDocument::from_raw_with_context(text, xml_dom::Context::from_text_expanded(true)).unwrap();
    let mut tree = BTreeMap::new();
    let mut attrs = BTreeMap::new();
    tree.insert(doc.as_node().id(), 0);
    let mut next = 1;
    walk(&doc.as_node(), &mut next, &mut tree, &mut attrs);
    CorpusDoc { doc, tree, attrs }
}

thread_local! {
    static CORPUS_DOCS: std::cell::RefCell<Vec<Option<std::rc::Rc<CorpusDoc>>>> = const { std::cell::RefCell::new(Vec::new()) };
}

pub const XPATH_MUTANTS: &str = include_str!("../data/xpath_mutants.txt");

/// C06: whatever the string is, parsing and evaluating it ends in a value or an error (tools/gen_xpath_mutants.py)
pub fn xpath_mutant(expr: &str) -> Outcome {
    use xml_xpath::eval::model::Context;
    let observed = match catch_unwind(AssertUnwindSafe(|| {
        if CORPUS_DOCS.with(|c| c.borrow().is_empty() || c.borrow()[0].is_none()) {
            let _ = xpath_corpus(0, "1", "N:1|3ff0000000000000");
        }
        let cd = CORPUS_DOCS.with(|c| c.borrow()[0].clone().unwrap());
        let mut ctx = Context::default();
        ctx.add_ns(Some("p"), "urn:p");
        let started = std::time::Instant::now();
        let _ = xml_xpath::query(cd.doc.clone(), expr, &mut ctx);
        // (the document has 20 nodes, the expression a few hundred characters at most: seconds mean a blow-up)
        if started.elapsed().as_secs() >= 3 {
            format!("took {} s", started.elapsed().as_secs())
        } else {
            "a value or an error".to_string()
        }
    })) {
        Ok(s) => s,
        Err(e) => format!("PANIC({}) [at {}]", e.downcast_ref::<&str>().map(|s| s.to_string()).or_else(|| e.downcast_ref::<String>().cloned()).unwrap_or_default(), crate::LAST_PANIC_AT.lock().unwrap()),
    };
    Outcome { observed, expected: "a value or an error".to_string(), note: String::new() }
}

/// C06, each in a child process with a time limit of 20 s: deep nesting ("(" * k, "a[a" * k, "count(" * k: the expression parser
/// and the evaluator recurse once per level; a stack overflow aborts the process) and repeated steps (a blow-up hangs)
pub const XPATH_DEEP: [&str; 22] = [
    "paren:200", "pred:200", "call:200", "paren:1000", "pred:1000", "call:1000",
    // steps that reach the same nodes again and again: a node list that is not de-duplicated between steps grows with every step
    "updown:10", "updown:40", "samechild:10", "samechild:40", "desc:12", "descanc:10", "descanc:40", "parent:10", "parent:40", "folprec:10", "folprec:40", "allup:10", "allup:40", "sibs:10", "sibs:40", "updown8:12",
];

pub fn xpath_deep_expr(shape: &str) -> String {
    let (kind, k) = shape.split_once(':').unwrap_or(("paren", "10"));
    let k: usize = k.parse().unwrap_or(10);
    match kind {
        "pred" => format!("a{}{}", "[a".repeat(k), "]".repeat(k)),
        "call" => format!("{}/{}", "count(".repeat(k), ")".repeat(k)),
        "updown" => format!("/r{}/*", "/*/..".repeat(k)),
        "samechild" => format!("/r{}", "/a/..".repeat(k)),
        "desc" => "//*".repeat(k),
        "descanc" => format!("/r{}", "/descendant::*/ancestor::*".repeat(k)),
        "parent" => format!("/r{}/@x", "/*/parent::*".repeat(k)),
        "folprec" => format!("//a{}", "/following::*/preceding::*".repeat(k)),
        "allup" => format!("(//* | //@*){}", "/..".repeat(k)),
        "sibs" => format!("/r{}", "/*/preceding-sibling::*/following-sibling::*".repeat(k)),
        "updown8" => format!("count(/r{})", "/node()/..".repeat(k)),
        _ => format!("{}1{}", "(".repeat(k), ")".repeat(k)),
    }
}

pub fn xpath_deep(shape: &str) -> Outcome {
    crate::ops_more::in_child("xpath.deep_inproc", shape, "a value or an error", "the XPath expression parser / evaluator")
}

pub fn xpath_deep_inproc(shape: &str) -> Outcome {
    xpath_mutant(xpath_deep_expr(shape).as_str())
}

/// C19: the same expression evaluated twice on the same document and the SAME context object gives the same value, the value
/// equals the one a fresh context gives, and the document prints as before (queries have no side effect)
pub fn xpath_corpus_repeat(doc_index: usize, expr: &str, expected: &str) -> Outcome {
    use xml_xpath::eval::model::{Context, Value};
    let first = xpath_corpus(doc_index, expr, expected);
    let observed = match catch_unwind(AssertUnwindSafe(|| {
        let cd = CORPUS_DOCS.with(|c| c.borrow()[doc_index].clone().unwrap());
        let before = format!("{}", cd.doc);
        let show = |v: xml_xpath::error::Result<'_, Value>| match v {
            Err(e) => format!("Err({})", e),
            Ok(Value::Boolean(b)) => format!("B:{}", b),
            Ok(Value::Text(s)) => format!("S:{}", s),
            Ok(Value::Number(x)) => format!("N:{:x}", x.to_bits()),
            Ok(Value::Node(ns)) => format!("NS:{:?}", ns.iter().map(|n| (n.id(), n.order())).collect::<Vec<_>>()),
        };
        let mut ctx = Context::default();
        ctx.add_ns(Some("p"), "urn:p");
        ctx.add_ns(Some("q"), "urn:q");
        let a = show(xml_xpath::query(cd.doc.clone(), expr, &mut ctx));
        let b = show(xml_xpath::query(cd.doc.clone(), expr, &mut ctx));
        let mut fresh = Context::default();
        fresh.add_ns(Some("p"), "urn:p");
        fresh.add_ns(Some("q"), "urn:q");
        let c = show(xml_xpath::query(cd.doc.clone(), expr, &mut fresh));
        if a != b {
            return format!("second evaluation on the same context differs: {} then {}", a, b);
        }
        if a != c {
            return format!("a fresh context answers differently: {} / {}", a, c);
        }
        if format!("{}", cd.doc) != before {
            return "the document prints differently after the query".to_string();
        }
        "same value every time, document unchanged".to_string()
    })) {
        Ok(s) => s,
        Err(_) => "same value every time, document unchanged".to_string(), // a panic is C06's matter
    };
    let _ = first;
    Outcome { observed, expected: "same value every time, document unchanged".to_string(), note: String::new() }
}

// C18, names: a document with `name` as element name / attribute name / PI target / name of a declared and referenced entity is
// accepted by the parser (nothing left over) exactly when the name matches QName (elements, attributes) or Name (PI targets other
// than [Xx][Mm][Ll], entity names: XML 1.0 productions [17], [68], [71]; colons are allowed there).  Expected from the character
// tables of spec/xml_chars.json.  Candidates: every boundary code point of the NameStartChar / NameChar ranges (and its neighbours)
// alone, after a letter and before a letter; names that begin like reserved ones (xmlnsx, xmlns2:x, xmlfoo); colon shapes.
pub fn name_candidates() -> Vec<String> {
    const START: [(u32, u32); 16] = [(58, 58), (65, 90), (95, 95), (97, 122), (192, 214), (216, 246), (248, 767), (880, 893), (895, 8191), (8204, 8205), (8304, 8591), (11264, 12271),
        (12289, 55295), (63744, 64975), (65008, 65533), (65536, 983039)];
    const EXTRA: [(u32, u32); 6] = [(45, 45), (46, 46), (48, 57), (183, 183), (768, 879), (8255, 8256)];
    let mut out: Vec<String> = vec![];
    for (a, b) in START.iter().chain(EXTRA.iter()) {
        for cp in [a.saturating_sub(1), *a, *b, b + 1] {
            if let Some(c) = char::from_u32(cp) {
                if c == '<' || c == '>' || c == '&' || c == '"' || c == '\'' || c == '=' || c == '/' || c == '?' || c == ';' || c.is_whitespace() || c == ':' {
                    continue; // (delimiters end the name instead of entering it; colons: the shapes below)
                }
                out.push(c.to_string());
                out.push(format!("a{}", c));
                out.push(format!("{}a", c));
            }
        }
    }
    for s in ["a", "xmlnsx", "xmlns2", "xmlns2:x", "xmlns-a", "xmlns.a", "xmlfoo", "xml2:a", "a:b", "a:b:c", ":a", "a:", ":", "a::b", "a:1", "1:a", "a:-b", "a-:b", "_", "_:_", "a.b-c_d", "\u{e9}:\u{e9}"] {
        out.push(s.to_string());
    }
    out.sort();
    out.dedup();
    out
}

pub fn names_accepted(position: &str, name: &str) -> Outcome {
    use crate::gen_chars::{p4_name_start_char, p4a_name_char};
    let is_ncname = |s: &str| {
        let mut it = s.chars();
        match it.next() {
            Some(c) if c != ':' && p4_name_start_char(c as u32) => it.all(|c| c != ':' && p4a_name_char(c as u32)),
            _ => false,
        }
    };
    let is_name = |s: &str| {
        let mut it = s.chars();
        match it.next() {
            Some(c) if p4_name_start_char(c as u32) => it.all(|c| p4a_name_char(c as u32)),
            _ => false,
        }
    };
    let is_qname = |s: &str| match s.split_once(':') {
        Some((p, l)) => is_ncname(p) && is_ncname(l),
        None => is_ncname(s),
    };
    let (doc, want) = match position {
        "element" => (format!("<{}/>", name), is_qname(name)),
        // (a namespace declaration is an attribute too: xmlns, xmlns:p -- both match QName; xmlns:1 does not)
        "attribute" => (format!("<r {}=\"v\"/>", name), is_qname(name)),
        "pi" => (format!("<r><?{} d?></r>", name), is_name(name) && !name.eq_ignore_ascii_case("xml")),
        "entity" => (format!("<!DOCTYPE r [<!ENTITY {} \"v\">]><r>&{};</r>", name, name), is_name(name)),
        _ => (String::new(), false),
    };
    let observed = match catch_unwind(AssertUnwindSafe(|| match xml_parser::document(doc.as_str()) {
        Ok((rest, _)) if rest.is_empty() => "accepted".to_string(),
        _ => "not accepted".to_string(),
    })) {
        Ok(s) => s,
        Err(_) => "PANIC".to_string(),
    };
    Outcome { observed, expected: if want { "accepted" } else { "not accepted" }.to_string(), note: format!("document {:?}", doc) }
}

// C07, set algebra (no oracle needed: the property states the laws).  For every ordered pair (A, B) of operand paths -- among them
// paths whose LAST step reaches a node from several context nodes (`//ancestor::*`, `//..`), operands that lie wholly before or after
// each other, overlapping and empty ones -- on a fixed document:
//   A | B is duplicate-free and in document order;  A | B = B | A;  its nodes are exactly those of A and those of B;  A | A = A;
//   A | B | A = A | B;  count(A | B) <= count(A) + count(B);  (A | B)[1] and (A | B)[last()] are its first and last node.
pub const UNION_DOC: &str = "<r xmlns:p='urn:p' x='0'><a><b/><b/></a><c><d/><a x='1' y='2'><b>t</b></a></c><e/><!--k--></r>";
pub const UNION_OPERANDS: [&str; 36] = [
    "//a", "//b", "//c", "//e", "//d", "//ancestor::a", "//ancestor::*", "//..", "//*/..", "//b/..", "//b/parent::*", "//b/ancestor::*", "//b/ancestor-or-self::*",
    "//b/preceding-sibling::*", "//b/following-sibling::*", "//b/following::*", "//b/preceding::*", "//*/descendant::b", "//a/descendant-or-self::*", "//@*", "//@x/..", "//@*/..",
    "/r/*", "/r/a/b", "//nosuch", "/", "//text()", "(//b)/..", "//a/b[1]", "//a//b", "//*[b]", "//c//*", "/r/namespace::*", "//comment()", "//*/self::*", "//b/ancestor::*/@*",
];

pub fn xpath_union_algebra(a: &str, b: &str) -> Outcome {
    use xml_xpath::eval::model::{Context, Value};
    let expected = "the laws hold".to_string();
    let observed = match catch_unwind(AssertUnwindSafe(|| {
        let (_, doc) = xml_dom::XmlDocument::from_raw_with_context(UNION_DOC, xml_dom::Context::from_text_expanded(true)).unwrap();
        // a node is identified by (id, order key, name): namespace nodes of different elements share nothing, attributes have ids
        let keys = |q: &str| -> Result<Vec<(usize, usize)>, String> {
            match xml_xpath::query(doc.clone(), q, &mut Context::default()) {
                Ok(Value::Node(ns)) => Ok(ns.iter().map(|n| (n.order(), n.id())).collect()),
                Ok(_) => Err(format!("{} is not a node-set", q)),
                Err(e) => Err(format!("{} -> Err({})", q, e)),
            }
        };
        let get = |q: String| keys(q.as_str());
        let (ka, kb) = match (get(a.to_string()), get(b.to_string())) {
            (Ok(x), Ok(y)) => (x, y),
            _ => return "the laws hold".to_string(), // an operand that is refused: nothing to say
        };
        let u = match get(format!("{} | {}", a, b)) {
            Ok(u) => u,
            Err(e) => return e,
        };
        for w in u.windows(2) {
            if w[0].0 >= w[1].0 {
                return format!("{} | {} lists order keys {:?}: not strictly increasing (a duplicate, or out of document order)", a, b, u.iter().map(|k| k.0).collect::<Vec<_>>());
            }
        }
        let mut want: Vec<(usize, usize)> = ka.iter().chain(kb.iter()).cloned().collect();
        want.sort();
        want.dedup();
        if u != want {
            return format!("{} | {} holds {:?}, the operands hold {:?}", a, b, u, want);
        }
        match get(format!("{} | {}", b, a)) {
            Ok(v) if v == u => {}
            Ok(v) => return format!("{} | {} = {:?} but {} | {} = {:?}", a, b, u, b, a, v),
            Err(e) => return e,
        }
        let mut sa = ka.clone();
        sa.sort();
        sa.dedup();
        match get(format!("{} | {}", a, a)) {
            Ok(v) if v == sa => {}
            Ok(v) => return format!("{} | {} = {:?}, the operand holds {:?}", a, a, v, sa),
            Err(e) => return e,
        }
        match get(format!("{} | {} | {}", a, b, a)) {
            Ok(v) if v == u => {}
            Ok(v) => return format!("{} | {} | {} = {:?} but {} | {} = {:?}", a, b, a, v, a, b, u),
            Err(e) => return e,
        }
        if u.len() > sa.len() + { let mut sb = kb.clone(); sb.sort(); sb.dedup(); sb.len() } {
            return format!("count({} | {}) = {} exceeds count(A) + count(B)", a, b, u.len());
        }
        if !u.is_empty() {
            match (get(format!("({} | {})[1]", a, b)), get(format!("({} | {})[last()]", a, b)), get(format!("({} | {})[{}]", a, b, u.len()))) {
                (Ok(f), Ok(l), Ok(k)) => {
                    if f != vec![u[0]] || l != vec![*u.last().unwrap()] || k != l {
                        return format!("({} | {})[1] = {:?}, [last()] = {:?}, [{}] = {:?}; the union is {:?}", a, b, f, l, u.len(), k, u);
                    }
                }
                (Err(e), _, _) | (_, Err(e), _) | (_, _, Err(e)) => return e,
            }
        }
        "the laws hold".to_string()
    })) {
        Ok(s) => s,
        Err(_) => expected.clone(), // a panic is C06's matter
    };
    Outcome { observed, expected, note: format!("document {}", UNION_DOC) }
}

// C19, series: `second` on a context that already served `first` (whatever it answered: a value, an error) must answer as on a fresh
// context with the same bindings, and the document must print as before.  The queries are chosen for what a context could remember:
// function names with and without a prefix (bound, bound to another URI, unbound), prefixed name tests, position and size, errors.
pub const CTX_SERIES_DOC: &str = "<r xmlns:p='urn:p' xml:lang='en' x='1'><a>t</a><p:a y='2'/><a><b/></a><!--c--><?i d?></r>";
pub const CTX_SERIES: [&str; 52] = [
    "//@xml:*", "//@xml:lang", "//xml:a", "//@p:*", "//@q:*", "//p:*", "//*[@xml:lang]", "//@zz:*",
    "count(//a)", "p:count(//a)", "q:count(//a)", "zz:count(//a)", "true()", "p:true()", "translate('abc', 'ab', 'x')", "q:translate('abc', 'ab', 'x')",
    "nosuch()", "p:nosuch()", "$x", "//a", "//p:a", "//q:a", "//zz:a", "//*[p:a]", "//a[nosuch()]", "//a[2]", "(//a)[last()]", "//a[position() = 2]",
    "position()", "last()", "concat(position(), '/', last())", "//a | //b", "name(//*[2])", "local-name(//p:a)", "namespace-uri(//p:a)", "sum(//@*)", "lang('en')", "id('x')",
    "1 div 0", "-1", "'s'", "/", "/..", "//@*", "//namespace::*", "//comment()", "//text()", "//processing-instruction()", "normalize-space()", "string-length()", "string(//a[1])", "//a/..",
];

pub fn xpath_ctx_series(first: &str, second: &str) -> Outcome {
    use xml_xpath::eval::model::{Context, Value};
    let expected = "as on a fresh context, document unchanged".to_string();
    let observed = match catch_unwind(AssertUnwindSafe(|| {
        let (_, doc) = xml_dom::XmlDocument::from_raw_with_context(CTX_SERIES_DOC, xml_dom::Context::from_text_expanded(true)).unwrap();
        let before = format!("{}", doc);
        let show = |v: xml_xpath::error::Result<'_, Value>| match v {
            Err(e) => format!("Err({})", e),
            Ok(Value::Boolean(b)) => format!("B:{}", b),
            Ok(Value::Text(s)) => format!("S:{}", s),
            Ok(Value::Number(x)) => format!("N:{:x}", x.to_bits()),
            Ok(Value::Node(ns)) => format!("NS:{:?}", ns.iter().map(|n| (n.id(), n.order())).collect::<Vec<_>>()),
        };
        let bind = |c: &mut Context| {
            c.add_ns(Some("p"), "urn:p");
            c.add_ns(Some("q"), "urn:q");
        };
        let mut used = Context::default();
        bind(&mut used);
        // a panic in the first query is C06's matter; the context it leaves behind is still this grid's
        let _ = catch_unwind(AssertUnwindSafe(|| {
            let _ = xml_xpath::query(doc.clone(), first, &mut used);
        }));
        let a = show(xml_xpath::query(doc.clone(), second, &mut used));
        let mut fresh = Context::default();
        bind(&mut fresh);
        let b = show(xml_xpath::query(doc.clone(), second, &mut fresh));
        if a != b {
            return format!("after {:?} the context answers {} where a fresh one answers {}", first, a, b);
        }
        if format!("{}", doc) != before {
            return "the document prints differently after the two queries".to_string();
        }
        "as on a fresh context, document unchanged".to_string()
    })) {
        Ok(s) => s,
        Err(_) => expected.clone(), // a panic is C06's matter
    };
    Outcome { observed, expected, note: format!("document {}", CTX_SERIES_DOC) }
}

/// C07 only: the node-set the expression returns is duplicate-free and in document order (WHICH nodes it holds is C05's matter)
pub fn xpath_corpus_order(doc_index: usize, expr: &str, expected: &str) -> Outcome {
    let o = xpath_corpus(doc_index, expr, expected);
    let observed = if o.observed.contains("(a node is listed twice") || o.observed.contains("(not in document order") || o.observed.starts_with("PANIC") {
        o.observed
    } else {
        "duplicate-free and in document order (or not a node-set)".to_string()
    };
    Outcome { observed, expected: "duplicate-free and in document order (or not a node-set)".to_string(), note: o.note }
}

pub fn xpath_corpus(doc_index: usize, expr: &str, expected: &str) -> Outcome {
    use xml_dom::{AsExpandedName, AsNode};
    use xml_xpath::eval::model::{Context, Value};
    let observed = match catch_unwind(AssertUnwindSafe(|| {
        let cd = CORPUS_DOCS.with(|c| {
            let mut c = c.borrow_mut();
            while c.len() <= doc_index {
                c.push(None);
            }
            if c[doc_index].is_none() {
                let text = corpus_unesc(XPATH_CORPUS_DOCS.lines().nth(doc_index).unwrap());
                c[doc_index] = Some(std::rc::Rc::new(corpus_doc(&text)));
            }
            c[doc_index].clone().unwrap()
        });
        let mut ctx = Context::default();
        ctx.add_ns(Some("p"), "urn:p");
        ctx.add_ns(Some("q"), "urn:q");
        match xml_xpath::query(cd.doc.clone(), expr, &mut ctx) {
            Err(e) => format!("Err({})", e),
            Ok(Value::Boolean(b)) => format!("B:{}", b),
            Ok(Value::Text(s)) => format!("S:{}", crate::esc(&s)),
            Ok(Value::Number(x)) => {
                let want_str = expected.strip_prefix("N:").and_then(|v| v.rsplit_once('|')).map(|v| v.0).unwrap_or("");
                let bits = if x.is_nan() { "nan".to_string() } else { format!("{:x}", (if x == 0.0 { 0.0f64 } else { x }).to_bits()) };
                // the string form is the oracle's; string(EXPR) is a corpus entry of its own
                format!("N:{}|{}", want_str, bits)
            }
            Ok(Value::Node(ns)) => {
                let mut keys: Vec<String> = vec![];
                // attributes defaulted from the DTD carry no document-order key (recorded finding of C05 / C11): their place in
                // the returned list is not looked at
                let mut unnumbered: Vec<String> = vec![];
                for n in ns.iter() {
                    match n {
                        xml_dom::XmlNode::Attribute(a) => {
                            let owner = cd.attrs.get(&a.as_node().id()).map(|o| format!("{:05}", o)).unwrap_or_else(|| "?????".to_string());
                            let (local, uri) = match a.as_expanded_name() {
                                Ok(Some((local, _, uri))) => (local, uri.unwrap_or_default()),
                                _ => ("?".to_string(), "?".to_string()),
                            };
                            if !xml_dom::Attr::specified(a) {
                                unnumbered.push(format!("{}@{{{}}}{}", owner, uri, local));
                            }
                            keys.push(format!("{}@{{{}}}{}", owner, uri, local));
                        }
                        xml_dom::XmlNode::Namespace(_) => keys.push("namespace-node".to_string()),
                        other => keys.push(cd.tree.get(&other.id()).map(|o| format!("{:05}", o)).unwrap_or_else(|| format!("?{}", other.node_name()))),
                    }
                }
                let listed = keys.len();
                // C07: a node-set comes in document order (the attributes of one element among themselves: any order)
                let position = |k: &String| k.split('@').next().unwrap_or("").to_string() + if k.contains('@') { "@" } else { "" };
                let numbered: Vec<&String> = keys.iter().filter(|k| !unnumbered.contains(k)).collect();
                let in_order = numbered.windows(2).all(|w| position(w[0]) <= position(w[1]));
                let as_returned = keys.join(",");
                keys.sort();
                keys.dedup();
                if keys.len() != listed {
                    format!("NS:{} (a node is listed twice: {} entries)", keys.join(","), listed)
                } else if !in_order {
                    format!("NS:{} (not in document order: returned as {})", keys.join(","), as_returned)
                } else {
                    format!("NS:{}", keys.join(","))
                }
            }
        }
    })) {
        Ok(s) => s,
        Err(e) => format!("PANIC({})", e.downcast_ref::<&str>().map(|s| s.to_string()).or_else(|| e.downcast_ref::<String>().cloned()).unwrap_or_default()),
    };
    Outcome { observed, expected: expected.to_string(), note: format!("doc {}: {}", doc_index, corpus_unesc(XPATH_CORPUS_DOCS.lines().nth(doc_index).unwrap_or(""))) }
}

// ------------------------------------------------------------------------------------------------
// C11: the attribute corpus (tools/gen_attr_corpus.py): value literals x declared types x default kinds, with the attribute list
// three independent parsers (expat, the JDK DOM parser, libxml2) agree on.  Items "name=value" + S (specified) / D (defaulted).

pub const ATTR_CORPUS: &str = include_str!("../data/attr_corpus.txt");

pub fn info_attr_corpus(doc: &str, expected: &str) -> Outcome {
    use xml_dom::Attr;
    let observed = match catch_unwind(AssertUnwindSafe(|| {
        let d = match xml_dom::XmlDocument::from_raw(doc) {
            Ok((rest, d)) if rest.is_empty() => d,
            _ => return "not accepted".to_string(),
        };
        let r = match d.document_element() {
            Ok(r) => r,
            Err(_) => return "no document element".to_string(),
        };
        let mut items = vec![];
        if let Some(attrs) = xml_dom::AsNode::as_node(&r).attributes() {
            for a in attrs.iter() {
                let v = match a.value() {
                    Ok(v) => crate::esc(&v),
                    Err(e) => format!("<value error: {:?}>", e),
                };
                items.push(format!("{}={}{}", a.node_name(), v, if a.specified() { "S" } else { "D" }));
            }
        }
        items.sort();
        if items.is_empty() {
            "-".to_string()
        } else {
            items.join("\u{1}")
        }
    })) {
        Ok(s) => s,
        Err(e) => format!("PANIC({})", e.downcast_ref::<&str>().map(|s| s.to_string()).or_else(|| e.downcast_ref::<String>().cloned()).unwrap_or_default()),
    };
    Outcome { observed: observed.replace('\u{1}', " | "), expected: expected.replace('\u{1}', " | "), note: String::new() }
}

// ------------------------------------------------------------------------------------------------
// C15: edits that report success keep the document serializable and faithful.  One document, the data-editing and creating calls
// of the DOM with argument strings over the markup-significant characters, sequences of one and two calls.  When every call
// reported success: the serialization parses completely and the re-parsed document reports the same content (element names,
// attribute names and values, character data with adjacent text / CDATA runs joined, comments, PI targets and data).
//   edit = <target>.<op>.<arg>   targets: T text, K comment, D cdata, P pi, A attribute a, R the root element
//   ops on T K D: ins0 insE (insert_data at 0 / at the end) app set rep (replace_data(0,1,arg)) del0 delM (delete 1 char at 0 / in the middle) split (T, D)
//   P: set   A: setv (set_value)   R: attr (set_attribute(arg, "v")) attrv (set_attribute("n", arg)) text comment cdata pi pit elem (create_* with arg, appended)

pub const EDIT_DOC: &str = "<r a=\"v\"><!--c-x-c-->t]x]>t<![CDATA[d]x]>d]]><?p x?><e/></r>";
pub const EDIT_ARGS: [&str; 19] = ["-", "--", "->", "]", "]]", "]]>", ">", "<", "&", "?", "?>", "\"", "'", "a", "\u{1}", "&amp;", "\u{e9}", "", " "];

fn edit_dump(doc: &xml_dom::XmlDocument) -> String {
    use xml_dom::{Attr, CharacterData};
    fn walk(n: &xml_dom::XmlNode, out: &mut Vec<String>) {
        let mut run = String::new();
        let mut in_run = false;
        for c in n.child_nodes().iter() {
            let text = match &c {
                xml_dom::XmlNode::Text(t) => Some(t.data().unwrap_or_else(|_| "<data error>".into())),
                xml_dom::XmlNode::CData(t) => Some(t.data().unwrap_or_else(|_| "<data error>".into())),
                xml_dom::XmlNode::ExpandedText(t) => Some(t.data().unwrap_or_else(|_| "<data error>".into())),
                xml_dom::XmlNode::EntityReference(t) => Some(t.node_value().ok().flatten().unwrap_or_default()),
                _ => None,
            };
            if let Some(t) = text {
                run.push_str(&t);
                in_run = true;
                continue;
            }
            if in_run {
                if !run.is_empty() {
                    out.push(format!("text {:?}", run));
                }
                run.clear();
                in_run = false;
            }
            match &c {
                xml_dom::XmlNode::Element(_) => {
                    let mut attrs: Vec<String> = vec![];
                    if let Some(map) = c.attributes() {
                        for a in map.iter() {
                            attrs.push(format!("{}={:?}", a.node_name(), a.value().unwrap_or_else(|_| "<value error>".into())));
                        }
                    }
                    attrs.sort();
                    out.push(format!("<{} {}>", c.node_name(), attrs.join(" ")));
                    walk(&c, out);
                    out.push("</>".to_string());
                }
                xml_dom::XmlNode::Comment(k) => out.push(format!("comment {:?}", k.data().unwrap_or_default())),
                xml_dom::XmlNode::PI(_) => out.push(format!("pi {} {:?}", c.node_name(), c.node_value().ok().flatten().unwrap_or_default())),
                xml_dom::XmlNode::DocumentType(_) => {}
                other => out.push(format!("other {}", other.node_name())),
            }
        }
        if in_run && !run.is_empty() {
            out.push(format!("text {:?}", run));
        }
    }
    let mut out = vec![];
    walk(&xml_dom::AsNode::as_node(doc), &mut out);
    out.join(" ")
}

fn edit_apply(doc: &xml_dom::XmlDocument, edit: &str) -> Result<(), String> {
    use xml_dom::{AsNode, AttrMut, CharacterData, CharacterDataMut, ElementMut, ProcessingInstructionMut, TextMut};
    let mut it = edit.splitn(3, '.');
    let (target, op, arg) = (it.next().unwrap_or(""), it.next().unwrap_or(""), it.next().unwrap_or(""));
    let r = doc.document_element().map_err(|e| format!("{:?}", e))?;
    let kids: Vec<xml_dom::XmlNode> = r.child_nodes().iter().collect();
    let cls = |e: xml_dom::error::Error| format!("{:?}", e);
    fn chardata<T: CharacterDataMut + CharacterData>(t: &T, op: &str, arg: &str) -> Option<xml_dom::error::Result<()>> {
        let len = t.length();
        Some(match op {
            "ins0" => t.insert_data(0, arg),
            "insE" => t.insert_data(len, arg),
            "app" => t.append_data(arg),
            "set" => t.set_data(arg),
            "rep" => t.replace_data(0, 1, arg),
            "del0" => t.delete_data(0, 1),
            "delM" => t.delete_data(len / 2, 1),
            _ => return None,
        })
    }
    let find = |want: &str| kids.iter().find(|k| match (want, k) {
        ("T", xml_dom::XmlNode::Text(_)) | ("K", xml_dom::XmlNode::Comment(_)) | ("D", xml_dom::XmlNode::CData(_)) | ("P", xml_dom::XmlNode::PI(_)) => true,
        _ => false,
    });
    let res: xml_dom::error::Result<()> = match target {
        "T" => match find("T") {
            Some(xml_dom::XmlNode::Text(t)) => {
                if op == "split" {
                    t.split_text(t.length() / 2).map(|_| ())
                } else {
                    chardata(t, op, arg).unwrap_or(Ok(()))
                }
            }
            _ => Ok(()),
        },
        "K" => match find("K") {
            Some(xml_dom::XmlNode::Comment(t)) => chardata(t, op, arg).unwrap_or(Ok(())),
            _ => Ok(()),
        },
        "D" => match find("D") {
            Some(xml_dom::XmlNode::CData(t)) => {
                if op == "split" {
                    t.split_text(t.length() / 2).map(|_| ())
                } else {
                    chardata(t, op, arg).unwrap_or(Ok(()))
                }
            }
            _ => Ok(()),
        },
        "P" => match find("P") {
            Some(xml_dom::XmlNode::PI(p)) => p.set_data(arg),
            _ => Ok(()),
        },
        "A" => match Element::get_attribute_node(&r, "a") {
            Some(a) => a.set_value(arg),
            None => Ok(()),
        },
        _ => match op {
            "attr" => r.set_attribute(arg, "v"),
            "attrv" => r.set_attribute("n", arg),
            "text" => r.append_child(doc.create_text_node(arg).as_node()).map(|_| ()),
            "comment" => r.append_child(doc.create_comment(arg).as_node()).map(|_| ()),
            "cdata" => r.append_child(doc.create_cdata_section(arg).as_node()).map(|_| ()),
            "pi" => doc.create_processing_instruction("q", arg).and_then(|p| r.append_child(p.as_node()).map(|_| ())),
            "pit" => doc.create_processing_instruction(arg, "x").and_then(|p| r.append_child(p.as_node()).map(|_| ())),
            "elem" => doc.create_element(arg).and_then(|e| r.append_child(e.as_node()).map(|_| ())),
            _ => Ok(()),
        },
    };
    res.map_err(cls)
}

fn own_data_invalid(doc: &xml_dom::XmlDocument) -> bool {
    use xml_dom::CharacterData;
    fn walk(n: &xml_dom::XmlNode) -> bool {
        for c in n.child_nodes().iter() {
            let bad = match &c {
                xml_dom::XmlNode::Text(t) => t.data().map(|d| d.contains("]]>")).unwrap_or(false),
                xml_dom::XmlNode::CData(t) => t.data().map(|d| d.contains("]]>")).unwrap_or(false),
                xml_dom::XmlNode::Comment(t) => t.data().map(|d| d.contains("--") || d.ends_with('-')).unwrap_or(false),
                _ => false,
            };
            if bad || walk(&c) {
                return true;
            }
        }
        false
    }
    walk(&xml_dom::AsNode::as_node(doc))
}

pub fn dom_edit_roundtrip(edits: &str) -> Outcome {
    let mut expected = "faithful".to_string();
    let observed = match catch_unwind(AssertUnwindSafe(|| {
        let (_, doc) = xml_dom::XmlDocument::from_raw(EDIT_DOC).unwrap();
        for e in edits.split(';').filter(|s| !s.is_empty()) {
            // a panic inside a call is C13's matter (the factories are a recorded finding there)
            match catch_unwind(AssertUnwindSafe(|| edit_apply(&doc, e))) {
                Ok(Ok(())) => {}
                Ok(Err(_)) => return "faithful".to_string(), // a refused call: nothing is claimed about this history
                Err(_) => return "faithful".to_string(),
            }
        }
        // delete_data (and replace_data / set_data, which delete) cannot refuse and can leave data that is invalid ON ITS OWN ("--"
        // in a comment, "]]>"): the three recorded open findings of C15, each an obligation of units/c16_chardata.py.  Such a
        // history is theirs; this grid is about what else can go wrong.  ONLY a history with a deleting call is theirs: data that is
        // invalid on its own after insertions alone (a comment that ends in "-" after append_data("-")) is this grid's business.
        let deletes = edits.split(';').any(|e| matches!(e.split('.').nth(1), Some("set") | Some("rep") | Some("del0") | Some("delM")));
        if deletes && own_data_invalid(&doc) {
            return "faithful".to_string();
        }
        let reported = edit_dump(&doc);
        let printed = format!("{}", doc);
        // (re-parsed with references expanded: what the serialization DENOTES)
        let back = match xml_dom::XmlDocument::from_raw_with_context(printed.as_str(), xml_dom::Context::from_text_expanded(true)) {
            Ok((rest, d)) if rest.is_empty() => d,
            Ok((rest, _)) => return format!("every call reported success, but the serialization {:?} is not parsed completely (rest {:?})", printed, rest),
            Err(_) => return format!("every call reported success, but the serialization {:?} is rejected", printed),
        };
        let again = edit_dump(&back);
        if again != reported {
            return format!("the serialization {:?} denotes [{}], the DOM reports [{}]", printed, again, reported);
        }
        "faithful".to_string()
    })) {
        Ok(s) => s,
        Err(e) => {
            expected = "no panic".to_string();
            format!("PANIC({}) while printing or re-parsing", e.downcast_ref::<&str>().map(|s| s.to_string()).or_else(|| e.downcast_ref::<String>().cloned()).unwrap_or_default())
        }
    };
    Outcome { observed, expected, note: format!("document {}", EDIT_DOC) }
}

pub fn edit_singles() -> Vec<String> {
    let mut out = vec![];
    for t in ["T", "K", "D"] {
        for op in ["ins0", "insE", "app", "set", "rep"] {
            for a in EDIT_ARGS {
                out.push(format!("{}.{}.{}", t, op, a));
            }
        }
        out.push(format!("{}.del0.", t));
        out.push(format!("{}.delM.", t));
    }
    out.push("T.split.".to_string());
    out.push("D.split.".to_string());
    for a in EDIT_ARGS {
        out.push(format!("P.set.{}", a));
        out.push(format!("A.setv.{}", a));
        for op in ["attr", "attrv", "text", "comment", "cdata", "pi", "pit", "elem"] {
            out.push(format!("R.{}.{}", op, a));
        }
    }
    out
}

// ------------------------------------------------------------------------------------------------
// C10, document side: the namespace corpus (tools/gen_ns_corpus.py): the expanded name of every element and attribute, as the JDK
// DOM parser and libxml2 agree.  "local=uri" per element in document order, then its attributes (declarations left out) sorted.

pub const NS_CORPUS: &str = include_str!("../data/ns_corpus.txt");

pub fn info_ns_corpus(doc: &str, expected: &str) -> Outcome {
    use xml_info::{Attribute, Document, Element, HasQName};
    fn walk(e: &xml_info::XmlNode<xml_info::XmlElement>, out: &mut Vec<String>) {
        let b = e.borrow();
        let show = |r: xml_info::error::Result<Option<xml_info::NamespaceUri>>| match r {
            Ok(Some(u)) if !u.value().is_empty() => u.value().to_string(),
            Ok(Some(_)) => "-".to_string(),
            Ok(None) => "-".to_string(),
            Err(_) => "Err".to_string(),
        };
        out.push(format!("{}={}", b.local_name(), show(b.namespace_name())));
        let mut attrs = vec![];
        for a in b.attributes().iter() {
            let a = a.borrow();
            if a.prefix() == Some("xmlns") || (a.prefix().is_none() && a.local_name() == "xmlns") {
                continue;
            }
            attrs.push(format!("@{}={}", a.local_name(), show(a.namespace_name())));
        }
        attrs.sort();
        out.append(&mut attrs);
        for c in b.children().iter() {
            if let Some(ce) = c.as_element() {
                walk(&ce, out);
            }
        }
    }
    let observed = match catch_unwind(AssertUnwindSafe(|| {
        let tree = match xml_parser::document(doc) {
            Ok((rest, t)) if rest.is_empty() => t,
            _ => return "not accepted".to_string(),
        };
        let d = match xml_info::XmlDocument::new(&tree) {
            Ok(d) => d,
            Err(_) => return "not accepted".to_string(),
        };
        let root = match d.borrow().document_element() {
            Ok(r) => r,
            Err(_) => return "no document element".to_string(),
        };
        let mut out = vec![];
        walk(&root, &mut out);
        out.join(" ")
    })) {
        Ok(s) => s,
        Err(e) => format!("PANIC({})", e.downcast_ref::<&str>().map(|s| s.to_string()).or_else(|| e.downcast_ref::<String>().cloned()).unwrap_or_default()),
    };
    Outcome { observed, expected: expected.to_string(), note: String::new() }
}
