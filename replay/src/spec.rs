//! Executable mirror of the specification functions used in the Verus contracts (assumption A1: both are
//! transcriptions of the same W3C text). Used only by the witness search / replay, never as a verdict.
use crate::gen_chars::*;

pub fn umin(a: u128, b: u128) -> u128 {
    if a < b {
        a
    } else {
        b
    }
}

/// DOM Level 1 deleteData on a character sequence, clamped form used by info::delete_char_range.
pub fn delete_spec(v: &[char], o: usize, c: usize) -> Vec<char> {
    let len = v.len() as u128;
    let s = umin(o as u128, len) as usize;
    let e = umin(o as u128 + c as u128, len) as usize;
    let e = if e < s { s } else { e };
    let mut r: Vec<char> = v[..s].to_vec();
    r.extend_from_slice(&v[e..]);
    r
}

pub fn insert_spec(v: &[char], o: usize, new: &[char]) -> Vec<char> {
    let s = umin(o as u128, v.len() as u128) as usize;
    let mut r: Vec<char> = v[..s].to_vec();
    r.extend_from_slice(new);
    r.extend_from_slice(&v[s..]);
    r
}

pub fn substring_spec(v: &[char], a: usize, b: usize) -> Vec<char> {
    let len = v.len() as u128;
    let s = umin(a as u128, len) as usize;
    let e = umin(b as u128, len) as usize;
    if e < s {
        vec![]
    } else {
        v[s..e].to_vec()
    }
}

/// DOM substringData(offset, count): Err(IndexSize) iff offset > len, else v[offset..min(offset+count,len)]
pub fn dom_substring(v: &[char], o: usize, c: usize) -> Result<Vec<char>, &'static str> {
    if o > v.len() {
        return Err("IndexSizeErr");
    }
    let e = umin(o as u128 + c as u128, v.len() as u128) as usize;
    Ok(v[o..e].to_vec())
}

pub fn dom_delete(v: &[char], o: usize, c: usize) -> Result<Vec<char>, &'static str> {
    if o > v.len() {
        return Err("IndexSizeErr");
    }
    Ok(delete_spec(v, o, c))
}

pub fn contains_seq(v: &[char], pat: &str) -> bool {
    let p: Vec<char> = pat.chars().collect();
    if p.is_empty() {
        return true;
    }
    if v.len() < p.len() {
        return false;
    }
    (0..=v.len() - p.len()).any(|i| v[i..i + p.len()] == p[..])
}

/// [14] CharData as stored in a text item: Chars, no '<', no '&', no "]]>"
pub fn valid_text(v: &[char]) -> bool {
    v.iter().all(|c| p2_char(*c as u32) && *c != '<' && *c != '&') && !contains_seq(v, "]]>")
}

/// [15] Comment body: Chars, no "--", not ending in '-'
pub fn valid_comment(v: &[char]) -> bool {
    v.iter().all(|c| p2_char(*c as u32)) && !contains_seq(v, "--") && v.last() != Some(&'-')
}

/// [20] CData: Chars, no "]]>"
pub fn valid_cdata(v: &[char]) -> bool {
    v.iter().all(|c| p2_char(*c as u32)) && !contains_seq(v, "]]>")
}

pub fn valid_kind(kind: &str, v: &[char]) -> bool {
    match kind {
        "text" => valid_text(v),
        "comment" => valid_comment(v),
        "cdata" => valid_cdata(v),
        _ => unreachable!(),
    }
}

/// XPath 1.0 round(): closest integer, ties towards +inf; NaN, +-inf, +-0 unchanged; (-0.5, -0] -> -0.
pub fn xpath_round(x: f64) -> f64 {
    if x.is_nan() || x.is_infinite() || x == 0.0 {
        return x;
    }
    if x < 0.0 && x >= -0.5 {
        return -0.0;
    }
    let f = x.floor();
    if x - f >= 0.5 {
        f + 1.0
    } else {
        f
    }
}

/// XPath 1.0 substring(s, x[, y]) on characters.
pub fn xpath_substring(v: &[char], x: f64, y: Option<f64>) -> Vec<char> {
    let rx = xpath_round(x);
    let mut out = vec![];
    for (i, c) in v.iter().enumerate() {
        let p = (i + 1) as f64;
        let ok = match y {
            None => p >= rx,
            Some(y) => {
                let ry = xpath_round(y);
                p >= rx && p < rx + ry
            }
        };
        if ok {
            out.push(*c);
        }
    }
    out
}

pub fn same_f64(a: f64, b: f64) -> bool {
    (a.is_nan() && b.is_nan()) || a.to_bits() == b.to_bits()
}
