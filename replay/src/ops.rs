use crate::gen_chars::*;
use crate::spec::*;
use crate::Args;
use std::panic::{catch_unwind, AssertUnwindSafe};
use xml_dom::{
    AsNode, CharacterData, CharacterDataMut, Document, DocumentMut, Node, NodeList, NodeMut, TextMut,
};

pub struct Outcome {
    pub observed: String,
    pub expected: String,
    pub note: String,
}

impl Outcome {
    pub fn agree(&self) -> bool {
        self.observed == self.expected
    }

    pub fn print(&self) {
        println!("  observed={}", self.observed);
        println!("  expected={}", self.expected);
        if !self.note.is_empty() {
            println!("  note={}", self.note);
        }
        println!(
            "  verdict={}",
            if self.agree() {
                "AGREE"
            } else if self.observed.starts_with("PANIC") {
                "PANIC"
            } else {
                "DISAGREE"
            }
        );
    }
}

fn guard<F: FnOnce() -> String>(f: F) -> String {
    match catch_unwind(AssertUnwindSafe(f)) {
        Ok(s) => s,
        Err(e) => {
            let msg = if let Some(s) = e.downcast_ref::<&str>() {
                s.to_string()
            } else if let Some(s) = e.downcast_ref::<String>() {
                s.clone()
            } else {
                "?".to_string()
            };
            format!("PANIC({})", msg)
        }
    }
}

pub fn parse_usize(s: &str) -> usize {
    match s {
        "MAX" => usize::MAX,
        "MAX-1" => usize::MAX - 1,
        _ => s.parse::<usize>().unwrap(),
    }
}

pub fn parse_f64(s: &str) -> f64 {
    if let Some(h) = s.strip_prefix("bits:") {
        let h = h.trim_start_matches("0x");
        return f64::from_bits(u64::from_str_radix(h, 16).unwrap());
    }
    match s {
        "NaN" => f64::NAN,
        "inf" | "Infinity" => f64::INFINITY,
        "-inf" | "-Infinity" => f64::NEG_INFINITY,
        _ => s.parse::<f64>().unwrap(),
    }
}

fn show_f64(x: f64) -> String {
    if x.is_nan() {
        "NaN".to_string()
    } else {
        format!("{:?}(bits:{:#018x})", x, x.to_bits())
    }
}

fn serde_unescape(d: &str) -> String {
    let mut out = String::new();
    let mut it = d.chars().peekable();
    while let Some(c) = it.next() {
        if c == '\\' {
            match it.next() {
                Some('u') => {
                    let mut hex = String::new();
                    it.next();
                    while let Some(&h) = it.peek() {
                        it.next();
                        if h == '}' {
                            break;
                        }
                        hex.push(h);
                    }
                    if let Some(ch) = u32::from_str_radix(&hex, 16).ok().and_then(char::from_u32) {
                        out.push(ch);
                    }
                }
                Some('n') => out.push('\n'),
                Some('t') => out.push('\t'),
                Some('r') => out.push('\r'),
                Some(o) => out.push(o),
                None => {}
            }
        } else {
            out.push(c);
        }
    }
    out
}

fn chars(s: &str) -> Vec<char> {
    s.chars().collect()
}

fn st(v: &[char]) -> String {
    v.iter().collect()
}

fn arg<'a>(a: &'a Args, k: &str) -> &'a str {
    a.get(k).map(|v| v.as_str()).unwrap_or("")
}

// ------------------------------------------------------------------------------------------------
// character-data nodes built from a real parse

enum CD {
    Text(xml_dom::XmlText),
    Comment(xml_dom::XmlComment),
    CData(xml_dom::XmlCDataSection),
}

fn make_node(kind: &str, content: &str) -> (xml_dom::XmlDocument, xml_dom::XmlElement, CD) {
    let (_, doc) = xml_dom::XmlDocument::from_raw("<root/>").unwrap();
    let root = doc.document_element().unwrap();
    if content.is_empty() {
        let cd = match kind {
            "text" => {
                let n = doc.create_text_node("");
                root.append_child(n.as_node()).unwrap();
                CD::Text(n)
            }
            "comment" => {
                let n = doc.create_comment("");
                root.append_child(n.as_node()).unwrap();
                CD::Comment(n)
            }
            _ => {
                let n = doc.create_cdata_section("");
                root.append_child(n.as_node()).unwrap();
                CD::CData(n)
            }
        };
        return (doc, root, cd);
    }
    let src = match kind {
        "text" => format!("<root>{}</root>", content),
        "comment" => format!("<root><!--{}--></root>", content),
        _ => format!("<root><![CDATA[{}]]></root>", content),
    };
    let (rest, doc) = xml_dom::XmlDocument::from_raw(src.as_str()).unwrap();
    assert!(rest.is_empty());
    let root = doc.document_element().unwrap();
    let n = root.child_nodes().item(0).unwrap();
    let cd = match kind {
        "text" => CD::Text(n.as_text().unwrap()),
        "comment" => CD::Comment(n.as_comment().unwrap()),
        _ => CD::CData(n.as_cdata().unwrap()),
    };
    (doc, root, cd)
}

impl CD {
    fn data(&self) -> String {
        match self {
            CD::Text(n) => n.data().unwrap(),
            CD::Comment(n) => n.data().unwrap(),
            CD::CData(n) => n.data().unwrap(),
        }
    }
    fn length(&self) -> usize {
        match self {
            CD::Text(n) => n.length(),
            CD::Comment(n) => n.length(),
            CD::CData(n) => n.length(),
        }
    }
    fn substring_data(&self, o: usize, c: usize) -> xml_dom::error::Result<String> {
        match self {
            CD::Text(n) => n.substring_data(o, c),
            CD::Comment(n) => n.substring_data(o, c),
            CD::CData(n) => n.substring_data(o, c),
        }
    }
    fn insert_data(&self, o: usize, a: &str) -> xml_dom::error::Result<()> {
        match self {
            CD::Text(n) => n.insert_data(o, a),
            CD::Comment(n) => n.insert_data(o, a),
            CD::CData(n) => n.insert_data(o, a),
        }
    }
    fn delete_data(&self, o: usize, c: usize) -> xml_dom::error::Result<()> {
        match self {
            CD::Text(n) => n.delete_data(o, c),
            CD::Comment(n) => n.delete_data(o, c),
            CD::CData(n) => n.delete_data(o, c),
        }
    }
    fn replace_data(&self, o: usize, c: usize, a: &str) -> xml_dom::error::Result<()> {
        match self {
            CD::Text(n) => n.replace_data(o, c, a),
            CD::Comment(n) => n.replace_data(o, c, a),
            CD::CData(n) => n.replace_data(o, c, a),
        }
    }
    fn append_data(&self, a: &str) -> xml_dom::error::Result<()> {
        match self {
            CD::Text(n) => n.append_data(a),
            CD::Comment(n) => n.append_data(a),
            CD::CData(n) => n.append_data(a),
        }
    }
    fn set_data(&self, a: &str) -> xml_dom::error::Result<()> {
        match self {
            CD::Text(n) => n.set_data(a),
            CD::Comment(n) => n.set_data(a),
            CD::CData(n) => n.set_data(a),
        }
    }
}

fn errname(e: &xml_dom::error::Error) -> String {
    match e {
        xml_dom::error::Error::Dom(d) => format!("Err({:?})", d),
        xml_dom::error::Error::Info(_) => "Err(invalid)".to_string(),
        xml_dom::error::Error::Parse(_) => "Err(invalid)".to_string(),
    }
}

/// Expected result of a mutating DOM call: state after + Ok / Err(class); failed calls leave the data unchanged.
fn show_state(res: Result<(), String>, data: &str) -> String {
    match res {
        Ok(()) => format!("Ok data={:?}", data),
        Err(e) => format!("{} data={:?}", e, data),
    }
}

fn dom_op(kind: &str, op: &str, a: &Args) -> Outcome {
    let content = arg(a, "content");
    let v = chars(content);
    let o = parse_usize(a.get("offset").map(|s| s.as_str()).unwrap_or("0"));
    let c = parse_usize(a.get("count").map(|s| s.as_str()).unwrap_or("0"));
    let data = arg(a, "arg");
    let dv = chars(data);
    let observed = guard(|| {
        let (doc, root, n) = make_node(kind, content);
        let _ = (&doc, &root);
        match op {
            "length" => format!("{}", n.length()),
            "substring_data" => match n.substring_data(o, c) {
                Ok(s) => format!("Ok({:?})", s),
                Err(e) => errname(&e),
            },
            "insert_data" => {
                let r = n.insert_data(o, data).map_err(|e| errname(&e));
                show_state(r, &n.data())
            }
            "delete_data" => {
                let r = n.delete_data(o, c).map_err(|e| errname(&e));
                show_state(r, &n.data())
            }
            "replace_data" => {
                let r = n.replace_data(o, c, data).map_err(|e| errname(&e));
                show_state(r, &n.data())
            }
            "append_data" => {
                let r = n.append_data(data).map_err(|e| errname(&e));
                show_state(r, &n.data())
            }
            "set_data" => {
                let r = n.set_data(data).map_err(|e| errname(&e));
                show_state(r, &n.data())
            }
            "split_text" => {
                let r = match &n {
                    CD::Text(t) => t.split_text(o).map(|t2| t2.data().unwrap()),
                    CD::CData(t) => t.split_text(o).map(|t2| t2.data().unwrap()),
                    CD::Comment(_) => unreachable!(),
                };
                match r {
                    Ok(second) => {
                        let kids = root.child_nodes();
                        let mut sib = vec![];
                        for i in 0..kids.length() {
                            sib.push(kids.item(i).unwrap().node_value().unwrap().unwrap_or_default());
                        }
                        format!("Ok first={:?} second={:?} siblings={:?}", n.data(), second, sib)
                    }
                    Err(e) => format!("{} data={:?}", errname(&e), n.data()),
                }
            }
            _ => unreachable!(),
        }
    });
    // policy=fragment: the inserted fragment alone is validated (what the code does, assumption A3; C16/C13);
    // policy=whole: the resulting data must be lexically valid for the node kind (C15).
    let whole = arg(a, "policy") == "whole";
    let valid = |x: &[char]| !whole || valid_kind(kind, x);
    // insert_char_at hands the JOINED string to the checker
    let frag_ok = true;
    let valid_joined = |x: &[char]| valid_kind(kind, x);
    let expected = match op {
        "length" => format!("{}", v.len()),
        "substring_data" => match dom_substring(&v, o, c) {
            Ok(s) => format!("Ok({:?})", st(&s)),
            Err(e) => format!("Err({})", e),
        },
        "insert_data" | "append_data" => {
            let o = if op == "append_data" { v.len() } else { o };
            if o > v.len() {
                show_state(Err("Err(IndexSizeErr)".into()), content)
            } else {
                let n = insert_spec(&v, o, &dv);
                if valid_joined(&n) && frag_ok {
                    show_state(Ok(()), &st(&n))
                } else {
                    show_state(Err("Err(invalid)".into()), content)
                }
            }
        }
        "delete_data" => match dom_delete(&v, o, c) {
            Ok(n) => {
                if valid(&n) {
                    show_state(Ok(()), &st(&n))
                } else {
                    show_state(Err("Err(invalid)".into()), content)
                }
            }
            Err(e) => show_state(Err(format!("Err({})", e)), content),
        },
        "replace_data" | "set_data" => {
            let (o, c) = if op == "set_data" { (0, v.len()) } else { (o, c) };
            match dom_delete(&v, o, c) {
                Ok(n) => {
                    // the code inserts first (validated on the joined string), then deletes the shifted old range
                    let n2 = insert_spec(&n, o, &dv);
                    let mid = insert_spec(&v, o, &dv);
                    if valid_joined(&mid) && valid(&n2) && frag_ok {
                        show_state(Ok(()), &st(&n2))
                    } else {
                        show_state(Err("Err(invalid)".into()), content)
                    }
                }
                Err(e) => show_state(Err(format!("Err({})", e)), content),
            }
        }
        "split_text" => {
            if o > v.len() {
                format!("Err(IndexSizeErr) data={:?}", content)
            } else {
                let a1 = st(&v[..o]);
                let a2 = st(&v[o..]);
                format!("Ok first={:?} second={:?} siblings={:?}", a1, a2, vec![a1.clone(), a2.clone()])
            }
        }
        _ => unreachable!(),
    };
    Outcome { observed, expected, note: String::new() }
}

// ------------------------------------------------------------------------------------------------
// info layer (through the real items of a parsed document)

fn info_op(kind: &str, op: &str, a: &Args) -> Outcome {
    use xml_info::{Character, Comment as _, Document as _, Element as _};
    let content = arg(a, "content");
    let v = chars(content);
    let o = parse_usize(a.get("offset").map(|s| s.as_str()).unwrap_or("0"));
    let c = parse_usize(a.get("count").map(|s| s.as_str()).unwrap_or("0"));
    let data = arg(a, "arg");
    let dv = chars(data);
    let src = match kind {
        "text" => format!("<root>{}</root>", content),
        "comment" => format!("<root><!--{}--></root>", content),
        _ => format!("<root><![CDATA[{}]]></root>", content),
    };
    let observed = guard(|| {
        let (_, tree) = xml_parser::document(src.as_str()).unwrap();
        let doc = xml_info::XmlDocument::new(&tree).unwrap();
        let root = doc.borrow().document_element().unwrap();
        let kids = root.borrow().children();
        let item = kids.get(0).unwrap();
        macro_rules! go {
            ($n:expr, $get:expr) => {{
                let n = $n;
                match op {
                    "len" => format!("{}", n.borrow().len()),
                    "substring" => format!("{:?}", n.borrow().substring(o..c)),
                    "delete" => {
                        n.borrow_mut().delete(o, c);
                        format!("data={:?}", $get(&n))
                    }
                    "insert" => {
                        let r = n.borrow_mut().insert(o, data);
                        format!("{} data={:?}", if r.is_ok() { "Ok" } else { "Err" }, $get(&n))
                    }
                    _ => unreachable!(),
                }
            }};
        }
        match kind {
            "text" => go!(item.as_text().unwrap(), |n: &xml_info::XmlNode<xml_info::XmlText>| n.borrow().character_code().to_string()),
            "comment" => go!(item.as_comment().unwrap(), |n: &xml_info::XmlNode<xml_info::XmlComment>| n.borrow().comment().to_string()),
            _ => go!(item.as_cdata().unwrap(), |n: &xml_info::XmlNode<xml_info::XmlCData>| n.borrow().character_code().to_string()),
        }
    });
    let expected = match op {
        "len" => format!("{}", v.len()),
        "substring" => format!("{:?}", st(&substring_spec(&v, o, c))),
        "delete" => format!("data={:?}", st(&delete_spec(&v, o, c))),
        "insert" => {
            // the RESULT must be lexically valid for the node kind (the checker sees the joined string)
            let n = insert_spec(&v, o, &dv);
            if valid_kind(kind, &n) {
                format!("Ok data={:?}", st(&n))
            } else {
                format!("Err data={:?}", content)
            }
        }
        _ => unreachable!(),
    };
    // policy=whole (C15): whatever a successful edit stores must still be valid character data of its kind
    if arg(a, "policy") == "whole" && (op == "delete" || op == "insert") {
        let stored = observed.split("data=").nth(1).map(|s| s.trim().trim_matches('"').to_string());
        let still_valid = match (&stored, observed.starts_with("Err")) {
            (_, true) => true,
            (Some(d), false) => {
                let un: String = serde_unescape(d);
                valid_kind(kind, &chars(un.as_str()))
            }
            _ => true,
        };
        return Outcome {
            observed: format!("stored_data_valid={}", still_valid),
            expected: "stored_data_valid=true".into(),
            note: format!("C15: a successful edit must store lexically valid data; the real code answered: {}", observed),
        };
    }
    Outcome { observed, expected, note: String::new() }
}

// ------------------------------------------------------------------------------------------------

pub fn run(op: &str, a: &Args) -> Option<Outcome> {
    let parts: Vec<&str> = op.split('.').collect();
    match parts.as_slice() {
        ["xmlchar", f] => {
            let c = char::from_u32(arg(a, "c").parse::<u32>().ok()?)?;
            let ex = arg(a, "excepts");
            let (obs, exp): (bool, bool) = match *f {
                "is_char" => (xml_nom::xmlchar::is_char(c), p2_char(c as u32)),
                "is_name_start_char" => (xml_nom::xmlchar::is_name_start_char(c), p4_name_start_char(c as u32)),
                "is_name_char" => (xml_nom::xmlchar::is_name_char(c), p4a_name_char(c as u32)),
                "is_pubid_char" => (xml_nom::xmlchar::is_pubid_char(c), p13_pubid_char(c as u32)),
                "is_enc_name" => (xml_nom::xmlchar::is_enc_name(c), p81_enc_name_tail(c as u32)),
                "is_char_except" => (
                    xml_nom::xmlchar::verif_hooks::is_char_except(c, ex),
                    p2_char(c as u32) && !ex.contains(c),
                ),
                "is_name_char_except" => (
                    xml_nom::xmlchar::verif_hooks::is_name_char_except(c, ex),
                    p4a_name_char(c as u32) && !ex.contains(c),
                ),
                "is_pubid_char_except" => (
                    xml_nom::xmlchar::verif_hooks::is_pubid_char_except(c, ex),
                    p13_pubid_char(c as u32) && !ex.contains(c),
                ),
                _ => return None,
            };
            Some(Outcome { observed: obs.to_string(), expected: exp.to_string(), note: format!("U+{:04X}", c as u32) })
        }
        ["info", "delete_char_range"] => {
            let v = arg(a, "value");
            let o = parse_usize(arg(a, "offset"));
            let c = parse_usize(arg(a, "count"));
            let observed = guard(|| format!("{:?}", xml_info::verif_hooks::delete_char_range(v, o, c)));
            let expected = format!("{:?}", st(&delete_spec(&chars(v), o, c)));
            Some(Outcome { observed, expected, note: String::new() })
        }
        ["info", "insert_char_at"] => {
            let v = arg(a, "value");
            let o = parse_usize(arg(a, "offset"));
            let n = arg(a, "new");
            let ok = arg(a, "check") != "false";
            let observed = guard(|| {
                match xml_info::verif_hooks::insert_char_at(v, o, n, |_s| Ok(ok)) {
                    Ok(s) => format!("Ok({:?})", s),
                    Err(_) => "Err".to_string(),
                }
            });
            let expected = if ok {
                format!("Ok({:?})", st(&insert_spec(&chars(v), o, &chars(n))))
            } else {
                "Err".to_string()
            };
            Some(Outcome { observed, expected, note: String::new() })
        }
        ["info", "char_from_char10"] | ["info", "char_from_char16"] => {
            let v = arg(a, "value");
            let radix = if parts[1] == "char_from_char10" { 10 } else { 16 };
            let observed = guard(|| {
                let r = if radix == 10 {
                    xml_info::verif_hooks::char_from_char10(v)
                } else {
                    xml_info::verif_hooks::char_from_char16(v)
                };
                match r {
                    Ok(c) => format!("Ok(U+{:04X})", c as u32),
                    Err(_) => "Err".to_string(),
                }
            });
            // [66] CharRef: digits only, value must match Char
            let digits_ok = !v.is_empty() && v.chars().all(|c| c.is_digit(radix));
            let expected = if !digits_ok {
                "Err".to_string()
            } else {
                match u128::from_str_radix(v, radix) {
                    Ok(n) if n <= 0x10FFFF && p2_char(n as u32) => format!("Ok(U+{:04X})", n),
                    _ => "Err".to_string(),
                }
            };
            Some(Outcome { observed, expected, note: String::new() })
        }
        ["info", "normalize_ws"] => {
            let v = arg(a, "value");
            let observed = guard(|| format!("{:?}", xml_info::verif_hooks::normalize_ws(v)));
            let e: String = v
                .chars()
                .map(|c| if c == ' ' || c == '\t' || c == '\n' || c == '\r' { ' ' } else { c })
                .collect();
            Some(Outcome { observed, expected: format!("{:?}", e), note: String::new() })
        }
        ["info", "escape"] => {
            let v = arg(a, "value");
            let observed = guard(|| format!("{:?}", xml_info::verif_hooks::escape(v)));
            // any correctly quoted literal is acceptable: quote q not in v, result q + v + q
            let obs_s = guard(|| xml_info::verif_hooks::escape(v));
            let oc = chars(&obs_s);
            let okq = oc.len() == chars(v).len() + 2
                && (oc[0] == '"' || oc[0] == '\'')
                && oc[oc.len() - 1] == oc[0]
                && st(&oc[1..oc.len() - 1]) == v
                && !v.contains(oc[0]);
            let both = v.contains('"') && v.contains('\'');
            let expected = if okq || both { observed.clone() } else { format!("a quoted literal of {:?} whose quote does not occur in it", v) };
            Some(Outcome { observed, expected, note: if both { "value contains both quotes: outside the contract's precondition".into() } else { String::new() } })
        }
        ["info", "equal_qname"] => {
            use xml_nom::model::{PrefixedName, QName};
            fn mk<'a>(p: &'a str, l: &'a str) -> QName<'a> {
                if p == "-" {
                    QName::Unprefixed(l)
                } else {
                    QName::Prefixed(PrefixedName { prefix: p, local_part: l })
                }
            }
            let (pa, la, pb, lb) = (arg(a, "pa"), arg(a, "la"), arg(a, "pb"), arg(a, "lb"));
            let observed = guard(|| xml_info::verif_hooks::equal_qname(mk(pa, la), mk(pb, lb)).to_string());
            let expected = (pa == pb && la == lb).to_string();
            Some(Outcome { observed, expected, note: String::new() })
        }
        ["info", "attr_norm"] => Some(crate::ops_more::info_attr_norm(arg(a, "doc"), arg(a, "expected"))),
        ["info", "ns_corpus"] => Some(crate::ops_seq::info_ns_corpus(arg(a, "doc"), arg(a, "expected"))),
        ["info", "attr_corpus"] => Some(crate::ops_seq::info_attr_corpus(arg(a, "doc"), arg(a, "expected"))),
        ["info", "roundtrip"] | ["info", "roundtrip_corpus"] => Some(crate::ops_more::info_roundtrip(arg(a, "doc"))),
        ["info", "build_print_corpus"] => Some(crate::ops_more::info_build_print_inproc(arg(a, "doc"))),
        ["info", "reject"] => Some(crate::ops_more::info_reject(arg(a, "doc"))),
        ["info", "attr_defaults"] => Some(crate::ops_more::info_attr_defaults(arg(a, "doc"), arg(a, "expected"))),
        ["info", "namespace_names"] => Some(crate::ops_more::info_namespace_names(arg(a, "doc"), arg(a, "expected"))),
        ["info", "attr_value"] => Some(crate::ops_more::info_attr_value(arg(a, "doc"))),
        ["info", "build_print"] => Some(crate::ops_more::info_build_print(arg(a, "doc"))),
        ["info", "build_print_inproc"] => Some(crate::ops_more::info_build_print_inproc(arg(a, "doc"))),
        ["info", "attr_value_inproc"] => Some(crate::ops_more::info_attr_value_inproc(arg(a, "doc"))),
        ["info", kind, opn] => Some(info_op(kind, opn, a)),
        ["dom", kind, opn] => Some(dom_op(kind, opn, a)),
        ["order", "script"] => Some(crate::ops_more::order_script(arg(a, "script"))),
        ["xpath", "mutants"] => Some(crate::ops_seq::xpath_mutant(arg(a, "query"))),
        ["xpath", "deep"] => Some(crate::ops_seq::xpath_deep(arg(a, "doc"))),
        ["xpath", "deep_inproc"] => Some(crate::ops_seq::xpath_deep_inproc(arg(a, "doc"))),
        ["xpath", "corpus_repeat"] => Some(crate::ops_seq::xpath_corpus_repeat(arg(a, "doc").parse().unwrap_or(0), arg(a, "query"), arg(a, "expected"))),
        ["dom", "edit_views"] | ["dom", "edit_views1"] => Some(crate::ops_order::dom_edit_views(arg(a, "steps"))),
        ["dom", "edit_order"] | ["dom", "edit_order1"] | ["dom", "edit_order0"] => Some(crate::ops_order::dom_edit_order(arg(a, "steps"))),
        ["names", "accepted"] => Some(crate::ops_seq::names_accepted(arg(a, "position"), arg(a, "name"))),
        ["xpath", "union_algebra"] => Some(crate::ops_seq::xpath_union_algebra(arg(a, "a"), arg(a, "b"))),
        ["xpath", "ctx_series"] => Some(crate::ops_seq::xpath_ctx_series(arg(a, "first"), arg(a, "second"))),
        ["xpath", "corpus_order"] => Some(crate::ops_seq::xpath_corpus_order(arg(a, "doc").parse().unwrap_or(0), arg(a, "query"), arg(a, "expected"))),
        ["xpath", "corpus"] | ["xpath", "corpus_paths"] | ["xpath", "corpus_scalars"] | ["xpath", "corpus_scalars0"] | ["xpath", "corpus_names"] => Some(crate::ops_seq::xpath_corpus(arg(a, "doc").parse().unwrap_or(0), arg(a, "query"), arg(a, "expected"))),
        ["xpath", rest @ ..] => crate::ops_more::xpath_op(rest, a),
        ["ctx", "script"] => Some(crate::ops_more::ctx_script(arg(a, "script"))),
        ["dom", "order_keys"] => Some(crate::ops_more::dom_order_keys(arg(a, "doc"))),
        ["dom", "tree_atomic"] => Some(crate::ops_more::dom_tree_atomic(arg(a, "scenario"))),
        ["dom", "edit_roundtrip"] | ["dom", "edit_roundtrip1"] => Some(crate::ops_seq::dom_edit_roundtrip(arg(a, "edits"))),
        ["dom", "attr_seq"] | ["dom", "attr_seq1"] => Some(crate::ops_seq::dom_attr_seq(arg(a, "ops"))),
        ["dom", "seq_tree"] | ["dom", "seq1_tree"] => Some(crate::ops_seq::dom_seq(arg(a, "ops"), "tree")),
        ["dom", "seq_atomic"] | ["dom", "seq1_atomic"] => Some(crate::ops_seq::dom_seq(arg(a, "ops"), "atomic")),
        ["dom", "seq_order"] | ["dom", "seq1_order"] => Some(crate::ops_seq::dom_seq(arg(a, "ops"), "order")),
        ["dom", "attr_owner"] => Some(crate::ops_more::dom_attr_owner(arg(a, "scenario"))),
        ["dom", "factory"] => Some(crate::ops_more::dom_factory(arg(a, "kind"), arg(a, "data"))),
        ["dom", "views_after_edits"] => Some(crate::ops_more::dom_after_edits(arg(a, "scenario"), "views")),
        ["dom", "keys_after_edits"] => Some(crate::ops_more::dom_after_edits(arg(a, "scenario"), "keys")),
        ["dom", "preorder_after_edits"] => Some(crate::ops_more::dom_after_edits(arg(a, "scenario"), "preorder")),
        ["dom", "children_after_edits"] => Some(crate::ops_more::dom_after_edits(arg(a, "scenario"), "children")),
        _ => None,
    }
}

// ------------------------------------------------------------------------------------------------
// boundary grids (deterministic; derived from the case split of the contract clauses)

pub const CONTENTS: [&str; 10] = ["", "a", "ab", "a\u{e9}\u{1d4b3} b", "0123456789", "]]", "a-b-c", "e\u{301}\u{1F600}x", "]x]>", "x]>y"];
pub const INSERTS: [&str; 12] = ["", "x", "\u{e9}\u{1d4b3}", ">", "<", "&", "-", "--", "]]>", "a]", "-x", "]"];

fn usize_grid(len: usize) -> Vec<String> {
    let mut v: Vec<String> = vec![];
    for x in [0usize, 1, len.saturating_sub(1), len, len + 1, len + 2] {
        let s = x.to_string();
        if !v.contains(&s) {
            v.push(s);
        }
    }
    v.push("MAX-1".into());
    v.push("MAX".into());
    v
}

fn mk(pairs: &[(&str, &str)]) -> Args {
    pairs.iter().map(|(k, v)| (k.to_string(), v.to_string())).collect()
}

pub fn grid(op: &str, limit: usize) -> (usize, Vec<(Args, Outcome)>) {
    let mut n = 0usize;
    let mut bad = vec![];
    let isolate = std::env::var("REPLAY_ISOLATE").is_ok();
    let try_one = |a: Args, n: &mut usize, bad: &mut Vec<(Args, Outcome)>| {
        if bad.len() >= limit {
            *n += 1;
            return;
        }
        // only inputs the operation actually evaluated count as cases (an unknown operation or an input outside the mirror's
        // domain answers None): a grid that evaluates nothing reports 0 cases, which the driver treats as UNDECIDED
        // REPLAY_ISOLATE: every case in a process of its own (the driver asks for it after a grid run died of a signal -- a stack
        // overflow, an abort -- to learn WHICH input kills it)
        let res = if isolate { crate::ops_more::run_isolated(op, &a) } else { run(op, &a) };
        if let Some(o) = res {
            *n += 1;
            if !o.agree() {
                bad.push((a, o));
            }
        }
    };
    let parts: Vec<&str> = op.split('.').collect();
    match parts.as_slice() {
        ["xmlchar", f] => {
            let excepts: Vec<&str> = if f.ends_with("_except") { vec!["", "<&", "-", "'\"", "\u{e9}a"] } else { vec![""] };
            for ex in excepts {
                for c in 0u32..=0x10FFFF {
                    if char::from_u32(c).is_none() {
                        continue;
                    }
                    let cs = c.to_string();
                    try_one(mk(&[("c", cs.as_str()), ("excepts", ex)]), &mut n, &mut bad);
                }
            }
        }
        ["info", "delete_char_range"] => {
            for v in CONTENTS {
                let len = v.chars().count();
                for o in usize_grid(len) {
                    for c in usize_grid(len) {
                        try_one(mk(&[("value", v), ("offset", o.as_str()), ("count", c.as_str())]), &mut n, &mut bad);
                    }
                }
            }
        }
        ["info", "insert_char_at"] => {
            for v in CONTENTS {
                let len = v.chars().count();
                for o in usize_grid(len) {
                    for nw in INSERTS {
                        for ck in ["true", "false"] {
                            try_one(mk(&[("value", v), ("offset", o.as_str()), ("new", nw), ("check", ck)]), &mut n, &mut bad);
                        }
                    }
                }
            }
        }
        ["info", "char_from_char10"] | ["info", "char_from_char16"] => {
            let hex = parts[1] == "char_from_char16";
            let mut vals: Vec<String> = vec!["99999999999999999999".into()];
            for n in [0u32, 1, 8, 9, 10, 11, 12, 13, 14, 31, 32, 65, 0x7F, 0xD7FF, 0xD800, 0xDFFF, 0xE000, 0xFFFD, 0xFFFE, 0xFFFF, 0x10000, 0x10FFFF, 0x110000, u32::MAX] {
                vals.push(if hex { format!("{:X}", n) } else { n.to_string() });
                vals.push(if hex { format!("000{:x}", n) } else { format!("000{}", n) });
            }
            for v in vals {
                try_one(mk(&[("value", v.as_str())]), &mut n, &mut bad);
            }
        }
        ["info", "normalize_ws"] => {
            for v in ["", "a", " a\tb\nc\rd ", "\u{a0}\u{2003}x", "\r\n", "\u{85}\u{2028}"] {
                try_one(mk(&[("value", v)]), &mut n, &mut bad);
            }
        }
        ["info", "escape"] => {
            for v in ["", "a", "a\"b", "a'b", "'", "\"", "\u{e9}"] {
                try_one(mk(&[("value", v)]), &mut n, &mut bad);
            }
        }
        ["info", "equal_qname"] => {
            let ps = ["-", "a", "b", ""];
            let ls = ["x", "y", "a"];
            for pa in ps {
                for la in ls {
                    for pb in ps {
                        for lb in ls {
                            try_one(mk(&[("pa", pa), ("la", la), ("pb", pb), ("lb", lb)]), &mut n, &mut bad);
                        }
                    }
                }
            }
        }
        ["info", kind, opn] | ["dom", kind, opn] => {
            let layer = parts[0];
            for v in CONTENTS {
                let vv = chars(v);
                if !valid_kind(kind, &vv) {
                    continue;
                }
                if layer == "info" && v.is_empty() {
                    continue;
                }
                let len = vv.len();
                let needs_count = matches!(*opn, "substring_data" | "delete_data" | "replace_data" | "delete" | "substring");
                let needs_arg = matches!(*opn, "insert_data" | "replace_data" | "append_data" | "set_data" | "insert");
                let needs_off = !matches!(*opn, "length" | "len" | "append_data" | "set_data");
                let offs = if needs_off { usize_grid(len) } else { vec!["0".to_string()] };
                for o in offs {
                    let cnts = if needs_count { usize_grid(len) } else { vec!["0".to_string()] };
                    for c in cnts {
                        if *opn == "substring" && parse_usize(&c) < parse_usize(&o) {
                            continue; // Range with end < start is outside the precondition of info::substring
                        }
                        let ins: Vec<&str> = if needs_arg { INSERTS.to_vec() } else { vec![""] };
                        let policy = std::env::var("REPLAY_POLICY").unwrap_or_else(|_| "fragment".to_string());
                        for i in ins {
                            try_one(mk(&[("content", v), ("offset", o.as_str()), ("count", c.as_str()), ("arg", i), ("policy", policy.as_str())]), &mut n, &mut bad);
                        }
                    }
                }
            }
        }
        ["order", "script"] => {
            for s in crate::ops_more::order_scripts() {
                try_one(mk(&[("script", s.as_str())]), &mut n, &mut bad);
            }
        }
        ["ctx", "script"] => {
            for s in crate::ops_more::ctx_scripts() {
                try_one(mk(&[("script", s.as_str())]), &mut n, &mut bad);
            }
        }
        ["dom", "views_after_edits"] | ["dom", "keys_after_edits"] | ["dom", "preorder_after_edits"] | ["dom", "children_after_edits"] => {
            for sc in crate::ops_more::EDIT_SCENARIOS {
                try_one(mk(&[("scenario", sc)]), &mut n, &mut bad);
            }
        }
        ["xpath", "deep"] => {
            for sh in crate::ops_seq::XPATH_DEEP {
                try_one(mk(&[("doc", sh)]), &mut n, &mut bad);
            }
        }
        ["xpath", "mutants"] => {
            for line in crate::ops_seq::XPATH_MUTANTS.lines() {
                let q = crate::ops_more::unescape_line(line);
                try_one(mk(&[("query", q.as_str())]), &mut n, &mut bad);
            }
        }
        ["xpath", "corpus_repeat"] => {
            // every 7th corpus entry (each is evaluated four times)
            for (i, line) in crate::ops_seq::XPATH_CORPUS.lines().enumerate() {
                if i % 7 != 0 {
                    continue;
                }
                let mut it = line.splitn(3, '\t');
                let (d, q, e) = (it.next().unwrap_or(""), it.next().unwrap_or(""), it.next().unwrap_or(""));
                let q = crate::ops_more::unescape_line(q);
                try_one(mk(&[("doc", d), ("query", q.as_str()), ("expected", e)]), &mut n, &mut bad);
            }
        }
        ["dom", "edit_views1"] => {
            // every single step, and every move / removal / creation followed by every step that moves, removes or creates
            let singles = crate::ops_order::singles();
            for o in &singles {
                try_one(mk(&[("steps", o.as_str())]), &mut n, &mut bad);
            }
            for f in singles.iter().filter(|g| g.starts_with("A:") || g.starts_with("R:") || g.starts_with("N:")) {
                for g in singles.iter().filter(|g| g.starts_with("A:") || g.starts_with("R:") || g.starts_with("N:")) {
                    let two = format!("{};{}", f, g);
                    try_one(mk(&[("steps", two.as_str())]), &mut n, &mut bad);
                }
            }
        }
        ["dom", "edit_views"] => {
            let singles = crate::ops_order::singles();
            for f in &singles {
                try_one(mk(&[("steps", f.as_str())]), &mut n, &mut bad);
                for g in &singles {
                    let two = format!("{};{}", f, g);
                    try_one(mk(&[("steps", two.as_str())]), &mut n, &mut bad);
                }
            }
        }
        ["dom", "edit_order0"] => {
            // the single steps only (C07's quick tier: a node-set of an edited document is in document order too)
            for o in crate::ops_order::singles() {
                try_one(mk(&[("steps", o.as_str())]), &mut n, &mut bad);
            }
        }
        ["dom", "edit_order1"] => {
            // quick tier: every single step, and every removal / attribute edit / creation / move followed by every attribute edit or creation
            let singles = crate::ops_order::singles();
            for o in &singles {
                try_one(mk(&[("steps", o.as_str())]), &mut n, &mut bad);
            }
            for f in crate::ops_order::openers() {
                for g in singles.iter().filter(|g| g.starts_with("T:") || g.starts_with("N:") || g.starts_with("V:")) {
                    let two = format!("{};{}", f, g);
                    try_one(mk(&[("steps", two.as_str())]), &mut n, &mut bad);
                }
            }
        }
        ["dom", "edit_order"] => {
            // thorough tier: every pair of steps, and the openers followed by every pair of an attribute edit / creation and any step
            let singles = crate::ops_order::singles();
            for f in &singles {
                try_one(mk(&[("steps", f.as_str())]), &mut n, &mut bad);
                for g in &singles {
                    let two = format!("{};{}", f, g);
                    try_one(mk(&[("steps", two.as_str())]), &mut n, &mut bad);
                }
            }
        }
        ["names", "accepted"] => {
            for pos in ["element", "attribute", "pi", "entity"] {
                for nm in crate::ops_seq::name_candidates() {
                    try_one(mk(&[("position", pos), ("name", nm.as_str())]), &mut n, &mut bad);
                }
            }
        }
        ["xpath", "union_algebra"] => {
            // every ordered pair of the operand paths
            for f in crate::ops_seq::UNION_OPERANDS {
                for g in crate::ops_seq::UNION_OPERANDS {
                    try_one(mk(&[("a", f), ("b", g)]), &mut n, &mut bad);
                }
            }
        }
        ["xpath", "ctx_series"] => {
            // every ordered pair of the series queries: the second on a context that served the first
            for f in crate::ops_seq::CTX_SERIES {
                for g in crate::ops_seq::CTX_SERIES {
                    try_one(mk(&[("first", f), ("second", g)]), &mut n, &mut bad);
                }
            }
        }
        ["xpath", "corpus_order"] => {
            for line in crate::ops_seq::XPATH_CORPUS.lines() {
                let mut it = line.splitn(3, '\t');
                let (d, q, e) = (it.next().unwrap_or(""), it.next().unwrap_or(""), it.next().unwrap_or(""));
                if e.starts_with("NS:") {
                    let q = crate::ops_more::unescape_line(q);
                    try_one(mk(&[("doc", d), ("query", q.as_str()), ("expected", e)]), &mut n, &mut bad);
                }
            }
        }
        ["xpath", "corpus"] | ["xpath", "corpus_paths"] | ["xpath", "corpus_scalars"] | ["xpath", "corpus_scalars0"] | ["xpath", "corpus_names"] => {
            // corpus_names: documents 1, 5 and 8 (namespaces); corpus_paths: node-set results of the other documents; corpus_scalars: the rest
            for line in crate::ops_seq::XPATH_CORPUS.lines() {
                let mut it = line.splitn(3, '\t');
                let (d, q, e) = (it.next().unwrap_or(""), it.next().unwrap_or(""), it.next().unwrap_or(""));
                let part = if d == "1" || d == "5" || d == "8" { "corpus_names" } else if e.starts_with("NS:") { "corpus_paths" } else { "corpus_scalars" };
                // corpus_scalars0 (C09): the scalar results over document 0 -- the function and operator pools
                let wanted = parts[1] == "corpus" || parts[1] == part || (parts[1] == "corpus_scalars0" && part == "corpus_scalars" && d == "0");
                if !wanted {
                    continue;
                }
                let q = crate::ops_more::unescape_line(q);
                try_one(mk(&[("doc", d), ("query", q.as_str()), ("expected", e)]), &mut n, &mut bad);
            }
        }
        ["dom", "edit_roundtrip1"] => {
            for e in crate::ops_seq::edit_singles() {
                try_one(mk(&[("edits", e.as_str())]), &mut n, &mut bad);
            }
        }
        ["dom", "edit_roundtrip"] => {
            let singles = crate::ops_seq::edit_singles();
            for e in &singles {
                try_one(mk(&[("edits", e.as_str())]), &mut n, &mut bad);
            }
            for first in &singles {
                for e in &singles {
                    let two = format!("{};{}", first, e);
                    try_one(mk(&[("edits", two.as_str())]), &mut n, &mut bad);
                }
            }
        }
        ["dom", "attr_seq1"] => {
            for o in crate::ops_seq::attr_single_ops() {
                try_one(mk(&[("ops", o.as_str())]), &mut n, &mut bad);
            }
        }
        ["dom", "attr_seq"] => {
            let singles = crate::ops_seq::attr_single_ops();
            for o in &singles {
                try_one(mk(&[("ops", o.as_str())]), &mut n, &mut bad);
            }
            for first in &singles {
                for o in &singles {
                    let two = format!("{};{}", first, o);
                    try_one(mk(&[("ops", two.as_str())]), &mut n, &mut bad);
                }
            }
        }
        ["dom", "seq1_tree"] | ["dom", "seq1_atomic"] | ["dom", "seq1_order"] => {
            // the single operations only (quick tier)
            for o in crate::ops_seq::single_ops().iter().chain(crate::ops_seq::special_ops().iter()) {
                try_one(mk(&[("ops", o.as_str())]), &mut n, &mut bad);
            }
        }
        ["dom", "seq_tree"] | ["dom", "seq_atomic"] | ["dom", "seq_order"] => {
            // every single operation, then every performed first step (one per distinct resulting tree) followed by every operation
            let singles = crate::ops_seq::single_ops();
            for o in singles.iter().chain(crate::ops_seq::special_ops().iter()) {
                try_one(mk(&[("ops", o.as_str())]), &mut n, &mut bad);
            }
            for first in crate::ops_seq::state_changers() {
                for o in &singles {
                    let two = format!("{};{}", first, o);
                    try_one(mk(&[("ops", two.as_str())]), &mut n, &mut bad);
                }
            }
        }
        ["dom", "tree_atomic"] => {
            for sc in crate::ops_more::TREE_SCENARIOS {
                try_one(mk(&[("scenario", sc)]), &mut n, &mut bad);
            }
        }
        ["info", "reject"] => {
            for d in crate::ops_more::ILL_FORMED {
                try_one(mk(&[("doc", d)]), &mut n, &mut bad);
            }
            // token-level mutants of well-formed documents that an independent parser (expat) rejects: tools/gen_illformed.py
            for line in crate::ops_more::ILL_FORMED_MUTANTS.lines() {
                let d = crate::ops_more::unescape_line(line);
                try_one(mk(&[("doc", d.as_str())]), &mut n, &mut bad);
            }
        }
        ["info", "ns_corpus"] => {
            for line in crate::ops_seq::NS_CORPUS.lines() {
                let mut it = line.splitn(2, '\t');
                let (d, e) = (it.next().unwrap_or(""), it.next().unwrap_or(""));
                let d = crate::ops_more::unescape_line(d);
                try_one(mk(&[("doc", d.as_str()), ("expected", e)]), &mut n, &mut bad);
            }
        }
        ["info", "attr_corpus"] => {
            for line in crate::ops_seq::ATTR_CORPUS.lines() {
                let mut it = line.splitn(2, '\t');
                let (d, e) = (it.next().unwrap_or(""), it.next().unwrap_or(""));
                let d = crate::ops_more::unescape_line(d);
                try_one(mk(&[("doc", d.as_str()), ("expected", e)]), &mut n, &mut bad);
            }
        }
        ["info", "roundtrip_corpus"] => {
            // the well-formed token-level mutants of tools/gen_illformed.py: print, parse, print must be a fixpoint (or the document is not accepted)
            for line in crate::ops_more::WELL_FORMED_MUTANTS.lines() {
                let d = crate::ops_more::unescape_line(line);
                try_one(mk(&[("doc", d.as_str())]), &mut n, &mut bad);
            }
        }
        ["info", "build_print_corpus"] => {
            // every mutant, well-formed or not: parsing, building and printing must not panic (in process: none of them nests deeply)
            for line in crate::ops_more::WELL_FORMED_MUTANTS.lines().chain(crate::ops_more::ILL_FORMED_MUTANTS.lines()) {
                let d = crate::ops_more::unescape_line(line);
                try_one(mk(&[("doc", d.as_str())]), &mut n, &mut bad);
            }
            // multi-byte text in every position (the corpora above are ASCII for the most part): a printer or checker that cuts a string
            // at a byte offset panics on these
            for d in crate::ops_more::multibyte_docs().iter().chain(crate::ops_more::roundtrip_enumerated().iter()) {
                try_one(mk(&[("doc", d.as_str())]), &mut n, &mut bad);
            }
        }
        ["info", "roundtrip"] => {
            for d in crate::ops_more::ROUNDTRIP_DOCS {
                try_one(mk(&[("doc", d)]), &mut n, &mut bad);
            }
            // enumerated: every attribute value and every content of up to three pieces (quotes, their character and entity references,
            // markup characters, the parts of "]]>", CDATA sections, comments) -- the shapes whose print needs the right delimiter or escape
            for d in crate::ops_more::roundtrip_enumerated().iter().chain(crate::ops_more::multibyte_docs().iter()) {
                try_one(mk(&[("doc", d.as_str())]), &mut n, &mut bad);
            }
        }
        ["info", "attr_defaults"] => {
            for (d, e) in crate::ops_more::ATTR_DEFAULT_CASES {
                try_one(mk(&[("doc", d), ("expected", e)]), &mut n, &mut bad);
            }
        }
        ["info", "namespace_names"] => {
            for (d, e) in crate::ops_more::NS_CASES {
                try_one(mk(&[("doc", d), ("expected", e)]), &mut n, &mut bad);
            }
        }
        ["info", "attr_norm"] => {
            for (d, e) in crate::ops_more::ATTR_NORM_CASES {
                try_one(mk(&[("doc", d), ("expected", e)]), &mut n, &mut bad);
            }
        }
        ["info", "attr_value"] => {
            for d in crate::ops_more::ENTITY_DOCS {
                try_one(mk(&[("doc", d)]), &mut n, &mut bad);
            }
        }
        ["info", "build_print"] => {
            for d in crate::ops_more::BUILD_DOCS {
                try_one(mk(&[("doc", d)]), &mut n, &mut bad);
            }
            // hostile shapes (C03): element nesting, nested content-model groups, wide documents
            for k in [50usize, 300, 5000] {
                let deep = format!("{}{}", "<a>".repeat(k), "</a>".repeat(k));
                try_one(mk(&[("doc", deep.as_str())]), &mut n, &mut bad);
            }
            for k in [4usize, 12, 26] {
                let groups = format!("<!DOCTYPE r [<!ELEMENT r {}a{}>]><r/>", "(".repeat(k), ")".repeat(k));
                try_one(mk(&[("doc", groups.as_str())]), &mut n, &mut bad);
                let choices = format!("<!DOCTYPE r [<!ELEMENT r {}a{}>]><r/>", "(".repeat(k), "|b)".repeat(k));
                try_one(mk(&[("doc", choices.as_str())]), &mut n, &mut bad);
                let seqs = format!("<!DOCTYPE r [<!ELEMENT r {}a{}>]><r/>", "(".repeat(k), ",b)*".repeat(k));
                try_one(mk(&[("doc", seqs.as_str())]), &mut n, &mut bad);
            }
            let wide = format!("<r>{}</r>", "<a x=\"1\">t</a><!--c-->".repeat(3000));
            try_one(mk(&[("doc", wide.as_str())]), &mut n, &mut bad);
            let attrs: String = (0..2000).map(|i| format!(" a{}=\"v\"", i)).collect();
            let many_attrs = format!("<r{}/>", attrs);
            try_one(mk(&[("doc", many_attrs.as_str())]), &mut n, &mut bad);
        }
        ["dom", "factory"] => {
            for (k, d) in crate::ops_more::FACTORY_CASES {
                try_one(mk(&[("kind", k), ("data", d)]), &mut n, &mut bad);
            }
        }
        ["dom", "attr_owner"] => {
            for sc in crate::ops_more::ATTR_OWNER_SCENARIOS {
                try_one(mk(&[("scenario", sc)]), &mut n, &mut bad);
            }
        }
        ["dom", "order_keys"] => {
            for d in crate::ops_more::ORDER_DOCS {
                try_one(mk(&[("doc", d)]), &mut n, &mut bad);
            }
        }
        ["xpath", rest @ ..] => {
            for a in crate::ops_more::xpath_grid(rest) {
                try_one(a, &mut n, &mut bad);
            }
        }
        _ => {}
    }
    (n, bad)
}
