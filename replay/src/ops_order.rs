//! C14, the property as stated: after every step of an edit history
//!   (1) the document-order keys of the attached nodes are non-zero, pairwise distinct and strictly increasing along a pre-order walk
//!       in which an element precedes its attributes and its attributes precede its children, and
//!   (2) a query on the edited document selects, orders and de-duplicates exactly as on a fresh parse of its serialization.
//! Unlike `dom.seq_order` no handle on any node is kept between the steps: every node is looked up by name when a step needs it, so
//! that what an edit detaches really dies (dead entries of the order vector, stale per-node caches), and the queries of (2) run after
//! every step, so that every cache that can be filled is filled before the next edit.
//!
//! Steps (`;`-separated):
//!   A:<parent>:<node>          append_child (the node moves)        I:<parent>:<node>:<ref>   insert_before
//!   R:<node>                   remove_child from its parent         N:<parent>:<kind>         create (e element, c comment, p PI) and append
//!   T:<element>:<name>         set_attribute(name, "9")             V:<element>:<name>        remove_attribute(name)
//! A step the library refuses is skipped (C13's matter).  A serialization the parser rejects ends (2) for that history (C15's matter).
use crate::ops::Outcome;
use std::panic::{catch_unwind, AssertUnwindSafe};
use xml_dom::{AsNode, DocumentMut, ElementMut, Node, NodeMut};

pub const ORDER_DOC: &str = "<r x='1'><e a='1' p:b='2' xmlns:p='u'><k/>t</e><f z='1' xmlns:q='v'/><g y='2'><i/><h><m/></h></g><!--c--></r><!--j-->";
pub const ELEMENTS: [&str; 8] = ["r", "e", "k", "f", "g", "h", "m", "i"];
pub const MOVABLE: [&str; 8] = ["e", "k", "f", "g", "h", "i", "#c", "#t"];
pub const PARENTS: [&str; 5] = ["r", "e", "f", "g", "h"];
pub const SET_NAMES: [&str; 4] = ["a", "n", "p:z", "xmlns:q"];
pub const DEL_NAMES: [&str; 5] = ["a", "x", "y", "xmlns:p", "p:b"];
pub const QUERIES: [&str; 11] = [
    "//node()", "//@*", "//* | //@*", "(//node() | //@*)[last()]", "//*[last()]", "//*/node()[1]", "//@*/..", "//*/following::node()[1]", "//*/preceding::*[1]", "//*/ancestor::*[1]", "count(//node() | //@*)",
];

fn find(n: &xml_dom::XmlNode, what: &str) -> Option<xml_dom::XmlNode> {
    let hit = match what {
        "#c" => n.node_type() == xml_dom::NodeType::Comment && n.node_value().ok().flatten().as_deref() == Some("c"),
        "#t" => n.node_type() == xml_dom::NodeType::Text,
        name => n.node_type() == xml_dom::NodeType::Element && n.node_name() == name,
    };
    if hit {
        return Some(n.clone());
    }
    for c in n.child_nodes().iter() {
        if let Some(x) = find(&c, what) {
            return Some(x);
        }
    }
    None
}

fn with_mut<R>(p: &xml_dom::XmlNode, f: impl FnOnce(&dyn NodeMut) -> R) -> Option<R> {
    match p {
        xml_dom::XmlNode::Element(v) => Some(f(v)),
        xml_dom::XmlNode::Document(v) => Some(f(v)),
        _ => None,
    }
}

/// performs one step; false = refused / not applicable (nothing is claimed about it)
fn apply(doc: &xml_dom::XmlDocument, step: &str) -> bool {
    let t: Vec<&str> = step.split(':').collect();
    let root = doc.as_node();
    let get = |w: &str| find(&root, w);
    match t.as_slice() {
        ["A", p, n] => match (get(p), get(n)) {
            (Some(p), Some(n)) => with_mut(&p, |m| m.append_child(n).is_ok()).unwrap_or(false),
            _ => false,
        },
        ["I", p, n, r] => match (get(p), get(n), get(r)) {
            (Some(p), Some(n), Some(r)) => with_mut(&p, |m| m.insert_before(n, Some(&r)).is_ok()).unwrap_or(false),
            _ => false,
        },
        ["R", n] => match get(n) {
            Some(n) => match n.parent_node() {
                Some(p) => with_mut(&p, |m| m.remove_child(&n).is_ok()).unwrap_or(false),
                None => false,
            },
            None => false,
        },
        ["N", p, kind] => match get(p) {
            Some(p) => {
                let new = match *kind {
                    "e" => doc.create_element("z").ok().map(|v| v.as_node()),
                    "c" => Some(doc.create_comment("w").as_node()),
                    _ => doc.create_processing_instruction("q", "d").ok().map(|v| v.as_node()),
                };
                match new {
                    Some(n) => with_mut(&p, |m| m.append_child(n).is_ok()).unwrap_or(false),
                    None => false,
                }
            }
            None => false,
        },
        ["T", e, name] => match get(e).and_then(|n| n.as_element()) {
            Some(el) => el.set_attribute(name, "9").is_ok(),
            None => false,
        },
        ["V", e, name] => match get(e).and_then(|n| n.as_element()) {
            Some(el) => el.remove_attribute(name).is_ok(),
            None => false,
        },
        _ => false,
    }
}

pub fn key_faults(doc: &xml_dom::XmlDocument) -> Vec<String> {
    fn walk(n: &xml_dom::XmlNode, last: &mut usize, seen: &mut std::collections::BTreeSet<usize>, bad: &mut Vec<String>) {
        let k = n.order();
        if k == 0 {
            bad.push(format!("{} has the key 0", n.node_name()));
        } else {
            if !seen.insert(k) {
                bad.push(format!("{} shares the key {}", n.node_name(), k));
            }
            if k <= *last {
                bad.push(format!("{}={} comes after the key {}", n.node_name(), k, *last));
            }
            *last = k;
        }
        if let Some(attrs) = n.attributes() {
            let base = *last;
            let mut top = base;
            for a in attrs.iter() {
                if !xml_dom::Attr::specified(&a) {
                    continue;
                }
                let ak = a.as_node().order();
                if ak == 0 {
                    bad.push(format!("@{} has the key 0", a.node_name()));
                } else {
                    if !seen.insert(ak) {
                        bad.push(format!("@{} shares the key {}", a.node_name(), ak));
                    }
                    if ak <= base {
                        bad.push(format!("@{}={} is not after its element / the preceding node ({})", a.node_name(), ak, base));
                    }
                    top = top.max(ak);
                }
            }
            *last = top;
        }
        for c in n.child_nodes().iter() {
            walk(&c, last, seen, bad);
        }
    }
    let mut bad = vec![];
    let mut last = 0;
    let mut seen = std::collections::BTreeSet::new();
    walk(&doc.as_node(), &mut last, &mut seen, &mut bad);
    bad
}

/// where a node sits: the child indices from the root, `@name` for an attribute
fn place(n: &xml_dom::XmlNode) -> String {
    if let xml_dom::XmlNode::Attribute(a) = n {
        let owner = a.owner_element().map(|e| place(&e.as_node())).unwrap_or_else(|| "?".to_string());
        return format!("{}/@{}", owner, n.node_name());
    }
    match n.parent_node() {
        None => String::new(),
        Some(p) => {
            let i = p.child_nodes().iter().position(|c| c.id() == n.id()).map(|i| i.to_string()).unwrap_or_else(|| "?".to_string());
            format!("{}/{}", place(&p), i)
        }
    }
}

fn answers(doc: &xml_dom::XmlDocument) -> Vec<String> {
    use xml_xpath::eval::model::{Context, Value};
    QUERIES
        .iter()
        .map(|q| match xml_xpath::query(doc.clone(), q, &mut Context::default()) {
            Ok(Value::Node(ns)) => {
                // (exactly as listed: the order of the attributes of one element is the library's own choice, but the property demands the
                // SAME choice on the edited document and on its re-parse)
                let v: Vec<String> = ns.iter().map(place).collect();
                format!("{} -> [{}]", q, v.join(" "))
            }
            Ok(Value::Number(x)) => format!("{} -> {}", q, x),
            Ok(Value::Text(s)) => format!("{} -> {:?}", q, s),
            Ok(Value::Boolean(b)) => format!("{} -> {}", q, b),
            Err(e) => format!("{} -> Err({})", q, e),
        })
        .collect()
}

pub fn dom_edit_order(steps: &str) -> Outcome {
    let expected = "keys in order; every query answers as on the re-parsed serialization".to_string();
    let observed = match catch_unwind(AssertUnwindSafe(|| {
        let (_, doc) = xml_dom::XmlDocument::from_raw(ORDER_DOC).unwrap();
        let _ = answers(&doc);
        for (i, s) in steps.split(';').filter(|s| !s.is_empty()).enumerate() {
            // a panic inside a mutator is C13's matter; the history ends there
            match catch_unwind(AssertUnwindSafe(|| apply(&doc, s))) {
                Ok(_) => {}
                Err(_) => return "keys in order; every query answers as on the re-parsed serialization".to_string(),
            }
            let bad = key_faults(&doc);
            if !bad.is_empty() {
                return format!("after step {} ({}): {:?}", i, s, bad);
            }
            let here = answers(&doc);
            let printed = format!("{}", doc);
            if let Ok((rest, back)) = xml_dom::XmlDocument::from_raw(printed.as_str()) {
                if rest.is_empty() {
                    // (adjacent text nodes would merge on the way: no step creates text, and the one text node moves alone)
                    let there = answers(&back);
                    for (a, b) in here.iter().zip(there.iter()) {
                        if a != b {
                            return format!("after step {} ({}): edited document: {}   re-parsed {:?}: {}", i, s, a, printed, b);
                        }
                    }
                }
            }
        }
        "keys in order; every query answers as on the re-parsed serialization".to_string()
    })) {
        Ok(s) => s,
        Err(e) => format!("PANIC({}) outside a mutator call", e.downcast_ref::<&str>().map(|s| s.to_string()).or_else(|| e.downcast_ref::<String>().cloned()).unwrap_or_default()),
    };
    Outcome { observed, expected, note: format!("document {}", ORDER_DOC) }
}

/// C12 over the same histories: after every step the navigational views of the whole document agree
pub fn view_faults(doc: &xml_dom::XmlDocument) -> Vec<String> {
    fn walk(n: &xml_dom::XmlNode, depth: usize, bad: &mut Vec<String>) {
        if depth > 16 {
            bad.push(format!("{} lies beneath itself (depth > 16)", n.node_name()));
            return;
        }
        let mut lists: Vec<(String, Vec<xml_dom::XmlNode>)> = vec![("child".to_string(), n.child_nodes().iter().collect())];
        if let Some(attrs) = n.attributes() {
            for a in attrs.iter() {
                // an attribute's own children (its value items) are a child list too; the attribute names its element as owner
                if a.owner_element().map(|e| e.as_node().id()) != Some(n.id()) {
                    bad.push(format!("@{} of {} does not name it as owner_element", a.node_name(), n.node_name()));
                }
                lists.push((format!("@{}", a.node_name()), vec![]));
                walk(&a.as_node(), depth + 1, bad);
            }
        }
        let kids = lists.remove(0).1;
        for (i, c) in kids.iter().enumerate() {
            match c.parent_node() {
                Some(p) if p.id() == n.id() => {}
                other => bad.push(format!("{} lists {} whose parent_node is {:?}", n.node_name(), c.node_name(), other.map(|v| v.node_name()))),
            }
            if c.previous_sibling().map(|v| v.id()) != (if i > 0 { Some(kids[i - 1].id()) } else { None }) {
                bad.push(format!("previous_sibling of child {} of {} disagrees with the child list", i, n.node_name()));
            }
            if c.next_sibling().map(|v| v.id()) != kids.get(i + 1).map(|v| v.id()) {
                bad.push(format!("next_sibling of child {} of {} disagrees with the child list", i, n.node_name()));
            }
            if kids.iter().filter(|k| k.id() == c.id()).count() != 1 {
                bad.push(format!("{} occurs more than once under {}", c.node_name(), n.node_name()));
            }
            walk(c, depth + 1, bad);
        }
        if n.first_child().map(|v| v.id()) != kids.first().map(|v| v.id()) || n.last_child().map(|v| v.id()) != kids.last().map(|v| v.id()) {
            bad.push(format!("first_child / last_child of {} disagree with the child list", n.node_name()));
        }
        if n.has_child() != !kids.is_empty() {
            bad.push(format!("has_child of {} disagrees with the child list", n.node_name()));
        }
    }
    let mut bad = vec![];
    walk(&doc.as_node(), 0, &mut bad);
    let dk: Vec<xml_dom::XmlNode> = doc.child_nodes().iter().collect();
    if dk.iter().filter(|k| k.node_type() == xml_dom::NodeType::Element).count() > 1 {
        bad.push("the document has more than one element child".to_string());
    }
    if dk.iter().filter(|k| k.node_type() == xml_dom::NodeType::DocumentType).count() > 1 {
        bad.push("the document has more than one document type child".to_string());
    }
    bad
}

pub fn dom_edit_views(steps: &str) -> Outcome {
    let expected = "the views agree".to_string();
    let observed = match catch_unwind(AssertUnwindSafe(|| {
        let (_, doc) = xml_dom::XmlDocument::from_raw(ORDER_DOC).unwrap();
        for (i, s) in steps.split(';').filter(|s| !s.is_empty()).enumerate() {
            // for a removal: the node that leaves (looked up before the step) must end without a parent
            let leaving = if let Some(n) = s.strip_prefix("R:") { find(&doc.as_node(), n) } else { None };
            let done = match catch_unwind(AssertUnwindSafe(|| apply(&doc, s))) {
                Ok(d) => d,
                Err(_) => return "the views agree".to_string(), // a panic inside a mutator is C13's matter
            };
            if let (true, Some(n)) = (done, &leaving) {
                if n.parent_node().is_some() {
                    return format!("after step {} ({}): the removed node still names a parent", i, s);
                }
            }
            drop(leaving);
            let bad = view_faults(&doc);
            if !bad.is_empty() {
                return format!("after step {} ({}): {:?}", i, s, bad);
            }
        }
        "the views agree".to_string()
    })) {
        Ok(s) => s,
        Err(e) => format!("PANIC({}) outside a mutator call", e.downcast_ref::<&str>().map(|s| s.to_string()).or_else(|| e.downcast_ref::<String>().cloned()).unwrap_or_default()),
    };
    Outcome { observed, expected, note: format!("document {}", ORDER_DOC) }
}

pub fn singles() -> Vec<String> {
    let mut out = vec![];
    for p in PARENTS {
        for n in MOVABLE {
            out.push(format!("A:{}:{}", p, n));
            for r in MOVABLE {
                if r != n {
                    out.push(format!("I:{}:{}:{}", p, n, r));
                }
            }
        }
        for k in ["e", "c", "p"] {
            out.push(format!("N:{}:{}", p, k));
        }
    }
    for n in MOVABLE {
        out.push(format!("R:{}", n));
    }
    for e in ELEMENTS {
        for n in SET_NAMES {
            out.push(format!("T:{}:{}", e, n));
        }
        for n in DEL_NAMES {
            out.push(format!("V:{}:{}", e, n));
        }
    }
    out
}

/// the steps that leave something behind for a later step to trip over: removals, moves of subtrees, attribute edits
pub fn openers() -> Vec<String> {
    singles().into_iter().filter(|s| s.starts_with("R:") || s.starts_with("T:") || s.starts_with("V:") || s.starts_with("N:") || s.starts_with("A:")).collect()
}
