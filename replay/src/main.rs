//! Replay / witness-search binary: calls the REAL functions of /repo (feature `verif` hooks) with concrete
//! arguments and compares with an executable mirror of the specification. It decides nothing; the verdict
//! is the verifier's. Usage:
//!   replay run  <op> key=value ...     -> prints observed/expected/verdict, exit 1 on DISAGREE or PANIC
//!   replay grid <op>                   -> runs the boundary grid of <op>, prints the first disagreements
mod gen_chars;
mod ops_more;
mod ops_seq;
mod ops_order;
mod ops;
mod spec;

use std::collections::BTreeMap;

pub type Args = BTreeMap<String, String>;

pub static LAST_PANIC_AT: std::sync::Mutex<String> = std::sync::Mutex::new(String::new());

/// Argument transport: control characters and backslash travel as \\n \\r \\t \\\\ so that one argument is one line.
pub fn esc(v: &str) -> String {
    v.replace('\\', "\\\\").replace('\n', "\\n").replace('\r', "\\r").replace('\t', "\\t")
}

fn unesc(v: &str) -> String {
    let mut out = String::new();
    let mut it = v.chars();
    while let Some(c) = it.next() {
        if c == '\\' {
            match it.next() {
                Some('n') => out.push('\n'),
                Some('r') => out.push('\r'),
                Some('t') => out.push('\t'),
                Some('\\') => out.push('\\'),
                Some(o) => {
                    out.push('\\');
                    out.push(o);
                }
                None => out.push('\\'),
            }
        } else {
            out.push(c);
        }
    }
    out
}

fn main() {
    // remember where the last panic happened (file:line) so that a witness can be matched with a failed obligation's site
    std::panic::set_hook(Box::new(|info| {
        if let Some(l) = info.location() {
            *LAST_PANIC_AT.lock().unwrap() = format!("{}:{}", l.file(), l.line());
        }
    }));
    let argv: Vec<String> = std::env::args().collect();
    if argv.len() < 3 {
        eprintln!("usage: replay run|grid <op> [key=value ...]");
        std::process::exit(2);
    }
    let mode = argv[1].as_str();
    let op = argv[2].as_str();
    match mode {
        "run" => {
            let mut args = Args::new();
            for a in &argv[3..] {
                if let Some((k, v)) = a.split_once('=') {
                    args.insert(k.to_string(), unesc(v));
                }
            }
            match ops::run(op, &args) {
                Some(o) => {
                    o.print();
                    std::process::exit(if o.agree() { 0 } else { 1 });
                }
                None => {
                    eprintln!("unknown op {}", op);
                    std::process::exit(2);
                }
            }
        }
        "grid" => {
            let limit = argv.get(3).and_then(|v| v.parse::<usize>().ok()).unwrap_or(3);
            let (n, bad) = ops::grid(op, limit);
            println!("grid op={} cases={} disagreements={}", op, n, bad.len());
            for (args, o) in &bad {
                let kv: Vec<String> = args.iter().map(|(k, v)| format!("{}={:?}", k, v)).collect();
                println!("WITNESS op={} {}", op, kv.join(" "));
                for (k, v) in args {
                    println!("  arg {}={}", k, esc(v));
                }
                o.print();
            }
            std::process::exit(if bad.is_empty() { 0 } else { 1 });
        }
        _ => std::process::exit(2),
    }
}
